//! fakefmt: a scripted stand-in for rustfmt (std only).
//!
//! The script is taken from $FAKEFMT_SCRIPT (steps separated by ';' or newlines) or, when that
//! is unset, from the file `<argv[0]>.script`. Steps:
//!   READ n            read n bytes from stdin (until n bytes, EOF or error)
//!   READALL           read stdin to EOF
//!   WRITE n valid     write n bytes of comment + white space to stdout
//!   WRITE n invalid-utf8
//!   ECHO              write everything read so far to stdout
//!   CLOSEIN | CLOSEOUT
//!   SLEEP ms
//!   EXIT code         (end of script = EXIT 0)
//!   KILL sig          kill(getpid(), sig)
//! Errors of read/write/close are ignored (EPIPE, EBADF are part of what is being tested).
//! Before the terminating step a one-line log `read=<n> wrote=<n> args=<argv[1..]>` is written to
//! `<argv[0]>.log` ($FAKEFMT_LOG overrides).
//! A script that cannot be parsed: exit status 97 and nothing else.

mod pattern;

extern "C" {
    fn read(fd: i32, buf: *mut u8, n: usize) -> isize;
    fn write(fd: i32, buf: *const u8, n: usize) -> isize;
    fn close(fd: i32) -> i32;
    fn kill(pid: i32, sig: i32) -> i32;
    fn getpid() -> i32;
    fn signal(sig: i32, handler: usize) -> usize;
}

#[derive(Debug)]
enum Step {
    Read(usize),
    ReadAll,
    Write(usize, bool),
    Echo,
    CloseIn,
    CloseOut,
    Sleep(u64),
    Exit(i32),
    Kill(i32),
}

fn parse(text: &str) -> Option<Vec<Step>> {
    let mut out = vec![];
    for line in text.split(|c| c == ';' || c == '\n') {
        let w: Vec<&str> = line.split_whitespace().collect();
        if w.is_empty() || w[0].starts_with('#') {
            continue;
        }
        let s = match (w[0], w.len()) {
            ("READ", 2) => Step::Read(w[1].parse().ok()?),
            ("READALL", 1) => Step::ReadAll,
            ("WRITE", 3) if w[2] == "valid" => Step::Write(w[1].parse().ok()?, true),
            ("WRITE", 3) if w[2] == "invalid-utf8" => Step::Write(w[1].parse().ok()?, false),
            ("ECHO", 1) => Step::Echo,
            ("CLOSEIN", 1) => Step::CloseIn,
            ("CLOSEOUT", 1) => Step::CloseOut,
            ("SLEEP", 2) => Step::Sleep(w[1].parse().ok()?),
            ("EXIT", 2) => Step::Exit(w[1].parse().ok()?),
            ("KILL", 2) => Step::Kill(w[1].parse().ok()?),
            _ => return None,
        };
        out.push(s);
    }
    Some(out)
}

/// Read up to `n` bytes (None = to EOF); stops at EOF or on any error.
fn read_in(buf: &mut Vec<u8>, n: Option<usize>) -> usize {
    let mut tmp = vec![0u8; 1 << 16];
    let mut got = 0usize;
    loop {
        let want = match n {
            Some(n) if got >= n => break,
            Some(n) => (n - got).min(tmp.len()),
            None => tmp.len(),
        };
        let r = unsafe { read(0, tmp.as_mut_ptr(), want) };
        if r <= 0 {
            break;
        }
        buf.extend_from_slice(&tmp[..r as usize]);
        got += r as usize;
    }
    got
}

/// Write all of `data` to stdout; stops on any error (EPIPE, EBADF).
fn write_out(data: &[u8]) -> usize {
    let mut off = 0usize;
    while off < data.len() {
        let r = unsafe { write(1, data[off..].as_ptr(), data.len() - off) };
        if r <= 0 {
            break;
        }
        off += r as usize;
    }
    off
}

fn main() {
    let argv: Vec<String> = std::env::args().collect();
    let argv0 = argv.first().cloned().unwrap_or_default();
    let text = match std::env::var("FAKEFMT_SCRIPT") {
        Ok(s) => s,
        Err(_) => match std::fs::read_to_string(format!("{argv0}.script")) {
            Ok(s) => s,
            Err(_) => std::process::exit(97),
        },
    };
    let Some(steps) = parse(&text) else {
        std::process::exit(97);
    };
    let log_path = std::env::var("FAKEFMT_LOG").unwrap_or_else(|_| format!("{argv0}.log"));
    let mut inbuf: Vec<u8> = vec![];
    let (mut nread, mut nwrote) = (0usize, 0usize);
    let log = |nread: usize, nwrote: usize| {
        let _ = std::fs::write(
            &log_path,
            format!("read={nread} wrote={nwrote} args={}\n", argv[1..].join(" ")),
        );
    };
    for s in steps {
        match s {
            Step::Read(n) => nread += read_in(&mut inbuf, Some(n)),
            Step::ReadAll => nread += read_in(&mut inbuf, None),
            Step::Write(n, valid) => {
                let data = if valid { pattern::valid(n) } else { pattern::invalid(n) };
                nwrote += write_out(&data);
            }
            Step::Echo => nwrote += write_out(&inbuf),
            Step::CloseIn => unsafe {
                close(0);
            },
            Step::CloseOut => unsafe {
                close(1);
            },
            Step::Sleep(ms) => std::thread::sleep(std::time::Duration::from_millis(ms)),
            Step::Exit(c) => {
                log(nread, nwrote);
                std::process::exit(c);
            }
            Step::Kill(sig) => {
                log(nread, nwrote);
                unsafe {
                    // std installs a SIGSEGV/SIGBUS handler (stack overflow detection): default action
                    signal(sig, 0);
                    kill(getpid(), sig);
                }
                // a signal that does not terminate: do not fall through to a clean exit
                loop {
                    std::thread::sleep(std::time::Duration::from_millis(1000));
                }
            }
        }
    }
    log(nread, nwrote);
    std::process::exit(0);
}
