//! Byte patterns written by `WRITE n valid|invalid-utf8` (shared with bvdrive's fmtdrive.rs,
//! which rebuilds the expected text of a trusted child).

/// Marker that starts every valid chunk of at least 5 bytes. A comment and white space only:
/// tokenises to nothing.
pub const MARK: &str = "/*F*/";

pub fn valid(n: usize) -> Vec<u8> {
    let mut v = Vec::with_capacity(n);
    if n >= MARK.len() {
        v.extend_from_slice(MARK.as_bytes());
    }
    while v.len() < n {
        v.push(if v.len() % 80 == 79 { b'\n' } else { b' ' });
    }
    v
}

pub fn invalid(n: usize) -> Vec<u8> {
    (0..n).map(|i| if i % 2 == 0 { 0xFF } else { 0xFE }).collect()
}
