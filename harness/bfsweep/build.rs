// Generates (1) a copy of the repository's bitfield_unit.rs whose `cfg!(target_endian = "big")`
// tests are replaced by `true`, so that the big-endian arithmetic (which works on bytes only) can be
// executed on this little-endian host, and (2) the table of const-generic instantiations named by
// the file $BFSWEEP_CONST_SET (lines `N OFF WIDTH`).
use std::env;
use std::fs;
use std::path::PathBuf;

fn main() {
    let manifest = PathBuf::from(env::var("CARGO_MANIFEST_DIR").unwrap());
    // $BFSWEEP_SRC (self-test of the check only: a mutated copy) replaces the repository's file
    println!("cargo:rerun-if-env-changed=BFSWEEP_SRC");
    println!("cargo:rustc-check-cfg=cfg(bfsweep_src_override)");
    let src = match env::var("BFSWEEP_SRC") {
        Ok(p) if !p.is_empty() => {
            println!("cargo:rustc-cfg=bfsweep_src_override");
            PathBuf::from(p)
        }
        _ => std::path::PathBuf::from("/repo/bindgen/codegen/bitfield_unit.rs"),
    };
    println!("cargo:rerun-if-changed={}", src.display());
    println!("cargo:rerun-if-env-changed=BFSWEEP_CONST_SET");
    let out = PathBuf::from(env::var("OUT_DIR").unwrap());
    let text = fs::read_to_string(&src).expect("bitfield_unit.rs");
    let needle = "cfg!(target_endian = \"big\")";
    let n = text.matches(needle).count();
    // the count is reported to the driver (`bfsweep info`): 0 would mean the big-endian copy is
    // not a big-endian copy any more
    fs::write(out.join("bitfield_unit_be.rs"), text.replace(needle, "true")).unwrap();
    fs::write(out.join("bitfield_unit_le.rs"), &text).unwrap();
    fs::write(out.join("be_sites.rs"), format!("pub const BE_SITES: usize = {};\n", n)).unwrap();

    // a table of function pointers (looked up through a hash map at run time): a `match` with
    // thousands of arms is a linear chain of comparisons in an unoptimised build
    let mut table = String::from(
        "pub type ConstFn = fn(u8, &mut [u8], u64) -> u64;\npub static CONST_TABLE: &[(usize, usize, u8, ConstFn)] = &[\n",
    );
    let mut count = 0usize;
    if let Ok(p) = env::var("BFSWEEP_CONST_SET") {
        println!("cargo:rerun-if-changed={}", p);
        let list = fs::read_to_string(&p).expect("const set file");
        let mut seen = std::collections::BTreeSet::new();
        for line in list.lines() {
            let f: Vec<usize> = line.split_whitespace().filter_map(|x| x.parse().ok()).collect();
            if f.len() != 3 || !seen.insert((f[0], f[1], f[2])) {
                continue;
            }
            table.push_str(&format!(
                "    ({n}, {o}, {w}, run_const::<{n}, {o}, {w}>),\n",
                n = f[0], o = f[1], w = f[2]
            ));
            count += 1;
        }
    }
    table.push_str("];\n");
    table.push_str(&format!("pub const CONST_INSTANCES: usize = {};\n", count));
    fs::write(out.join("const_table.rs"), table).unwrap();
}
