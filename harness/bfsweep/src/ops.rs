// Included once per copy of bitfield_unit.rs (module `le` and module `be`), so `storage` is visible.

pub const OP_GET: u8 = 0;
pub const OP_RAW_GET: u8 = 1;
pub const OP_SET: u8 = 2;
pub const OP_RAW_SET: u8 = 3;
pub const OP_GET_BIT: u8 = 4;
pub const OP_RAW_GET_BIT: u8 = 5;
pub const OP_SET_BIT: u8 = 6;
pub const OP_RAW_SET_BIT: u8 = 7;

/// run-time forms on a unit of N bytes
#[inline(never)]
pub fn run_rt<const N: usize>(op: u8, off: usize, w: u8, st: &mut [u8], v: u64) -> u64 {
    let mut a = [0u8; N];
    a.copy_from_slice(st);
    let mut u = __BindgenBitfieldUnit::new(a);
    let r = match op {
        OP_GET => u.get(off, w),
        OP_RAW_GET => unsafe { __BindgenBitfieldUnit::<[u8; N]>::raw_get(&u as *const _, off, w) },
        OP_SET => {
            u.set(off, w, v);
            0
        }
        OP_RAW_SET => {
            unsafe { __BindgenBitfieldUnit::<[u8; N]>::raw_set(&mut u as *mut _, off, w, v) };
            0
        }
        OP_GET_BIT => u.get_bit(off) as u64,
        OP_RAW_GET_BIT => unsafe { __BindgenBitfieldUnit::<[u8; N]>::raw_get_bit(&u as *const _, off) as u64 },
        OP_SET_BIT => {
            u.set_bit(off, v & 1 == 1);
            0
        }
        OP_RAW_SET_BIT => {
            unsafe { __BindgenBitfieldUnit::<[u8; N]>::raw_set_bit(&mut u as *mut _, off, v & 1 == 1) };
            0
        }
        _ => unreachable!(),
    };
    st.copy_from_slice(&u.storage);
    r
}

pub fn call_rt(n: usize, op: u8, off: usize, w: u8, st: &mut [u8], v: u64) -> Option<u64> {
    macro_rules! sizes {
        ($($n:literal)*) => { match n { $($n => Some(run_rt::<$n>(op, off, w, st, v)),)* _ => None } };
    }
    sizes!(1 2 3 4 5 6 7 8 9 10 11 12 13 14 15 16)
}

/// const-generic forms
#[inline(never)]
pub fn run_const<const N: usize, const O: usize, const W: u8>(op: u8, st: &mut [u8], v: u64) -> u64 {
    let mut a = [0u8; N];
    a.copy_from_slice(st);
    let mut u = __BindgenBitfieldUnit::new(a);
    let r = match op {
        OP_GET => u.get_const::<O, W>(),
        OP_RAW_GET => unsafe { __BindgenBitfieldUnit::<[u8; N]>::raw_get_const::<O, W>(&u as *const _) },
        OP_SET => {
            u.set_const::<O, W>(v);
            0
        }
        OP_RAW_SET => {
            unsafe { __BindgenBitfieldUnit::<[u8; N]>::raw_set_const::<O, W>(&mut u as *mut _, v) };
            0
        }
        _ => unreachable!(),
    };
    st.copy_from_slice(&u.storage);
    r
}

include!(concat!(env!("OUT_DIR"), "/const_table.rs"));

pub fn const_map() -> std::collections::HashMap<(usize, usize, u8), ConstFn> {
    CONST_TABLE.iter().map(|&(n, o, w, f)| ((n, o, w), f)).collect()
}
