//! bfsweep: executes the accessor arithmetic of the repository's bitfield_unit.rs.
//!
//! stdin, one case per line:   <id> <be:0|1> <n> <off> <w> <bg-hex> <v-hex16 (LE bytes)> <field-hex>
//!   bg-hex    : storage before a store
//!   field-hex : storage read by the getters
//! stdout, one line per case:  <id> followed by one result per entry point, in the order
//!   set raw_set set_const raw_set_const get raw_get get_const raw_get_const
//!   [set_bit raw_set_bit get_bit raw_get_bit   when w == 1]
//! where a result is the storage after the store (hex) / the returned value (16 hex digits, LE
//! bytes), `P` when the call panicked, `-` when the const-generic instantiation is not compiled in.
#![allow(dead_code)]
#![allow(clippy::all)]

use std::io::{BufRead, Write};
use std::panic;

// the working tree's file, by relative path
#[cfg(not(bfsweep_src_override))]
mod le {
    include!("/repo/bindgen/codegen/bitfield_unit.rs");
    include!("ops.rs");
}
// self-test of the check: $BFSWEEP_SRC names a mutated copy
#[cfg(bfsweep_src_override)]
mod le {
    include!(concat!(env!("OUT_DIR"), "/bitfield_unit_le.rs"));
    include!("ops.rs");
}
mod be {
    include!(concat!(env!("OUT_DIR"), "/bitfield_unit_be.rs"));
    include!("ops.rs");
}
include!(concat!(env!("OUT_DIR"), "/be_sites.rs"));

fn unhex(s: &str) -> Vec<u8> {
    (0..s.len() / 2).map(|i| u8::from_str_radix(&s[2 * i..2 * i + 2], 16).unwrap()).collect()
}
fn hex(b: &[u8]) -> String {
    let mut s = String::with_capacity(b.len() * 2);
    for x in b {
        s.push_str(&format!("{:02x}", x));
    }
    s
}

enum Form {
    Rt,
    Const,
}

type Map = std::collections::HashMap<(usize, usize, u8), fn(u8, &mut [u8], u64) -> u64>;
struct Maps {
    le: Map,
    be: Map,
}

fn exec(m: &Maps, be_: bool, form: Form, n: usize, op: u8, off: usize, w: u8, st: &[u8], v: u64, store: bool) -> String {
    let mut buf = st.to_vec();
    let r = panic::catch_unwind(panic::AssertUnwindSafe(|| match (be_, &form) {
        (false, Form::Rt) => le::call_rt(n, op, off, w, &mut buf, v),
        (true, Form::Rt) => be::call_rt(n, op, off, w, &mut buf, v),
        (false, Form::Const) => m.le.get(&(n, off, w)).map(|f| f(op, &mut buf, v)),
        (true, Form::Const) => m.be.get(&(n, off, w)).map(|f| f(op, &mut buf, v)),
    }));
    match r {
        Err(_) => "P".to_string(),
        Ok(None) => "-".to_string(),
        Ok(Some(val)) => {
            if store {
                hex(&buf)
            } else {
                hex(&val.to_le_bytes())
            }
        }
    }
}

fn main() {
    let args: Vec<String> = std::env::args().collect();
    if args.get(1).map(|s| s.as_str()) == Some("info") {
        println!(
            "{{\"be_sites\":{},\"const_instances\":{},\"debug_assertions\":{},\"usize_bits\":{},\"src_override\":{}}}",
            BE_SITES,
            le::CONST_INSTANCES,
            cfg!(debug_assertions),
            usize::BITS,
            cfg!(bfsweep_src_override)
        );
        return;
    }
    panic::set_hook(Box::new(|_| {}));
    let m = Maps { le: le::const_map(), be: be::const_map() };
    let stdin = std::io::stdin();
    let stdout = std::io::stdout();
    let mut out = std::io::BufWriter::with_capacity(1 << 20, stdout.lock());
    for line in stdin.lock().lines() {
        let line = line.unwrap();
        let f: Vec<&str> = line.split_whitespace().collect();
        if f.len() != 8 {
            continue;
        }
        let be_ = f[1] == "1";
        let n: usize = f[2].parse().unwrap();
        let off: usize = f[3].parse().unwrap();
        let w: u8 = f[4].parse().unwrap();
        let bg = unhex(f[5]);
        let vb = unhex(f[6]);
        let mut v8 = [0u8; 8];
        v8.copy_from_slice(&vb);
        let v = u64::from_le_bytes(v8);
        let field = unhex(f[7]);
        let mut res: Vec<String> = Vec::with_capacity(12);
        res.push(exec(&m, be_, Form::Rt, n, le::OP_SET, off, w, &bg, v, true));
        res.push(exec(&m, be_, Form::Rt, n, le::OP_RAW_SET, off, w, &bg, v, true));
        res.push(exec(&m, be_, Form::Const, n, le::OP_SET, off, w, &bg, v, true));
        res.push(exec(&m, be_, Form::Const, n, le::OP_RAW_SET, off, w, &bg, v, true));
        res.push(exec(&m, be_, Form::Rt, n, le::OP_GET, off, w, &field, 0, false));
        res.push(exec(&m, be_, Form::Rt, n, le::OP_RAW_GET, off, w, &field, 0, false));
        res.push(exec(&m, be_, Form::Const, n, le::OP_GET, off, w, &field, 0, false));
        res.push(exec(&m, be_, Form::Const, n, le::OP_RAW_GET, off, w, &field, 0, false));
        if w == 1 {
            res.push(exec(&m, be_, Form::Rt, n, le::OP_SET_BIT, off, w, &bg, v, true));
            res.push(exec(&m, be_, Form::Rt, n, le::OP_RAW_SET_BIT, off, w, &bg, v, true));
            res.push(exec(&m, be_, Form::Rt, n, le::OP_GET_BIT, off, w, &field, 0, false));
            res.push(exec(&m, be_, Form::Rt, n, le::OP_RAW_GET_BIT, off, w, &field, 0, false));
        }
        writeln!(out, "{} {}", f[0], res.join(" ")).unwrap();
    }
    out.flush().unwrap();
}
