//! syn-based inventory of a bindings file.
//!
//! Output (JSON, one object per input file on its own line):
//! {"file":..., "ok":bool, "err":"...", "items":[ {module path, kind, name, derives, repr, generics,
//!   fields:[[name, type]], attrs, tokens, foreign: {abi, unsafety, attrs}} ]}

use quote::ToTokens;
use serde_json::{json, Value};

/// Every path that occurs in type position inside `tokens` (segments without generic arguments).
struct PathCollector(Vec<String>);
impl<'ast> syn::visit::Visit<'ast> for PathCollector {
    fn visit_type_path(&mut self, p: &'ast syn::TypePath) {
        if p.qself.is_none() {
            let segs: Vec<String> = p.path.segments.iter().map(|s| s.ident.to_string()).collect();
            let lead = if p.path.leading_colon.is_some() { "::" } else { "" };
            self.0.push(format!("{lead}{}", segs.join("::")));
        }
        syn::visit::visit_type_path(self, p);
    }
}

fn type_paths(item: &syn::Item) -> Vec<String> {
    use syn::visit::Visit;
    let mut c = PathCollector(vec![]);
    c.visit_item(item);
    c.0.sort();
    c.0.dedup();
    c.0
}

fn generic_names(g: &syn::Generics) -> Vec<String> {
    g.params.iter().filter_map(|p| match p { syn::GenericParam::Type(t) => Some(t.ident.to_string()), _ => None }).collect()
}

/// Every type parameter declared anywhere inside the item (item level and method level).
struct GenericCollector(Vec<String>);
impl<'ast> syn::visit::Visit<'ast> for GenericCollector {
    fn visit_type_param(&mut self, p: &'ast syn::TypeParam) {
        self.0.push(p.ident.to_string());
        syn::visit::visit_type_param(self, p);
    }
}

fn all_generic_names(item: &syn::Item) -> Vec<String> {
    use syn::visit::Visit;
    let mut c = GenericCollector(vec![]);
    c.visit_item(item);
    c.0.sort();
    c.0.dedup();
    c.0
}

fn attr_strings(attrs: &[syn::Attribute]) -> Vec<String> {
    attrs.iter().map(|a| a.to_token_stream().to_string()).collect()
}

fn derives(attrs: &[syn::Attribute]) -> Vec<String> {
    let mut out = vec![];
    for a in attrs {
        if a.path().is_ident("derive") {
            let _ = a.parse_nested_meta(|m| {
                out.push(m.path.to_token_stream().to_string().replace(' ', ""));
                Ok(())
            });
        }
    }
    out
}

fn reprs(attrs: &[syn::Attribute]) -> Vec<String> {
    let mut out = vec![];
    for a in attrs {
        if a.path().is_ident("repr") {
            if let syn::Meta::List(l) = &a.meta {
                out.push(l.tokens.to_string().replace(' ', ""));
            }
        }
    }
    out
}

fn fields_of(f: &syn::Fields) -> Vec<Value> {
    f.iter()
        .enumerate()
        .map(|(i, f)| {
            json!([
                f.ident.as_ref().map(|i| i.to_string()).unwrap_or_else(|| i.to_string()),
                f.ty.to_token_stream().to_string(),
                matches!(f.vis, syn::Visibility::Public(_))
            ])
        })
        .collect()
}

fn generics_of(g: &syn::Generics) -> Vec<String> {
    g.params.iter().map(|p| p.to_token_stream().to_string()).collect()
}

pub fn items_of(items: &[syn::Item], path: &str, out: &mut Vec<Value>) {
    for it in items {
        let tokens = it.to_token_stream().to_string();
        match it {
            syn::Item::Mod(m) => {
                let p = if path.is_empty() { m.ident.to_string() } else { format!("{path}::{}", m.ident) };
                out.push(json!({"mod": path, "kind": "mod", "name": m.ident.to_string(), "attrs": attr_strings(&m.attrs)}));
                if let Some((_, content)) = &m.content {
                    items_of(content, &p, out);
                }
            }
            syn::Item::Struct(s) => out.push(json!({"mod": path, "kind": "struct", "name": s.ident.to_string(),
                "derives": derives(&s.attrs), "repr": reprs(&s.attrs), "generics": generics_of(&s.generics),
                "fields": fields_of(&s.fields), "attrs": attr_strings(&s.attrs), "tokens": tokens,
                "uses": type_paths(it), "tparams": all_generic_names(it)})),
            syn::Item::Union(s) => out.push(json!({"mod": path, "kind": "union", "name": s.ident.to_string(),
                "derives": derives(&s.attrs), "repr": reprs(&s.attrs), "generics": generics_of(&s.generics),
                "fields": s.fields.named.iter().map(|f| json!([f.ident.as_ref().unwrap().to_string(), f.ty.to_token_stream().to_string(), true])).collect::<Vec<_>>(),
                "attrs": attr_strings(&s.attrs), "tokens": tokens, "uses": type_paths(it), "tparams": all_generic_names(it)})),
            syn::Item::Enum(s) => out.push(json!({"mod": path, "kind": "enum", "name": s.ident.to_string(),
                "derives": derives(&s.attrs), "repr": reprs(&s.attrs), "generics": generics_of(&s.generics),
                "variants": s.variants.iter().map(|v| json!([v.ident.to_string(), v.discriminant.as_ref().map(|d| d.1.to_token_stream().to_string())])).collect::<Vec<_>>(),
                "attrs": attr_strings(&s.attrs), "tokens": tokens})),
            syn::Item::Type(s) => out.push(json!({"mod": path, "kind": "type", "name": s.ident.to_string(),
                "generics": generics_of(&s.generics), "ty": s.ty.to_token_stream().to_string(),
                "attrs": attr_strings(&s.attrs), "tokens": tokens, "uses": type_paths(it), "tparams": all_generic_names(it)})),
            syn::Item::Const(s) => out.push(json!({"mod": path, "kind": "const", "name": s.ident.to_string(),
                "ty": s.ty.to_token_stream().to_string(), "expr": s.expr.to_token_stream().to_string(),
                "attrs": attr_strings(&s.attrs), "tokens": tokens})),
            syn::Item::Static(s) => out.push(json!({"mod": path, "kind": "static", "name": s.ident.to_string(),
                "ty": s.ty.to_token_stream().to_string(), "attrs": attr_strings(&s.attrs), "tokens": tokens, "uses": type_paths(it)})),
            syn::Item::Fn(s) => out.push(json!({"mod": path, "kind": "fn", "name": s.sig.ident.to_string(),
                "sig": s.sig.to_token_stream().to_string(), "attrs": attr_strings(&s.attrs), "tokens": tokens})),
            syn::Item::Use(s) => out.push(json!({"mod": path, "kind": "use", "name": s.tree.to_token_stream().to_string(),
                "attrs": attr_strings(&s.attrs), "tokens": tokens})),
            syn::Item::Impl(s) => {
                let tr = s.trait_.as_ref().map(|(_, p, _)| p.to_token_stream().to_string().replace(' ', ""));
                let mut fns = vec![];
                for ii in &s.items {
                    if let syn::ImplItem::Fn(f) = ii {
                        fns.push(f.sig.ident.to_string());
                    }
                }
                out.push(json!({"mod": path, "kind": "impl", "name": s.self_ty.to_token_stream().to_string().replace(' ', ""),
                    "trait": tr, "generics": generics_of(&s.generics), "fns": fns,
                    "attrs": attr_strings(&s.attrs), "tokens": tokens, "uses": type_paths(it), "tparams": all_generic_names(it)}));
            }
            syn::Item::ForeignMod(fm) => {
                let abi = fm.abi.name.as_ref().map(|n| n.value()).unwrap_or_default();
                let unsafety = fm.unsafety.is_some();
                let battrs = attr_strings(&fm.attrs);
                out.push(json!({"mod": path, "kind": "foreign_mod", "name": "", "abi": abi, "unsafety": unsafety,
                    "attrs": battrs, "n": fm.items.len(), "tokens": tokens, "uses": type_paths(it)}));
                for fi in &fm.items {
                    let (kind, name, attrs) = match fi {
                        syn::ForeignItem::Fn(f) => ("foreign_fn", f.sig.ident.to_string(), attr_strings(&f.attrs)),
                        syn::ForeignItem::Static(s) => ("foreign_static", s.ident.to_string(), attr_strings(&s.attrs)),
                        syn::ForeignItem::Type(t) => ("foreign_type", t.ident.to_string(), attr_strings(&t.attrs)),
                        _ => ("foreign_other", String::new(), vec![]),
                    };
                    out.push(json!({"mod": path, "kind": kind, "name": name, "attrs": attrs,
                        "abi": abi, "unsafety": unsafety, "block_attrs": battrs,
                        "tokens": fi.to_token_stream().to_string()}));
                }
            }
            syn::Item::Macro(m) => out.push(json!({"mod": path, "kind": "macro", "name": m.mac.path.to_token_stream().to_string(), "tokens": tokens})),
            other => out.push(json!({"mod": path, "kind": "other", "name": "", "tokens": other.to_token_stream().to_string()})),
        }
    }
}

pub fn inventory_of_text(text: &str) -> Value {
    match syn::parse_file(text) {
        Ok(f) => {
            let mut items = vec![];
            items_of(&f.items, "", &mut items);
            json!({"ok": true, "items": items, "inner_attrs": attr_strings(&f.attrs)})
        }
        Err(e) => json!({"ok": false, "err": e.to_string(), "items": []}),
    }
}

pub fn main(args: &[String]) -> i32 {
    for a in args {
        let text = std::fs::read_to_string(a).unwrap_or_default();
        let mut v = inventory_of_text(&text);
        v["file"] = json!(a);
        println!("{}", v);
    }
    0
}
