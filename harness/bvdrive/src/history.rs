//! `bvdrive history <jobs.json>`: several threads generate concurrently in one process.
//!
//! jobs.json: {"log": path|null, "order": [thread index, ...] (begin order of the generations),
//!   "threads": [ [ {"id":..., "args":[...], "callbacks": null|str, "out": path}, ... ], ... ]}
//! Every thread runs its jobs in sequence; a generation may only *begin* when it is its turn in
//! `order` (it then runs concurrently with whatever is still running).  One JSON line per job.
use serde_json::{json, Value};
use std::sync::{Arc, Condvar, Mutex};

pub fn main(args: &[String]) -> i32 {
    let Some(path) = args.first() else { return 2 };
    let text = std::fs::read_to_string(path).unwrap_or_default();
    let Ok(v) = serde_json::from_str::<Value>(&text) else { return 2 };
    crate::run::install_panic_hook();
    let order: Vec<usize> = v["order"].as_array().map(|a| a.iter().map(|x| x.as_u64().unwrap_or(0) as usize).collect()).unwrap_or_default();
    let threads: Vec<Vec<Value>> = v["threads"].as_array().map(|a| a.iter().map(|t| t.as_array().cloned().unwrap_or_default()).collect()).unwrap_or_default();
    let log = v["log"].as_str().map(|s| s.to_string());
    let turn = Arc::new((Mutex::new(0usize), Condvar::new()));
    let order = Arc::new(order);
    let out = Arc::new(Mutex::new(std::io::stdout()));
    let mut hs = vec![];
    for (ti, jobs) in threads.into_iter().enumerate() {
        let turn = turn.clone();
        let order = order.clone();
        let out = out.clone();
        let log = log.clone();
        hs.push(std::thread::Builder::new().stack_size(64 << 20).spawn(move || {
            for job in jobs {
                // wait for this thread's turn to begin
                {
                    let (m, cv) = &*turn;
                    let mut pos = m.lock().unwrap();
                    while *pos < order.len() && order[*pos] != ti {
                        pos = cv.wait(pos).unwrap();
                    }
                    *pos += 1;
                    cv.notify_all();
                }
                let mut job = job.clone();
                if let Some(l) = &log {
                    // per-thread log file: events of one thread are ordered by the file, events of
                    // different threads by the global sequence number
                    job["log"] = json!(format!("{l}.t{ti}"));
                }
                let mut r = crate::run::run_job(&job);
                r["thread"] = json!(ti);
                use std::io::Write;
                let mut o = out.lock().unwrap();
                let _ = writeln!(o, "{}", r);
            }
        }).unwrap());
    }
    for h in hs {
        let _ = h.join();
    }
    0
}
