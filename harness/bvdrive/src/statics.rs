//! `bvdrive statics <jobs.json>`: --wrap-static-fns generations driven through the *library*
//! interface (several input headers, in-memory header contents, several parse callbacks), which
//! the CLI cannot express.
//!
//! jobs.json: {"jobs": [ {"id", "headers": [path..], "contents": [[name, text]..],
//!   "path": wrapper path (no extension), "suffix": str|null, "callbacks": [name..],
//!   "clang_args": [..], "out": bindings path, "log": hook log path | null} ]}
//! Result: one JSON line per job {"id","outcome","msg"} (same outcome vocabulary as `run`).

use serde_json::{json, Value};
use std::panic::{catch_unwind, AssertUnwindSafe};

fn strs(v: &Value) -> Vec<String> {
    v.as_array()
        .map(|a| a.iter().filter_map(|x| x.as_str().map(str::to_string)).collect())
        .unwrap_or_default()
}

fn one(job: &Value) -> Value {
    let id = job["id"].as_str().unwrap_or("").to_string();
    let log = job["log"].as_str().map(std::path::PathBuf::from);
    bindgen::verif::set_thread_log(log.as_deref());
    let r = catch_unwind(AssertUnwindSafe(|| {
        let mut b = bindgen::builder()
            .formatter(bindgen::Formatter::None)
            .wrap_static_fns(true);
        if let Some(p) = job["path"].as_str() {
            b = b.wrap_static_fns_path(p);
        }
        if let Some(s) = job["suffix"].as_str() {
            b = b.wrap_static_fns_suffix(s);
        }
        for h in strs(&job["headers"]) {
            b = b.header(h);
        }
        if let Some(cs) = job["contents"].as_array() {
            for c in cs {
                b = b.header_contents(c[0].as_str().unwrap_or("x.h"), c[1].as_str().unwrap_or(""));
            }
        }
        for a in strs(&job["clang_args"]) {
            b = b.clang_arg(a);
        }
        for cb in strs(&job["callbacks"]) {
            b = b.parse_callbacks(crate::parse_callbacks::lookup(&cb));
        }
        match b.generate() {
            Ok(bindings) => ("ok".to_string(), String::new(), Some(bindings.to_string())),
            Err(e) => (crate::run::outcome_of(&e).to_string(), e.to_string(), None),
        }
    }));
    let (outcome, msg, text) = match r {
        Ok(x) => x,
        Err(p) => ("panic".to_string(), crate::run::panic_msg(p), None),
    };
    bindgen::verif::set_thread_log(None);
    if let (Some(out), Some(text)) = (job["out"].as_str(), text.as_ref()) {
        let _ = std::fs::write(out, text);
    }
    json!({"id": id, "outcome": outcome, "msg": msg.chars().take(1500).collect::<String>()})
}

pub fn main(args: &[String]) -> i32 {
    let Some(path) = args.first() else {
        eprintln!("usage: bvdrive statics <jobs.json>");
        return 2;
    };
    let Ok(text) = std::fs::read_to_string(path) else {
        eprintln!("cannot read {path}");
        return 2;
    };
    let Ok(v) = serde_json::from_str::<Value>(&text) else {
        eprintln!("bad json {path}");
        return 2;
    };
    crate::run::install_panic_hook();
    // header_contents resolves names against the current directory: jobs run sequentially
    for job in v["jobs"].as_array().cloned().unwrap_or_default() {
        println!("{}", one(&job));
    }
    0
}
