//! C13: builder configuration <-> command-line flags round trip, against the real `bindgen::Builder`.
//!
//!   bvdrive roundtrip table
//!       prints the field -> method table (JSON array, one row per `BindgenOptions` field, in the
//!       order of the `options!` invocation): class, builder methods, documented flag(s), default.
//!   bvdrive roundtrip batch <jobs.json> <out.ndjson>
//!       jobs.json: {"threads": N, "jobs": [ {"id":..,
//!           "setters": [["method", arg..], ..]      builder path: applied in order to bindgen::builder()
//!         | "flags0": ["hdr", "--flag", ..]         flag path: builder_from_flags in a child process
//!           "gen": true|false } ]}
//!       For every job: stage A = the configuration (b1), flags1 = b1.command_line_flags(),
//!       gen1 = generate(b1);  stage B (always a CHILD process, clap exits the process on a parse
//!       error and that exit is an observed outcome) = b2 = builder_from_flags(["bindgen"] + flags1),
//!       flags2 = b2.command_line_flags(), gen2 = generate(b2).
//!       One JSON line per job: {"id", "a": {status, flags, gen..}, "b": {status, flags, gen..},
//!        "flags_equal", "gen_equal", "first_diff"}.
//!   bvdrive roundtrip fromflags <job.json>       (internal: the child)
//!
//! The method path never goes through FromStr/clap: enum values, ABIs, targets are constructed from
//! their Rust constructors, so that "flag == documented method" compares two independent routes.

use serde_json::{json, Value};
use std::panic::{catch_unwind, AssertUnwindSafe};
use std::sync::atomic::{AtomicUsize, Ordering};
use std::sync::{Arc, Mutex};

use bindgen::{
    Abi, AliasVariation, Builder, CodegenConfig, EnumVariation, FieldVisibilityKind, Formatter,
    MacroTypeVariation, NonCopyUnionStyle, RustEdition, RustTarget,
};

// ------------------------------------------------------------------------------------------------
// the table
// ------------------------------------------------------------------------------------------------

fn bool_row(field: &str, method: &str, arg: &str, default: bool, flag: &str, flag_value: bool) -> Value {
    // arg: "bool" (method takes the value) | "none" (method sets the field to `flag_value`)
    json!({"field": field, "class": "bool", "method": method, "arg": arg, "default": default,
           "flag": flag, "flag_value": flag_value})
}
fn regex_row(field: &str, method: &str, flag: &str) -> Value {
    json!({"field": field, "class": "list", "elem": "regex", "method": method, "flag": flag})
}
fn list_row(field: &str, method: &str, flag: &str) -> Value {
    json!({"field": field, "class": "list", "elem": "string", "method": method, "flag": flag})
}
fn opt_row(field: &str, method: &str, flag: &str, kind: &str) -> Value {
    json!({"field": field, "class": "optstr", "kind": kind, "method": method, "flag": flag})
}
fn enum_row(field: &str, method: &str, flag: &str, default: &str, values: &[&str]) -> Value {
    json!({"field": field, "class": "enum", "method": method, "flag": flag, "default": default, "values": values})
}
fn nocli_row(field: &str, methods: &[&str], reason: &str) -> Value {
    json!({"field": field, "class": "nocli", "methods": methods, "reason": reason})
}

pub fn table() -> Vec<Value> {
    vec![
        bool_row("use_specific_virtual_function_receiver", "use_specific_virtual_function_receiver", "bool", false, "--use-specific-virtual-function-receiver", true),
        bool_row("use_distinct_char16_t", "use_distinct_char16_t", "bool", false, "--use-distinct-char16-t", true),
        bool_row("represent_cxx_operators", "represent_cxx_operators", "bool", false, "--represent-cxx-operators", true),
        regex_row("blocklisted_types", "blocklist_type", "--blocklist-type"),
        regex_row("blocklisted_functions", "blocklist_function", "--blocklist-function"),
        regex_row("blocklisted_items", "blocklist_item", "--blocklist-item"),
        regex_row("blocklisted_files", "blocklist_file", "--blocklist-file"),
        regex_row("blocklisted_vars", "blocklist_var", "--blocklist-var"),
        regex_row("opaque_types", "opaque_type", "--opaque-type"),
        nocli_row("rustfmt_path", &["with_rustfmt"], "documented: 'This option cannot be set from the CLI' (as_args: ignore)"),
        json!({"field": "depfile", "class": "depfile", "method": "depfile", "flag": "--depfile",
               "note": "output_module is the CLI's --output, not a flag of command_line_flags"}),
        regex_row("allowlisted_types", "allowlist_type", "--allowlist-type"),
        regex_row("allowlisted_functions", "allowlist_function", "--allowlist-function"),
        regex_row("allowlisted_vars", "allowlist_var", "--allowlist-var"),
        regex_row("allowlisted_files", "allowlist_file", "--allowlist-file"),
        regex_row("allowlisted_items", "allowlist_item", "--allowlist-item"),
        enum_row("default_enum_style", "default_enum_style", "--default-enum-style", "consts",
                 &["consts", "moduleconsts", "rust", "rust_non_exhaustive", "bitfield", "newtype", "newtype_global", "bitfield_global"]),
        regex_row("bitfield_enums", "bitfield_enum", "--bitfield-enum"),
        regex_row("newtype_enums", "newtype_enum", "--newtype-enum"),
        regex_row("newtype_global_enums", "newtype_global_enum", "--newtype-global-enum"),
        regex_row("rustified_enums", "rustified_enum", "--rustified-enum"),
        regex_row("rustified_non_exhaustive_enums", "rustified_non_exhaustive_enum", "--rustified-non-exhaustive-enum"),
        regex_row("constified_enum_modules", "constified_enum_module", "--constified-enum-module"),
        regex_row("constified_enums", "constified_enum", "--constified-enum"),
        enum_row("default_macro_constant_type", "default_macro_constant_type", "--default-macro-constant-type", "unsigned", &["unsigned", "signed"]),
        enum_row("default_alias_style", "default_alias_style", "--default-alias-style", "type_alias", &["type_alias", "new_type", "new_type_deref"]),
        // documented flag of Builder::type_alias in the CLI is --normal-alias
        regex_row("type_alias", "type_alias", "--normal-alias"),
        regex_row("new_type_alias", "new_type_alias", "--new-type-alias"),
        regex_row("new_type_alias_deref", "new_type_alias_deref", "--new-type-alias-deref"),
        enum_row("default_non_copy_union_style", "default_non_copy_union_style", "--default-non-copy-union-style", "bindgen_wrapper", &["bindgen_wrapper", "manually_drop"]),
        regex_row("bindgen_wrapper_union", "bindgen_wrapper_union", "--bindgen-wrapper-union"),
        regex_row("manually_drop_union", "manually_drop_union", "--manually-drop-union"),
        bool_row("builtins", "emit_builtins", "none", false, "--builtins", true),
        bool_row("emit_ast", "emit_clang_ast", "none", false, "--emit-clang-ast", true),
        bool_row("emit_ir", "emit_ir", "none", false, "--emit-ir", true),
        opt_row("emit_ir_graphviz", "emit_ir_graphviz", "--emit-ir-graphviz", "path"),
        bool_row("enable_cxx_namespaces", "enable_cxx_namespaces", "none", false, "--enable-cxx-namespaces", true),
        bool_row("enable_function_attribute_detection", "enable_function_attribute_detection", "none", false, "--enable-function-attribute-detection", true),
        bool_row("disable_name_namespacing", "disable_name_namespacing", "none", false, "--disable-name-namespacing", true),
        bool_row("disable_nested_struct_naming", "disable_nested_struct_naming", "none", false, "--disable-nested-struct-naming", true),
        bool_row("disable_header_comment", "disable_header_comment", "none", false, "--disable-header-comment", true),
        bool_row("layout_tests", "layout_tests", "bool", true, "--no-layout-tests", false),
        bool_row("impl_debug", "impl_debug", "bool", false, "--impl-debug", true),
        bool_row("impl_partialeq", "impl_partialeq", "bool", false, "--impl-partialeq", true),
        bool_row("derive_copy", "derive_copy", "bool", true, "--no-derive-copy", false),
        bool_row("derive_debug", "derive_debug", "bool", true, "--no-derive-debug", false),
        json!({"field": "derive_default", "class": "bool", "method": "derive_default", "arg": "bool", "default": false,
               "flag": "--with-derive-default", "flag_value": true, "negflag": "--no-derive-default", "always": true}),
        bool_row("derive_hash", "derive_hash", "bool", false, "--with-derive-hash", true),
        bool_row("derive_partialord", "derive_partialord", "bool", false, "--with-derive-partialord", true),
        bool_row("derive_ord", "derive_ord", "bool", false, "--with-derive-ord", true),
        bool_row("derive_partialeq", "derive_partialeq", "bool", false, "--with-derive-partialeq", true),
        bool_row("derive_eq", "derive_eq", "bool", false, "--with-derive-eq", true),
        bool_row("use_core", "use_core", "none", false, "--use-core", true),
        opt_row("ctypes_prefix", "ctypes_prefix", "--ctypes-prefix", "rustpath"),
        json!({"field": "anon_fields_prefix", "class": "str", "method": "anon_fields_prefix", "flag": "--anon-fields-prefix",
               "default": "__bindgen_anon_"}),
        bool_row("time_phases", "time_phases", "bool", false, "--time-phases", true),
        bool_row("convert_floats", "no_convert_floats", "none", true, "--no-convert-floats", false),
        list_row("raw_lines", "raw_line", "--raw-line"),
        json!({"field": "module_lines", "class": "map", "method": "module_raw_line", "flag": "--module-raw-line", "shape": "two_values"}),
        json!({"field": "input_headers", "class": "headers", "methods": ["header", "headers"]}),
        json!({"field": "clang_args", "class": "clang_args", "methods": ["clang_arg", "clang_args"]}),
        nocli_row("fallback_clang_args", &[], "derived in Builder::generate from clang_args, no setter"),
        nocli_row("input_header_contents", &["header_contents"], "header contents are not expressible on the command line (as_args: ignore)"),
        nocli_row("parse_callbacks", &["parse_callbacks"], "callbacks are Rust objects; only callbacks created by the CLI itself report cli_args (covered by the flag path)"),
        json!({"field": "codegen_config", "class": "codegen", "methods": ["ignore_functions", "ignore_methods", "with_codegen_config"],
               "flag": "--generate", "flags": ["--generate", "--ignore-functions", "--ignore-methods"],
               "bits": ["functions", "types", "vars", "methods", "constructors", "destructors"]}),
        bool_row("conservative_inline_namespaces", "conservative_inline_namespaces", "none", false, "--conservative-inline-namespaces", true),
        bool_row("generate_comments", "generate_comments", "bool", true, "--no-doc-comments", false),
        bool_row("generate_cxx_nonnull_references", "generate_cxx_nonnull_references", "bool", false, "--nonnull-references", true),
        bool_row("generate_inline_functions", "generate_inline_functions", "bool", false, "--generate-inline-functions", true),
        bool_row("allowlist_recursively", "allowlist_recursively", "bool", true, "--no-recursive-allowlist", false),
        bool_row("objc_extern_crate", "objc_extern_crate", "bool", false, "--objc-extern-crate", true),
        bool_row("generate_block", "generate_block", "bool", false, "--generate-block", true),
        bool_row("generate_cstr", "generate_cstr", "bool", false, "--generate-cstr", true),
        bool_row("block_extern_crate", "block_extern_crate", "bool", false, "--block-extern-crate", true),
        bool_row("enable_mangling", "trust_clang_mangling", "bool", true, "--distrust-clang-mangling", false),
        bool_row("detect_include_paths", "detect_include_paths", "bool", true, "--no-include-path-detection", false),
        bool_row("fit_macro_constants", "fit_macro_constants", "bool", false, "--fit-macro-constant-types", true),
        bool_row("prepend_enum_name", "prepend_enum_name", "bool", true, "--no-prepend-enum-name", false),
        json!({"field": "rust_target", "class": "target", "method": "rust_target", "flag": "--rust-target"}),
        json!({"field": "rust_edition", "class": "edition", "method": "rust_edition", "flag": "--rust-edition", "values": ["2018", "2021", "2024"]}),
        nocli_row("rust_features", &[], "derived from rust_target/rust_edition in Builder::generate, no setter"),
        bool_row("untagged_union", "disable_untagged_union", "none", true, "--disable-untagged-union", false),
        bool_row("record_matches", "record_matches", "bool", true, "--no-record-matches", false),
        bool_row("size_t_is_usize", "size_t_is_usize", "bool", true, "--no-size_t-is-usize", false),
        json!({"field": "formatter", "class": "enum", "method": "formatter", "flag": "--formatter", "default": "rustfmt",
               "values": ["rustfmt", "none", "prettyplease"], "methods": ["formatter", "rustfmt_bindings"],
               "extra_flags": ["--no-rustfmt-bindings"]}),
        json!({"field": "rustfmt_configuration_file", "class": "optstr", "kind": "abspath", "method": "rustfmt_configuration_file",
               "flag": "--rustfmt-configuration-file", "couples": "formatter=rustfmt"}),
        regex_row("no_partialeq_types", "no_partialeq", "--no-partialeq"),
        regex_row("no_copy_types", "no_copy", "--no-copy"),
        regex_row("no_debug_types", "no_debug", "--no-debug"),
        regex_row("no_default_types", "no_default", "--no-default"),
        regex_row("no_hash_types", "no_hash", "--no-hash"),
        regex_row("must_use_types", "must_use_type", "--must-use-type"),
        bool_row("array_pointers_in_arguments", "array_pointers_in_arguments", "bool", false, "--use-array-pointers-in-arguments", true),
        list_row("extern_fn_block_attrs", "extern_fn_block_attrs", "--extern-fn-block-attrs"),
        opt_row("wasm_import_module_name", "wasm_import_module_name", "--wasm-import-module-name", "string"),
        opt_row("dynamic_library_name", "dynamic_library_name", "--dynamic-loading", "ident"),
        bool_row("dynamic_link_require_all", "dynamic_link_require_all", "bool", false, "--dynamic-link-require-all", true),
        bool_row("respect_cxx_access_specs", "respect_cxx_access_specs", "bool", false, "--respect-cxx-access-specs", true),
        bool_row("translate_enum_integer_types", "translate_enum_integer_types", "bool", false, "--translate-enum-integer-types", true),
        bool_row("c_naming", "c_naming", "bool", false, "--c-naming", true),
        bool_row("force_explicit_padding", "explicit_padding", "bool", false, "--explicit-padding", true),
        bool_row("vtable_generation", "vtable_generation", "bool", false, "--vtable-generation", true),
        bool_row("sort_semantically", "sort_semantically", "bool", false, "--sort-semantically", true),
        bool_row("merge_extern_blocks", "merge_extern_blocks", "bool", false, "--merge-extern-blocks", true),
        bool_row("wrap_unsafe_ops", "wrap_unsafe_ops", "bool", false, "--wrap-unsafe-ops", true),
        bool_row("flexarray_dst", "flexarray_dst", "bool", false, "--flexarray-dst", true),
        json!({"field": "abi_overrides", "class": "map", "method": "override_abi", "flag": "--override-abi", "shape": "regex=abi",
               "keys": ["C", "stdcall", "efiapi", "fastcall", "thiscall", "vectorcall", "aapcs", "win64", "C-unwind", "system"]}),
        bool_row("wrap_static_fns", "wrap_static_fns", "bool", false, "--wrap-static-fns", true),
        opt_row("wrap_static_fns_suffix", "wrap_static_fns_suffix", "--wrap-static-fns-suffix", "ident"),
        opt_row("wrap_static_fns_path", "wrap_static_fns_path", "--wrap-static-fns-path", "path"),
        enum_row("default_visibility", "default_visibility", "--default-visibility", "public", &["public", "crate", "private"]),
        bool_row("emit_diagnostics", "emit_diagnostics", "none", false, "--emit-diagnostics", true),
        bool_row("clang_macro_fallback", "clang_macro_fallback", "none", false, "--clang-macro-fallback", true),
        opt_row("clang_macro_fallback_build_dir", "clang_macro_fallback_build_dir", "--clang-macro-fallback-build-dir", "path"),
        bool_row("generate_deleted_functions", "generate_deleted_functions", "bool", false, "--generate-deleted-functions", true),
        bool_row("generate_pure_virtual_functions", "generate_pure_virtual_functions", "bool", false, "--generate-pure-virtual-functions", true),
        bool_row("generate_private_functions", "generate_private_functions", "bool", false, "--generate-private-functions", true),
        json!({"field": "field_attr_patterns", "class": "triples", "method": "field_attribute", "flag": "--field-attr", "shape": "TYPE::FIELD=ATTR"}),
    ]
}

// ------------------------------------------------------------------------------------------------
// applying setter calls
// ------------------------------------------------------------------------------------------------

fn s(v: &Value, i: usize) -> Result<String, String> {
    v.get(i).and_then(|x| x.as_str()).map(|x| x.to_string()).ok_or_else(|| format!("arg {i}: string expected in {v}"))
}
fn bo(v: &Value, i: usize) -> Result<bool, String> {
    v.get(i).and_then(|x| x.as_bool()).ok_or_else(|| format!("arg {i}: bool expected in {v}"))
}
fn strs(v: &Value, i: usize) -> Result<Vec<String>, String> {
    v.get(i)
        .and_then(|x| x.as_array())
        .map(|a| a.iter().map(|x| x.as_str().unwrap_or("").to_string()).collect())
        .ok_or_else(|| format!("arg {i}: list expected in {v}"))
}

fn enum_style(name: &str) -> Result<EnumVariation, String> {
    Ok(match name {
        "consts" => EnumVariation::Consts,
        "moduleconsts" => EnumVariation::ModuleConsts,
        "rust" => EnumVariation::Rust { non_exhaustive: false },
        "rust_non_exhaustive" => EnumVariation::Rust { non_exhaustive: true },
        "bitfield" => EnumVariation::NewType { is_bitfield: true, is_global: false },
        "bitfield_global" => EnumVariation::NewType { is_bitfield: true, is_global: true },
        "newtype" => EnumVariation::NewType { is_bitfield: false, is_global: false },
        "newtype_global" => EnumVariation::NewType { is_bitfield: false, is_global: true },
        o => return Err(format!("unknown enum style {o}")),
    })
}

fn abi_of(name: &str) -> Result<Abi, String> {
    Ok(match name {
        "C" => Abi::C,
        "stdcall" => Abi::Stdcall,
        "efiapi" => Abi::EfiApi,
        "fastcall" => Abi::Fastcall,
        "thiscall" => Abi::ThisCall,
        "vectorcall" => Abi::Vectorcall,
        "aapcs" => Abi::Aapcs,
        "win64" => Abi::Win64,
        "C-unwind" => Abi::CUnwind,
        "system" => Abi::System,
        o => return Err(format!("unknown abi {o}")),
    })
}

fn codegen_bits(names: &[String]) -> Result<CodegenConfig, String> {
    let mut c = CodegenConfig::empty();
    for n in names {
        c |= match n.as_str() {
            "functions" => CodegenConfig::FUNCTIONS,
            "types" => CodegenConfig::TYPES,
            "vars" => CodegenConfig::VARS,
            "methods" => CodegenConfig::METHODS,
            "constructors" => CodegenConfig::CONSTRUCTORS,
            "destructors" => CodegenConfig::DESTRUCTORS,
            o => return Err(format!("unknown codegen bit {o}")),
        };
    }
    Ok(c)
}

#[allow(deprecated)]
pub fn apply(b: Builder, call: &Value) -> Result<Builder, String> {
    let m = call.get(0).and_then(|x| x.as_str()).ok_or("setter call without method name")?;
    macro_rules! bools { ($($n:ident),* $(,)?) => { match m { $( stringify!($n) => return Ok(b.$n(bo(call, 1)?)), )* _ => {} } } }
    macro_rules! unit { ($($n:ident),* $(,)?) => { match m { $( stringify!($n) => return Ok(b.$n()), )* _ => {} } } }
    macro_rules! str1 { ($($n:ident),* $(,)?) => { match m { $( stringify!($n) => return Ok(b.$n(s(call, 1)?)), )* _ => {} } } }
    bools!(
        use_specific_virtual_function_receiver, use_distinct_char16_t, represent_cxx_operators, layout_tests,
        impl_debug, impl_partialeq, derive_copy, derive_debug, derive_default, derive_hash, derive_partialord,
        derive_ord, derive_partialeq, derive_eq, time_phases, generate_comments, generate_cxx_nonnull_references,
        generate_inline_functions, allowlist_recursively, objc_extern_crate, generate_block, generate_cstr,
        block_extern_crate, trust_clang_mangling, detect_include_paths, fit_macro_constants, prepend_enum_name,
        record_matches, size_t_is_usize, rustfmt_bindings, array_pointers_in_arguments, dynamic_link_require_all,
        respect_cxx_access_specs, translate_enum_integer_types, c_naming, explicit_padding, vtable_generation,
        sort_semantically, merge_extern_blocks, wrap_unsafe_ops, flexarray_dst, wrap_static_fns,
        generate_deleted_functions, generate_pure_virtual_functions, generate_private_functions,
    );
    unit!(
        emit_builtins, emit_clang_ast, emit_ir, enable_cxx_namespaces, enable_function_attribute_detection,
        disable_name_namespacing, disable_nested_struct_naming, disable_header_comment, use_core,
        no_convert_floats, ignore_functions, ignore_methods, conservative_inline_namespaces,
        disable_untagged_union, emit_diagnostics, clang_macro_fallback,
    );
    str1!(
        blocklist_type, blocklist_function, blocklist_item, blocklist_file, blocklist_var, opaque_type,
        allowlist_type, allowlist_function, allowlist_var, allowlist_file, allowlist_item, bitfield_enum,
        newtype_enum, newtype_global_enum, rustified_enum, rustified_non_exhaustive_enum,
        constified_enum_module, constified_enum, type_alias, new_type_alias, new_type_alias_deref,
        bindgen_wrapper_union, manually_drop_union, no_partialeq, no_copy, no_debug, no_default, no_hash,
        must_use_type, emit_ir_graphviz, ctypes_prefix, anon_fields_prefix, raw_line, header, clang_arg,
        extern_fn_block_attrs, wasm_import_module_name, dynamic_library_name, wrap_static_fns_suffix,
        wrap_static_fns_path, clang_macro_fallback_build_dir, with_rustfmt,
    );
    Ok(match m {
        "module_raw_line" => b.module_raw_line(s(call, 1)?, s(call, 2)?),
        "depfile" => b.depfile(s(call, 1)?, s(call, 2)?),
        "header_contents" => b.header_contents(&s(call, 1)?, &s(call, 2)?),
        "field_attribute" => b.field_attribute(s(call, 1)?, s(call, 2)?, s(call, 3)?),
        "headers" => b.headers(strs(call, 1)?),
        "clang_args" => b.clang_args(strs(call, 1)?),
        "default_enum_style" => b.default_enum_style(enum_style(&s(call, 1)?)?),
        "default_macro_constant_type" => b.default_macro_constant_type(match s(call, 1)?.as_str() {
            "signed" => MacroTypeVariation::Signed,
            "unsigned" => MacroTypeVariation::Unsigned,
            o => return Err(format!("unknown macro type {o}")),
        }),
        "default_alias_style" => b.default_alias_style(match s(call, 1)?.as_str() {
            "type_alias" => AliasVariation::TypeAlias,
            "new_type" => AliasVariation::NewType,
            "new_type_deref" => AliasVariation::NewTypeDeref,
            o => return Err(format!("unknown alias style {o}")),
        }),
        "default_non_copy_union_style" => b.default_non_copy_union_style(match s(call, 1)?.as_str() {
            "bindgen_wrapper" => NonCopyUnionStyle::BindgenWrapper,
            "manually_drop" => NonCopyUnionStyle::ManuallyDrop,
            o => return Err(format!("unknown union style {o}")),
        }),
        "default_visibility" => b.default_visibility(match s(call, 1)?.as_str() {
            "public" => FieldVisibilityKind::Public,
            "crate" => FieldVisibilityKind::PublicCrate,
            "private" => FieldVisibilityKind::Private,
            o => return Err(format!("unknown visibility {o}")),
        }),
        "formatter" => b.formatter(match s(call, 1)?.as_str() {
            "none" => Formatter::None,
            "rustfmt" => Formatter::Rustfmt,
            "prettyplease" => Formatter::Prettyplease,
            o => return Err(format!("unknown formatter {o}")),
        }),
        "with_codegen_config" => b.with_codegen_config(codegen_bits(&strs(call, 1)?)?),
        "rust_target" => {
            let t = match call.get(1) {
                Some(Value::String(x)) if x == "nightly" => RustTarget::nightly(),
                Some(Value::Array(a)) if a.len() == 2 => RustTarget::stable(
                    a[0].as_u64().ok_or("minor")?,
                    a[1].as_u64().ok_or("patch")?,
                )
                .map_err(|e| format!("invalid target: {e}"))?,
                o => return Err(format!("rust_target: bad arg {o:?}")),
            };
            b.rust_target(t)
        }
        "rust_edition" => b.rust_edition(match s(call, 1)?.as_str() {
            "2018" => RustEdition::Edition2018,
            "2021" => RustEdition::Edition2021,
            "2024" => RustEdition::Edition2024,
            o => return Err(format!("unknown edition {o}")),
        }),
        "rustfmt_configuration_file" => match call.get(1) {
            Some(Value::Null) => b.rustfmt_configuration_file(None),
            _ => b.rustfmt_configuration_file(Some(s(call, 1)?.into())),
        },
        "override_abi" => b.override_abi(abi_of(&s(call, 1)?)?, s(call, 2)?),
        // the documented library route of --with-attribute-custom* / --with-derive-custom*:
        // a ParseCallbacks object; ["cb_attribute"|"cb_derive", kind|null, regex, [items]]
        "cb_attribute" | "cb_derive" => {
            let kind = match call.get(1).and_then(|x| x.as_str()) {
                None => None,
                Some("struct") => Some(bindgen::callbacks::TypeKind::Struct),
                Some("enum") => Some(bindgen::callbacks::TypeKind::Enum),
                Some("union") => Some(bindgen::callbacks::TypeKind::Union),
                Some(o) => return Err(format!("unknown type kind {o}")),
            };
            let re = regex::Regex::new(&format!("^({})$", s(call, 2)?)).map_err(|e| e.to_string())?;
            b.parse_callbacks(Box::new(CustomCb { attrs: m == "cb_attribute", items: strs(call, 3)?, kind, re }))
        }
        o => return Err(format!("no row for method {o}")),
    })
}

#[derive(Debug)]
struct CustomCb {
    attrs: bool,
    items: Vec<String>,
    kind: Option<bindgen::callbacks::TypeKind>,
    re: regex::Regex,
}

impl bindgen::callbacks::ParseCallbacks for CustomCb {
    fn add_derives(&self, info: &bindgen::callbacks::DeriveInfo<'_>) -> Vec<String> {
        if !self.attrs && self.kind.map_or(true, |k| k == info.kind) && self.re.is_match(info.name) {
            return self.items.clone();
        }
        vec![]
    }
    fn add_attributes(&self, info: &bindgen::callbacks::AttributeInfo<'_>) -> Vec<String> {
        if self.attrs && self.kind.map_or(true, |k| k == info.kind) && self.re.is_match(info.name) {
            return self.items.clone();
        }
        vec![]
    }
}

/// every method name `apply` knows (for the cross-check against the scan of `options!`)
pub fn known_methods() -> Vec<&'static str> {
    vec![
        "use_specific_virtual_function_receiver", "use_distinct_char16_t", "represent_cxx_operators", "layout_tests",
        "impl_debug", "impl_partialeq", "derive_copy", "derive_debug", "derive_default", "derive_hash", "derive_partialord",
        "derive_ord", "derive_partialeq", "derive_eq", "time_phases", "generate_comments", "generate_cxx_nonnull_references",
        "generate_inline_functions", "allowlist_recursively", "objc_extern_crate", "generate_block", "generate_cstr",
        "block_extern_crate", "trust_clang_mangling", "detect_include_paths", "fit_macro_constants", "prepend_enum_name",
        "record_matches", "size_t_is_usize", "rustfmt_bindings", "array_pointers_in_arguments", "dynamic_link_require_all",
        "respect_cxx_access_specs", "translate_enum_integer_types", "c_naming", "explicit_padding", "vtable_generation",
        "sort_semantically", "merge_extern_blocks", "wrap_unsafe_ops", "flexarray_dst", "wrap_static_fns",
        "generate_deleted_functions", "generate_pure_virtual_functions", "generate_private_functions",
        "emit_builtins", "emit_clang_ast", "emit_ir", "enable_cxx_namespaces", "enable_function_attribute_detection",
        "disable_name_namespacing", "disable_nested_struct_naming", "disable_header_comment", "use_core",
        "no_convert_floats", "ignore_functions", "ignore_methods", "conservative_inline_namespaces",
        "disable_untagged_union", "emit_diagnostics", "clang_macro_fallback",
        "blocklist_type", "blocklist_function", "blocklist_item", "blocklist_file", "blocklist_var", "opaque_type",
        "allowlist_type", "allowlist_function", "allowlist_var", "allowlist_file", "allowlist_item", "bitfield_enum",
        "newtype_enum", "newtype_global_enum", "rustified_enum", "rustified_non_exhaustive_enum",
        "constified_enum_module", "constified_enum", "type_alias", "new_type_alias", "new_type_alias_deref",
        "bindgen_wrapper_union", "manually_drop_union", "no_partialeq", "no_copy", "no_debug", "no_default", "no_hash",
        "must_use_type", "emit_ir_graphviz", "ctypes_prefix", "anon_fields_prefix", "raw_line", "header", "clang_arg",
        "extern_fn_block_attrs", "wasm_import_module_name", "dynamic_library_name", "wrap_static_fns_suffix",
        "wrap_static_fns_path", "clang_macro_fallback_build_dir", "with_rustfmt",
        "module_raw_line", "depfile", "header_contents", "field_attribute", "headers", "clang_args",
        "default_enum_style", "default_macro_constant_type", "default_alias_style", "default_non_copy_union_style",
        "default_visibility", "formatter", "with_codegen_config", "rust_target", "rust_edition",
        "rustfmt_configuration_file", "override_abi",
    ]
}

// ------------------------------------------------------------------------------------------------
// stages
// ------------------------------------------------------------------------------------------------

fn gen_of(b: Builder) -> (String, String, Option<String>) {
    match b.generate() {
        Ok(bd) => ("ok".to_string(), String::new(), Some(bd.to_string())),
        Err(e) => (crate::run::outcome_of(&e).to_string(), e.to_string(), None),
    }
}

fn cut(mut m: String, n: usize) -> String {
    if m.len() > n {
        let mut c = n;
        while !m.is_char_boundary(c) {
            c -= 1;
        }
        m.truncate(c);
    }
    m
}

/// generate() under its own catch_unwind: a panic of code generation is an outcome ("panic") that
/// still leaves the flag list to be compared
fn gen_guarded(b: Builder) -> (String, String, Option<String>) {
    match catch_unwind(AssertUnwindSafe(|| gen_of(b))) {
        Ok(x) => x,
        Err(p) => {
            let loc = crate::run::LAST_PANIC_LOC.with(|c| c.borrow().clone());
            ("panic".to_string(), cut(format!("{} @ {}", crate::run::panic_msg(p), loc), 300), None)
        }
    }
}

/// {status: ok|apply_err|panic, flags, gen: outcome, msg, text}
fn stage_builder(setters: &[Value], gen: bool) -> (Value, Option<String>) {
    crate::run::LAST_PANIC_LOC.with(|c| c.borrow_mut().clear());
    let r = catch_unwind(AssertUnwindSafe(|| {
        let mut b = bindgen::builder();
        for call in setters {
            b = match apply(b, call) {
                Ok(b) => b,
                Err(e) => return Err(e),
            };
        }
        let flags = b.command_line_flags();
        Ok((flags, b))
    }));
    finish_stage(r, gen)
}

fn stage_flags(flags: &[String], gen: bool) -> (Value, Option<String>) {
    crate::run::LAST_PANIC_LOC.with(|c| c.borrow_mut().clear());
    let r = catch_unwind(AssertUnwindSafe(|| {
        let argv = std::iter::once("bindgen".to_string()).chain(flags.iter().cloned());
        let (b, _out, _verbose) = match bindgen::builder_from_flags(argv) {
            Ok(x) => x,
            Err(e) => return Err(format!("flags_err: {e}")),
        };
        let flags = b.command_line_flags();
        Ok((flags, b))
    }));
    finish_stage(r, gen)
}

type StageOut = Result<Result<(Vec<String>, Builder), String>, Box<dyn std::any::Any + Send>>;

fn finish_stage(r: StageOut, gen: bool) -> (Value, Option<String>) {
    match r {
        Err(p) => {
            let loc = crate::run::LAST_PANIC_LOC.with(|c| c.borrow().clone());
            (json!({"status": "panic", "msg": cut(format!("{} @ {}", crate::run::panic_msg(p), loc), 600)}), None)
        }
        Ok(Err(e)) => {
            let st = if e.starts_with("flags_err") { "flags_err" } else { "apply_err" };
            (json!({"status": st, "msg": cut(e, 600)}), None)
        }
        Ok(Ok((flags, b))) => {
            let (outcome, msg, text) = if gen { gen_guarded(b) } else { ("skipped".into(), String::new(), None) };
            (json!({"status": "ok", "flags": flags, "gen": outcome, "msg": cut(msg, 400),
                    "len": text.as_ref().map(|t| t.len()).unwrap_or(0)}), text)
        }
    }
}

/// the child: builder_from_flags + command_line_flags + generate; result written to job["out"]
fn fromflags_main(path: &str) -> i32 {
    let v: Value = match std::fs::read_to_string(path).ok().and_then(|t| serde_json::from_str(&t).ok()) {
        Some(v) => v,
        None => return 3,
    };
    crate::run::install_panic_hook();
    let flags: Vec<String> = v["flags"].as_array().map(|a| a.iter().map(|x| x.as_str().unwrap_or("").to_string()).collect()).unwrap_or_default();
    let gen = v["gen"].as_bool().unwrap_or(true);
    // builder path in a child as well: the orchestrating process stays small (no in-process generation)
    let (mut st, text) = match v["setters"].as_array() {
        Some(setters) => stage_builder(setters, gen),
        None => stage_flags(&flags, gen),
    };
    st["text"] = json!(text);
    let out = v["out"].as_str().unwrap_or("");
    if std::fs::write(out, st.to_string()).is_err() {
        return 3;
    }
    0
}

fn run_child(dir: &str, id: &str, tag: &str, flags: &[String], gen: bool) -> (Value, Option<String>) {
    run_child_job(dir, id, tag, json!({"flags": flags, "gen": gen}))
}

fn run_child_job(dir: &str, id: &str, tag: &str, mut job: Value) -> (Value, Option<String>) {
    let jf = format!("{dir}/{id}.{tag}.job.json");
    let of = format!("{dir}/{id}.{tag}.out.json");
    let _ = std::fs::remove_file(&of);
    job["out"] = json!(of);
    if std::fs::write(&jf, job.to_string()).is_err() {
        return (json!({"status": "tool_error", "msg": "cannot write child job"}), None);
    }
    // (the binary may be replaced by a concurrent rebuild: prefer the path we were told)
    let exe = std::env::var_os("BVDRIVE_EXE")
        .map(std::path::PathBuf::from)
        .unwrap_or_else(|| std::env::current_exe().unwrap());
    let out = std::process::Command::new(exe)
        .args(["roundtrip", "fromflags", &jf])
        .stdin(std::process::Stdio::null())
        .stdout(std::process::Stdio::null())
        .stderr(std::process::Stdio::piped())
        .output();
    let _ = std::fs::remove_file(&jf);
    let out = match out {
        Ok(o) => o,
        Err(e) => return (json!({"status": "tool_error", "msg": format!("spawn: {e}")}), None),
    };
    let res = std::fs::read_to_string(&of).ok().and_then(|t| serde_json::from_str::<Value>(&t).ok());
    let _ = std::fs::remove_file(&of);
    match res {
        Some(mut v) => {
            let text = v["text"].as_str().map(|x| x.to_string());
            v.as_object_mut().unwrap().remove("text");
            (v, text)
        }
        None => {
            // the process ended before writing: clap's exit (2) on a parse error, exit(0) of
            // --version / completions, or an abort
            let code = out.status.code().map(|c| c.to_string()).unwrap_or_else(|| "signal".into());
            let err = String::from_utf8_lossy(&out.stderr).into_owned();
            let err: String = err.lines().filter(|l| !l.starts_with("clang diag")).collect::<Vec<_>>().join("\n");
            (json!({"status": format!("exit:{code}"), "msg": cut(err, 500)}), None)
        }
    }
}

fn first_diff(a: &str, b: &str) -> String {
    for (i, (x, y)) in a.lines().zip(b.lines()).enumerate() {
        if x != y {
            return cut(format!("line {}: `{}` vs `{}`", i + 1, x, y), 400);
        }
    }
    format!("length {} vs {}", a.len(), b.len())
}

fn run_job(dir: &str, job: &Value) -> Value {
    let id = job["id"].as_str().unwrap_or("").to_string();
    let gen = job["gen"].as_bool().unwrap_or(true);
    // stage A
    let (a, ta) = if let Some(f0) = job["flags0"].as_array() {
        let f0: Vec<String> = f0.iter().map(|x| x.as_str().unwrap_or("").to_string()).collect();
        run_child(dir, &id, "a", &f0, gen)
    } else {
        let setters = job["setters"].as_array().cloned().unwrap_or_default();
        if std::env::var_os("BVDRIVE_INPROC").is_some() {
            stage_builder(&setters, gen)
        } else {
            run_child_job(dir, &id, "a", json!({"setters": setters, "gen": gen}))
        }
    };
    if a["status"] != "ok" {
        return json!({"id": id, "a": a});
    }
    let flags1: Vec<String> = a["flags"].as_array().unwrap().iter().map(|x| x.as_str().unwrap_or("").to_string()).collect();
    // stage B: always a child
    let (b, tb) = run_child(dir, &id, "b", &flags1, gen);
    let mut out = json!({"id": id, "a": a, "b": b});
    if out["b"]["status"] == "ok" {
        out["flags_equal"] = json!(out["a"]["flags"] == out["b"]["flags"]);
        let same = out["a"]["gen"] == out["b"]["gen"] && ta == tb;
        out["gen_equal"] = json!(same);
        if !same {
            out["first_diff"] = json!(match (&ta, &tb) {
                (Some(x), Some(y)) => first_diff(x, y),
                _ => format!("{} vs {}", out["a"]["gen"], out["b"]["gen"]),
            });
        }
    }
    if let (Some(p), Some(t)) = (job["keep"].as_str(), ta.as_ref()) {
        let _ = std::fs::write(p, t);
    }
    // text hash, so that python can compare bindings across jobs (flag == method, defaults)
    if let Some(t) = ta.as_ref() {
        out["a"]["sha"] = json!(fnv(t));
    }
    if let Some(t) = tb.as_ref() {
        out["b"]["sha"] = json!(fnv(t));
    }
    out
}

fn fnv(s: &str) -> String {
    let mut h: u64 = 0xcbf29ce484222325;
    for b in s.as_bytes() {
        h ^= *b as u64;
        h = h.wrapping_mul(0x100000001b3);
    }
    format!("{h:016x}")
}

fn batch_main(args: &[String]) -> i32 {
    let (Some(path), Some(outp)) = (args.first(), args.get(1)) else {
        eprintln!("usage: bvdrive roundtrip batch <jobs.json> <out.ndjson>");
        return 2;
    };
    let v: Value = match std::fs::read_to_string(path).ok().and_then(|t| serde_json::from_str(&t).ok()) {
        Some(v) => v,
        None => {
            eprintln!("cannot read {path}");
            return 2;
        }
    };
    crate::run::install_panic_hook();
    let dir = std::path::Path::new(outp).parent().map(|p| p.to_string_lossy().into_owned()).unwrap_or_else(|| ".".into());
    let jobs: Arc<Vec<Value>> = Arc::new(v["jobs"].as_array().cloned().unwrap_or_default());
    let threads = v["threads"].as_u64().unwrap_or(8).max(1) as usize;
    let next = Arc::new(AtomicUsize::new(0));
    let file = match std::fs::File::create(outp) {
        Ok(f) => f,
        Err(e) => {
            eprintln!("cannot create {outp}: {e}");
            return 2;
        }
    };
    let out = Arc::new(Mutex::new(std::io::BufWriter::new(file)));
    let mut hs = vec![];
    for _ in 0..threads.min(jobs.len().max(1)) {
        let (jobs, next, out, dir) = (jobs.clone(), next.clone(), out.clone(), dir.clone());
        hs.push(
            std::thread::Builder::new()
                .stack_size(64 << 20)
                .spawn(move || loop {
                    let i = next.fetch_add(1, Ordering::SeqCst);
                    if i >= jobs.len() {
                        break;
                    }
                    let r = run_job(&dir, &jobs[i]);
                    use std::io::Write;
                    let mut o = out.lock().unwrap();
                    let _ = writeln!(o, "{}", r);
                })
                .unwrap(),
        );
    }
    for h in hs {
        let _ = h.join();
    }
    use std::io::Write;
    let _ = out.lock().unwrap().flush();
    0
}

pub fn main(args: &[String]) -> i32 {
    match args.first().map(|x| x.as_str()) {
        Some("table") => {
            println!("{}", json!({"rows": table(), "methods": known_methods()}));
            0
        }
        Some("batch") => batch_main(&args[1..]),
        Some("fromflags") => match args.get(1) {
            Some(p) => fromflags_main(p),
            None => 2,
        },
        _ => {
            eprintln!("usage: bvdrive roundtrip <table|batch|fromflags> ...");
            2
        }
    }
}
