//! Token scan of bindings files for the version-gated constructs of property C14.
//!
//! usage: bvdrive constructs <file.rs>...
//! Output: one JSON object per file:
//!   {"file":..., "ok":bool, "err":..., "constructs":{name: count}, "abis":[...], "where":{name: "first context"}}
//!
//! Constructs (the names are the ones used by spec/front/Features.tla):
//!   unsafe_extern   `unsafe extern "abi" { ... }`          (block, not an `unsafe extern fn` type)
//!   offset_of       `offset_of ! ( ... )`
//!   cstr_literal    a literal token `c"..."` / `cr"..."`
//!   const_cstr      `CStr :: from_bytes_with_nul_unchecked` (const construction of a CStr)
//!   core_ffi_c      `core :: ffi :: c_<x>` with x != void   (c_void in core::ffi is 1.30)
//!   core_ffi_cstr   `core :: ffi :: CStr`
//!   abi:<name>      every ABI string after `extern` (block or fn type)
//!   ptr_metadata    `from_raw_parts` / `from_raw_parts_mut` with a `ptr ::` prefix, `to_raw_parts`
//!   layout_for_ptr  `for_value_raw`
//! The scan is on tokens (proc_macro2), so comments, doc strings and string contents never match.

use proc_macro2::{Delimiter, TokenStream, TokenTree};
use serde_json::{json, Map, Value};
use std::collections::BTreeMap;
use std::str::FromStr;

#[derive(Default)]
pub struct Scan {
    pub counts: BTreeMap<String, u64>,
    pub first: BTreeMap<String, String>,
}

impl Scan {
    fn hit(&mut self, name: &str, ctx: &[TokenTree], at: usize) {
        *self.counts.entry(name.to_string()).or_insert(0) += 1;
        if !self.first.contains_key(name) {
            let lo = at.saturating_sub(6);
            let hi = (at + 6).min(ctx.len());
            let s: Vec<String> = ctx[lo..hi]
                .iter()
                .map(|t| match t {
                    TokenTree::Group(g) => match g.delimiter() {
                        Delimiter::Brace => "{..}".to_string(),
                        Delimiter::Parenthesis => "(..)".to_string(),
                        Delimiter::Bracket => "[..]".to_string(),
                        Delimiter::None => "..".to_string(),
                    },
                    other => other.to_string(),
                })
                .collect();
            self.first.insert(name.to_string(), s.join(" "));
        }
    }
}

fn ident_is(t: Option<&TokenTree>, s: &str) -> bool {
    matches!(t, Some(TokenTree::Ident(i)) if i == s)
}

fn punct_is(t: Option<&TokenTree>, c: char) -> bool {
    matches!(t, Some(TokenTree::Punct(p)) if p.as_char() == c)
}

fn ident_of(t: Option<&TokenTree>) -> Option<String> {
    match t {
        Some(TokenTree::Ident(i)) => Some(i.to_string()),
        _ => None,
    }
}

/// `a :: b` -> is toks[i..] = `::` ident(s)? returns index after `::`
fn after_colons(toks: &[TokenTree], i: usize) -> Option<usize> {
    if punct_is(toks.get(i), ':') && punct_is(toks.get(i + 1), ':') {
        Some(i + 2)
    } else {
        None
    }
}

pub fn scan_stream(ts: TokenStream, out: &mut Scan) {
    let toks: Vec<TokenTree> = ts.into_iter().collect();
    for i in 0..toks.len() {
        match &toks[i] {
            TokenTree::Group(g) => scan_stream(g.stream(), out),
            TokenTree::Literal(l) => {
                let s = l.to_string();
                if s.starts_with("c\"") || s.starts_with("cr\"") || s.starts_with("cr#") {
                    out.hit("cstr_literal", &toks, i);
                }
            }
            TokenTree::Ident(id) => {
                let name = id.to_string();
                match name.as_str() {
                    "extern" => {
                        // extern "abi" { .. }   |   extern "abi" fn   |   extern crate (ignored)
                        if let Some(TokenTree::Literal(l)) = toks.get(i + 1) {
                            let abi = l.to_string();
                            let abi = abi.trim_matches('"').to_string();
                            out.hit(&format!("abi:{abi}"), &toks, i);
                            let is_block = matches!(toks.get(i + 2),
                                Some(TokenTree::Group(g)) if g.delimiter() == Delimiter::Brace);
                            if is_block && i > 0 && ident_is(toks.get(i - 1), "unsafe") {
                                out.hit("unsafe_extern", &toks, i);
                            }
                        } else if matches!(toks.get(i + 1),
                            Some(TokenTree::Group(g)) if g.delimiter() == Delimiter::Brace)
                        {
                            out.hit("abi:C", &toks, i);
                            if i > 0 && ident_is(toks.get(i - 1), "unsafe") {
                                out.hit("unsafe_extern", &toks, i);
                            }
                        }
                    }
                    "offset_of" => {
                        if punct_is(toks.get(i + 1), '!') {
                            out.hit("offset_of", &toks, i);
                        }
                    }
                    "from_bytes_with_nul_unchecked" => out.hit("const_cstr", &toks, i),
                    "to_raw_parts" => out.hit("ptr_metadata", &toks, i),
                    "from_raw_parts" | "from_raw_parts_mut" => {
                        // ptr::from_raw_parts (unstable) vs slice::from_raw_parts (1.0)
                        if i >= 3
                            && punct_is(toks.get(i - 1), ':')
                            && punct_is(toks.get(i - 2), ':')
                            && ident_is(toks.get(i - 3), "ptr")
                        {
                            out.hit("ptr_metadata", &toks, i);
                        }
                    }
                    "for_value_raw" => out.hit("layout_for_ptr", &toks, i),
                    "core" => {
                        // core :: ffi :: X
                        if let Some(j) = after_colons(&toks, i + 1) {
                            if ident_is(toks.get(j), "ffi") {
                                if let Some(k) = after_colons(&toks, j + 1) {
                                    if let Some(x) = ident_of(toks.get(k)) {
                                        if x == "CStr" {
                                            out.hit("core_ffi_cstr", &toks, i);
                                        } else if x.starts_with("c_") && x != "c_void" {
                                            out.hit("core_ffi_c", &toks, i);
                                        }
                                    }
                                }
                            }
                        }
                    }
                    _ => {}
                }
            }
            TokenTree::Punct(_) => {}
        }
    }
}

pub fn scan_text(text: &str) -> Result<Scan, String> {
    let ts = TokenStream::from_str(text).map_err(|e| e.to_string())?;
    let mut s = Scan::default();
    scan_stream(ts, &mut s);
    Ok(s)
}

pub fn main(args: &[String]) -> i32 {
    for f in args {
        let v = match std::fs::read_to_string(f) {
            Err(e) => json!({"file": f, "ok": false, "err": format!("read: {e}")}),
            Ok(text) => match scan_text(&text) {
                Err(e) => json!({"file": f, "ok": false, "err": format!("lex: {e}")}),
                Ok(s) => {
                    let mut c = Map::new();
                    for (k, n) in &s.counts {
                        c.insert(k.clone(), json!(n));
                    }
                    let mut w = Map::new();
                    for (k, n) in &s.first {
                        w.insert(k.clone(), json!(n));
                    }
                    json!({"file": f, "ok": true, "constructs": Value::Object(c), "where": Value::Object(w)})
                }
            },
        };
        println!("{v}");
    }
    0
}
