//! C17 driver: run generation jobs sequentially with a recording `ParseCallbacks`
//! (header_file / include_file / read_env_var) and `bindgen::CargoCallbacks` attached, so that the
//! cargo directive lines printed on stdout can be attributed to the job.
//!
//! jobs.json: {"jobs": [ {"id": "...", "args": ["bindgen", ...CLI args incl. -o/--depfile...],
//!     "cwd": "dir" | null, "env": {"NAME": "value" | null, ...},
//!     (args empty => bare bindgen::builder(), with "depfile": [module, path])
//!     "headers": [input headers added with Builder::header, in order], "clang_args": [...],
//!     "log": hook log (NDJSON) of this job | null, "detail": 0|1,
//!     "header_contents": [["name", "text"], ...], "cargo": true|false,
//!     "write": true|false (also format + write the bindings with the default formatter) } ] }
//! stdout:
//!   @@BEGIN <id>
//!   ...lines printed by CargoCallbacks...
//!   @@END <id> {"outcome": "...", "msg": "...", "events": [["header_file","..."], ...]}

use serde_json::{json, Value};
use std::panic::{catch_unwind, AssertUnwindSafe};
use std::sync::{Arc, Mutex};

#[derive(Debug)]
struct Recorder(Arc<Mutex<Vec<(String, String)>>>);

impl bindgen::callbacks::ParseCallbacks for Recorder {
    fn header_file(&self, filename: &str) {
        self.0.lock().unwrap().push(("header_file".into(), filename.into()));
    }
    fn include_file(&self, filename: &str) {
        self.0.lock().unwrap().push(("include_file".into(), filename.into()));
    }
    fn read_env_var(&self, key: &str) {
        self.0.lock().unwrap().push(("read_env_var".into(), key.into()));
    }
}

fn strs(v: &Value) -> Vec<String> {
    v.as_array()
        .map(|a| a.iter().map(|x| x.as_str().unwrap_or("").to_string()).collect())
        .unwrap_or_default()
}

fn run_job(job: &Value) -> Value {
    let args = strs(&job["args"]);
    let home = std::env::current_dir().ok();
    if let Some(cwd) = job["cwd"].as_str() {
        let _ = std::env::set_current_dir(cwd);
    }
    // environment of this job (restored afterwards)
    let mut saved: Vec<(String, Option<String>)> = vec![];
    if let Some(env) = job["env"].as_object() {
        for (k, v) in env {
            saved.push((k.clone(), std::env::var(k).ok()));
            match v.as_str() {
                Some(s) => std::env::set_var(k, s),
                None => std::env::remove_var(k),
            }
        }
    }
    // markers for the getenv interposer (lib/native/getenv_shim.c): what is consulted between them
    // is consulted by the code under test, not by this driver
    let _ = std::env::var(format!("VERIF_MARK_{}", job["id"].as_str().unwrap_or("")));
    let log = job["log"].as_str().map(std::path::PathBuf::from);
    bindgen::verif::set_thread_log(log.as_deref());
    bindgen::verif::set_thread_detail(job["detail"].as_u64().unwrap_or(0) as u8);
    let events = Arc::new(Mutex::new(vec![]));
    let rec = Recorder(events.clone());
    let cargo = job["cargo"].as_bool().unwrap_or(true);
    let write = job["write"].as_bool().unwrap_or(false);
    let contents: Vec<(String, String)> = job["header_contents"]
        .as_array()
        .map(|a| {
            a.iter()
                .map(|p| {
                    (p[0].as_str().unwrap_or("").to_string(), p[1].as_str().unwrap_or("").to_string())
                })
                .collect()
        })
        .unwrap_or_default();
    let headers = strs(&job["headers"]);
    let depfile = job["depfile"].clone();
    let clang_args = strs(&job["clang_args"]);
    crate::run::LAST_PANIC_LOC.with(|c| c.borrow_mut().clear());
    let r = catch_unwind(AssertUnwindSafe(|| {
        let (mut builder, mut out): (bindgen::Builder, Box<dyn std::io::Write>) = if args.is_empty() {
            // no CLI line: a bare Builder (several input headers / header_contents only)
            let mut b = bindgen::builder();
            if let (Some(m), Some(p)) = (depfile[0].as_str(), depfile[1].as_str()) {
                b = b.depfile(m, p);
            }
            let out: Box<dyn std::io::Write> = match depfile[0].as_str() {
                Some(m) => match std::fs::File::create(m) {
                    Ok(f) => Box::new(f),
                    Err(e) => return ("flags_err".to_string(), e.to_string()),
                },
                None => Box::new(std::io::sink()),
            };
            (b, out)
        } else {
            match bindgen::builder_from_flags(args.into_iter()) {
                Ok((b, o, _)) => (b, o),
                Err(e) => return ("flags_err".to_string(), e.to_string()),
            }
        };
        for h in &headers {
            builder = builder.header(h.clone());
        }
        builder = builder.clang_args(clang_args.iter());
        for (n, t) in &contents {
            builder = builder.header_contents(n, t);
        }
        builder = builder.parse_callbacks(Box::new(rec));
        if cargo {
            builder = builder.parse_callbacks(Box::new(bindgen::CargoCallbacks::new()));
        }
        match builder.generate() {
            Ok(b) => {
                if write {
                    if let Err(e) = b.write(&mut out) {
                        return ("write_err".to_string(), e.to_string());
                    }
                } else {
                    use std::io::Write;
                    let _ = out.write_all(b.to_string().as_bytes());
                }
                ("ok".to_string(), String::new())
            }
            Err(e) => (crate::run::outcome_of(&e).to_string(), e.to_string()),
        }
    }));
    let (outcome, msg) = match r {
        Ok(x) => x,
        Err(p) => {
            let loc = crate::run::LAST_PANIC_LOC.with(|c| c.borrow().clone());
            ("panic".to_string(), format!("{} @ {}", crate::run::panic_msg(p), loc))
        }
    };
    bindgen::verif::set_thread_log(None);
    let _ = std::env::var("VERIF_ENDMARK");
    for (k, v) in saved {
        match v {
            Some(s) => std::env::set_var(&k, s),
            None => std::env::remove_var(&k),
        }
    }
    if let Some(h) = home {
        let _ = std::env::set_current_dir(h);
    }
    let ev: Vec<Value> = events.lock().unwrap().iter().map(|(a, b)| json!([a, b])).collect();
    json!({"outcome": outcome, "msg": msg.chars().take(1500).collect::<String>(), "events": ev})
}

pub fn main(args: &[String]) -> i32 {
    let Some(path) = args.first() else {
        eprintln!("usage: bvdrive deps <jobs.json>");
        return 2;
    };
    let v: Value = match std::fs::read_to_string(path).map_err(|e| e.to_string()).and_then(|t| {
        serde_json::from_str(&t).map_err(|e| e.to_string())
    }) {
        Ok(v) => v,
        Err(e) => {
            eprintln!("cannot read {path}: {e}");
            return 2;
        }
    };
    crate::run::install_panic_hook();
    for job in v["jobs"].as_array().cloned().unwrap_or_default() {
        let id = job["id"].as_str().unwrap_or("").to_string();
        println!("@@BEGIN {id}");
        let r = run_job(&job);
        println!("@@END {id} {r}");
    }
    0
}
