//! Generation jobs.
//!
//! jobs.json: {"threads": N, "jobs": [ {"id": "...", "args": ["bindgen", ...CLI args...],
//!   "callbacks": "name" | null, "log": "path" | null, "detail": 0|1|2,
//!   "schedule": "lifo|fifo|rand:N|idx:.." | null, "out": "path" | null,
//!   "write": true|false (format through Bindings::write instead of to_string) } ] }
//! Result: one JSON line per job on stdout:
//!   {"id":..., "outcome": "ok"|"err:<Variant>"|"panic"|"flags_err", "msg": "...", "ms": N}

use serde_json::{json, Value};
use std::panic::{catch_unwind, AssertUnwindSafe};
use std::sync::atomic::{AtomicUsize, Ordering};
use std::sync::{Arc, Mutex};

pub fn outcome_of(err: &bindgen::BindgenError) -> &'static str {
    use bindgen::BindgenError as E;
    match err {
        E::FolderAsHeader(_) => "err:FolderAsHeader",
        E::InsufficientPermissions(_) => "err:InsufficientPermissions",
        E::NotExist(_) => "err:NotExist",
        E::ClangDiagnostic(_) => "err:ClangDiagnostic",
        E::Codegen(_) => "err:Codegen",
        E::UnsupportedEdition(..) => "err:UnsupportedEdition",
        _ => "err:Other",
    }
}

pub fn panic_msg(p: Box<dyn std::any::Any + Send>) -> String {
    if let Some(s) = p.downcast_ref::<&str>() {
        s.to_string()
    } else if let Some(s) = p.downcast_ref::<String>() {
        s.clone()
    } else {
        "<non-string panic payload>".into()
    }
}

thread_local! {
    pub static LAST_PANIC_LOC: std::cell::RefCell<String> = const { std::cell::RefCell::new(String::new()) };
}

pub fn install_panic_hook() {
    std::panic::set_hook(Box::new(|info| {
        let loc = info
            .location()
            .map(|l| format!("{}:{}", l.file(), l.line()))
            .unwrap_or_default();
        LAST_PANIC_LOC.with(|c| *c.borrow_mut() = loc);
    }));
}

pub fn run_job(job: &Value) -> Value {
    let id = job["id"].as_str().unwrap_or("").to_string();
    let args: Vec<String> = job["args"]
        .as_array()
        .map(|a| a.iter().map(|x| x.as_str().unwrap_or("").to_string()).collect())
        .unwrap_or_default();
    let t0 = std::time::Instant::now();
    let log = job["log"].as_str().map(std::path::PathBuf::from);
    bindgen::verif::set_thread_log(log.as_deref());
    bindgen::verif::set_thread_detail(job["detail"].as_u64().unwrap_or(0) as u8);
    bindgen::verif::set_thread_schedule(job["schedule"].as_str());
    if log.is_some() {
        bindgen::verif::emit("reset", &format!("\"case\":{}", bindgen::verif::js(&id)));
    }
    LAST_PANIC_LOC.with(|c| c.borrow_mut().clear());
    let use_write = job["write"].as_bool().unwrap_or(false);
    let r = catch_unwind(AssertUnwindSafe(|| {
        let (mut builder, _out, _verbose) = match bindgen::builder_from_flags(args.into_iter()) {
            Ok(b) => b,
            Err(e) => return ("flags_err".to_string(), e.to_string(), None),
        };
        if let Some(cb) = job["callbacks"].as_str() {
            builder = builder.parse_callbacks(crate::parse_callbacks::lookup(cb));
        }
        match builder.generate() {
            Ok(b) => {
                let text = if use_write {
                    let mut v = vec![];
                    match b.write(&mut v) {
                        Ok(()) => String::from_utf8_lossy(&v).into_owned(),
                        Err(e) => return ("write_err".to_string(), e.to_string(), None),
                    }
                } else {
                    b.to_string()
                };
                ("ok".to_string(), String::new(), Some(text))
            }
            Err(e) => (outcome_of(&e).to_string(), e.to_string(), None),
        }
    }));
    let (outcome, msg, text) = match r {
        Ok(x) => x,
        Err(p) => {
            let loc = LAST_PANIC_LOC.with(|c| c.borrow().clone());
            ("panic".to_string(), format!("{} @ {}", panic_msg(p), loc), None)
        }
    };
    if log.is_some() {
        bindgen::verif::emit(
            "gen_end",
            &format!(
                "\"case\":{},\"outcome\":{}",
                bindgen::verif::js(&id),
                bindgen::verif::js(&outcome)
            ),
        );
    }
    bindgen::verif::set_thread_log(None);
    bindgen::verif::set_thread_schedule(None);
    if let (Some(out), Some(text)) = (job["out"].as_str(), text.as_ref()) {
        let _ = std::fs::write(out, text);
    }
    let mut msg = msg;
    if msg.len() > 2000 {
        let mut cut = 2000;
        while !msg.is_char_boundary(cut) {
            cut -= 1;
        }
        msg.truncate(cut);
    }
    json!({"id": id, "outcome": outcome, "msg": msg, "ms": t0.elapsed().as_millis() as u64,
           "len": text.map(|t| t.len()).unwrap_or(0)})
}

pub fn main(args: &[String]) -> i32 {
    let Some(path) = args.first() else {
        eprintln!("usage: bvdrive run <jobs.json>");
        return 2;
    };
    let text = match std::fs::read_to_string(path) {
        Ok(t) => t,
        Err(e) => {
            eprintln!("cannot read {path}: {e}");
            return 2;
        }
    };
    let v: Value = match serde_json::from_str(&text) {
        Ok(v) => v,
        Err(e) => {
            eprintln!("bad json {path}: {e}");
            return 2;
        }
    };
    install_panic_hook();
    let jobs: Arc<Vec<Value>> = Arc::new(v["jobs"].as_array().cloned().unwrap_or_default());
    let threads = v["threads"].as_u64().unwrap_or(8).max(1) as usize;
    let next = Arc::new(AtomicUsize::new(0));
    let out = Arc::new(Mutex::new(std::io::stdout()));
    let mut hs = vec![];
    for _ in 0..threads.min(jobs.len().max(1)) {
        let jobs = jobs.clone();
        let next = next.clone();
        let out = out.clone();
        hs.push(
            std::thread::Builder::new()
                .stack_size(64 << 20)
                .spawn(move || loop {
                    let i = next.fetch_add(1, Ordering::SeqCst);
                    if i >= jobs.len() {
                        break;
                    }
                    let r = run_job(&jobs[i]);
                    use std::io::Write;
                    let mut o = out.lock().unwrap();
                    let _ = writeln!(o, "{}", r);
                })
                .unwrap(),
        );
    }
    for h in hs {
        let _ = h.join();
    }
    0
}
