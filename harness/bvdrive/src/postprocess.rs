//! Post-processing passes on Rust source text (property C18).
//!
//!   bvdrive postprocess <jobs.ndjson>
//!
//! Every input line is a job {"id": "...", "src": "<rust source>" | "file": "<path>",
//! "merge": bool, "sort": bool, "rounds": N (default 1), "text": bool (default false)}.
//! The source goes through the REAL passes of bindgen/codegen/postprocessing (hook
//! `bindgen::verif::verif_postprocess`), `rounds` times (round k+1 is fed the output of round k).
//! Result, one JSON line per job:
//!   {"id":..., "outcome": "ok" | "err" | "panic", "msg": "...",
//!    "rounds": [ {"inv": <syn inventory of the output>, "len": N, "text": "..."(if asked)} ]}

use serde_json::{json, Value};
use std::io::{BufRead, Write};
use std::panic::{catch_unwind, AssertUnwindSafe};

fn run_job(job: &Value) -> Value {
    let id = job["id"].clone();
    let mut src = match (job["src"].as_str(), job["file"].as_str()) {
        (Some(s), _) => s.to_string(),
        (None, Some(p)) => match std::fs::read_to_string(p) {
            Ok(s) => s,
            Err(e) => return json!({"id": id, "outcome": "err", "msg": format!("cannot read {p}: {e}"), "rounds": []}),
        },
        _ => return json!({"id": id, "outcome": "err", "msg": "no src/file", "rounds": []}),
    };
    let merge = job["merge"].as_bool().unwrap_or(false);
    let sort = job["sort"].as_bool().unwrap_or(false);
    let rounds = job["rounds"].as_u64().unwrap_or(1).max(1);
    let want_text = job["text"].as_bool().unwrap_or(false);
    let mut out = vec![];
    for _ in 0..rounds {
        crate::run::LAST_PANIC_LOC.with(|c| c.borrow_mut().clear());
        let r = catch_unwind(AssertUnwindSafe(|| bindgen::verif::verif_postprocess(&src, merge, sort)));
        match r {
            Ok(Ok(text)) => {
                let mut v = json!({"inv": crate::inventory::inventory_of_text(&text), "len": text.len()});
                if want_text {
                    v["text"] = json!(text);
                }
                out.push(v);
                src = text;
            }
            Ok(Err(e)) => return json!({"id": id, "outcome": "err", "msg": e, "rounds": out}),
            Err(p) => {
                let loc = crate::run::LAST_PANIC_LOC.with(|c| c.borrow().clone());
                return json!({"id": id, "outcome": "panic",
                              "msg": format!("{} @ {}", crate::run::panic_msg(p), loc), "rounds": out});
            }
        }
    }
    json!({"id": id, "outcome": "ok", "msg": "", "rounds": out})
}

pub fn main(args: &[String]) -> i32 {
    let Some(path) = args.first() else {
        eprintln!("usage: bvdrive postprocess <jobs.ndjson>");
        return 2;
    };
    let f = match std::fs::File::open(path) {
        Ok(f) => f,
        Err(e) => {
            eprintln!("cannot read {path}: {e}");
            return 2;
        }
    };
    crate::run::install_panic_hook();
    // deep module nesting recurses in syn: run on a big stack
    std::thread::Builder::new()
        .stack_size(512 << 20)
        .spawn(move || serve(f))
        .unwrap()
        .join()
        .unwrap_or(2)
}

fn serve(f: std::fs::File) -> i32 {
    let stdout = std::io::stdout();
    let mut o = std::io::BufWriter::new(stdout.lock());
    for line in std::io::BufReader::new(f).lines() {
        let Ok(line) = line else { break };
        if line.trim().is_empty() {
            continue;
        }
        let job: Value = match serde_json::from_str(&line) {
            Ok(v) => v,
            Err(e) => {
                eprintln!("bad job line: {e}");
                return 2;
            }
        };
        let r = run_job(&job);
        let _ = writeln!(o, "{}", r);
    }
    let _ = o.flush();
    0
}
