//! bvdrive: library driver for the verification harness.
//!
//! Sub-commands (all read a JSON job description, write NDJSON / files):
//!   run <jobs.json>        run generation jobs (in-process, N threads), see `run.rs`
//!   inventory <file.rs>..  print the syn inventory of bindings files as JSON
#![allow(clippy::all, dead_code, unused_imports)]

#[path = "/repo/bindgen-tests/tests/parse_callbacks/mod.rs"]
mod parse_callbacks;

mod fmtdrive;
mod constructs;
mod depsdrive;
mod history;
mod inventory;
mod postprocess;
mod regexdrive;
mod roundtrip;
mod run;
mod statics;

fn main() {
    let args: Vec<String> = std::env::args().collect();
    if args.len() < 2 {
        eprintln!("usage: bvdrive <run|inventory> ...");
        std::process::exit(2);
    }
    let code = match args[1].as_str() {
        "run" => run::main(&args[2..]),
        "statics" => statics::main(&args[2..]),
        "inventory" => inventory::main(&args[2..]),
        "history" => history::main(&args[2..]),
        "deps" => depsdrive::main(&args[2..]),
        "postprocess" => postprocess::main(&args[2..]),
        "constructs" => constructs::main(&args[2..]),
        "roundtrip" => roundtrip::main(&args[2..]),
        "fmtdrive" => fmtdrive::main(&args[2..]),
        "regex" => regexdrive::main(&args[2..]),
        other => {
            eprintln!("unknown sub-command {other}");
            2
        }
    };
    std::process::exit(code);
}
