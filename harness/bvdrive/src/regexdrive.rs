//! `bvdrive regex <vectors.ndjson>`: each line {"ps": [patterns], "s": string, "build": bool}
//! -> prints {"i": line index, "m": bool} using the real RegexSet of bindgen.
use serde_json::{json, Value};

pub fn main(args: &[String]) -> i32 {
    let Some(path) = args.first() else { return 2 };
    let text = std::fs::read_to_string(path).unwrap_or_default();
    for (i, line) in text.lines().enumerate() {
        let Ok(v) = serde_json::from_str::<Value>(line) else { continue };
        let ps: Vec<String> = v["ps"].as_array().map(|a| a.iter().map(|x| x.as_str().unwrap_or("").to_string()).collect()).unwrap_or_default();
        let refs: Vec<&str> = ps.iter().map(|s| s.as_str()).collect();
        let s = v["s"].as_str().unwrap_or("");
        let build = v["build"].as_bool().unwrap_or(true);
        let r = std::panic::catch_unwind(|| bindgen::verif::verif_regex_matches(&refs, s, build));
        match r {
            Ok(m) => println!("{}", json!({"i": i, "m": m})),
            Err(_) => println!("{}", json!({"i": i, "m": null, "panic": true})),
        }
    }
    0
}
