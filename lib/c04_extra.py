"""Thorough-tier parts of C04: C++ classes executed on the host (Gen_Classes.tla) and text-only symbol
checks for Mach-O / Win32 (Gen_Cross.tla + llvm-nm + Trace_Symbols.tla)."""
import json
import os
import re
from concurrent.futures import ThreadPoolExecutor

import common as C
import ffi

BACK = os.path.join(C.SPEC, "back")
CROSS_CFGS = {
    "Gen_Cross_%s_%s.cfg" % (t, nm): "SPECIFICATION Spec\nCONSTANTS\n  Target = \"%s\"\n  NoMangling = %s\nINVARIANT Emitted\nCHECK_DEADLOCK FALSE\n" % (t, nm)
    for t in ("macho", "win32") for nm in ("FALSE", "TRUE")}
CROSS_CFGS["Gen_Classes.cfg"] = "SPECIFICATION Spec\nCONSTANTS\n  NMembers = 6\n  MaxArity = 3\nINVARIANT Emitted\nCHECK_DEADLOCK FALSE\n"
TRIPLES = {"macho": ["x86_64-apple-darwin", "aarch64-apple-darwin"], "win32": ["i686-pc-windows-msvc", "i686-pc-windows-gnu"]}
CTY = {"int": "int", "double": "double", "ptr": "int *", "llong": "long long", "S12": "struct S12"}
ATTR = {"C": "", "stdcall": "__attribute__((stdcall)) ", "fastcall": "__attribute__((fastcall)) "}


# ---------------------------------------------------------------------------------------------
# text-only: other object formats
# ---------------------------------------------------------------------------------------------
def cross(res, counts):
    from checks import c04
    d = C.workdir("c04-cross")
    obs_all = []
    for target in ("macho", "win32"):
        for nomangle in ("FALSE", "TRUE"):
            r = C.tlc(os.path.join(BACK, "Gen_Cross.tla"), cfg="Gen_Cross_%s_%s.cfg" % (target, nomangle), workers=4,
                      timeout=600, name="c04-cross-%s-%s" % (target, nomangle))
            decls = C.tlc_prints(r["out"], "DECL")
            if not C.tlc_ok(r) or not decls:
                raise C.ToolError("Gen_Cross failed: %s" % r["out"][-1200:])
            res.add(states=r["distinct"], transitions=r["generated"])
            decls.sort(key=lambda x: x["cname"])
            for triple in TRIPLES[target]:
                # --distrust-clang-mangling is meaningless for C++ symbols: C only
                for lang in (("c",) if nomangle == "TRUE" else ("c", "c++")):
                    use = [x for x in decls if not (lang == "c++" and ("$" in x["cname"]))]
                    tag = "%s-%s-%s-%s" % (triple, lang.replace("+", "x"), "nomangle" if nomangle == "TRUE" else "std", target)
                    hdr = ["struct S12 { int a; int b; int c; };"]
                    src = []
                    for x in use:
                        if x["kind"] == "fn":
                            ps = ", ".join("%s a%d" % (CTY[t], i) for i, t in enumerate(x["args"])) or "void"
                            hdr.append("%sint %s(%s);" % (ATTR[x["abi"]], x["cname"], ps))
                            src.append("%sint %s(%s) { return 0; }" % (ATTR[x["abi"]], x["cname"], ps))
                        else:
                            c = "const " if x.get("const") else ""
                            hdr.append("extern %sint %s;" % (c, x["cname"]))
                            src.append("%sint %s = 1;" % (("extern const " if lang == "c++" else "const ") if c else "", x["cname"]))
                    hp = os.path.join(d, tag + (".hpp" if lang == "c++" else ".h"))
                    with open(hp, "w") as f:
                        f.write("\n".join(hdr) + "\n")
                    cp = os.path.join(d, tag + ".c")
                    with open(cp, "w") as f:
                        f.write('#include "%s"\n' % hp + "\n".join(src) + "\n")
                    args = ["bindgen", "--formatter=none", hp] + (["--distrust-clang-mangling"] if nomangle == "TRUE" else []) + ["--", "--target=" + triple]
                    out = C.run_jobs([{"id": tag, "args": args, "out": os.path.join(d, tag + ".rs")}], threads=1, name="c04-cross-jobs", cwd=d)
                    if out[tag]["outcome"] != "ok":
                        res.violation("bindgen-failed:cross:%s" % out[tag]["outcome"], {"target": triple, "lang": lang, "msg": out[tag].get("msg", "")[:400]})
                        continue
                    inv = C.inventory([os.path.join(d, tag + ".rs")])[os.path.join(d, tag + ".rs")]
                    items = {it["ident"]: it for it in ffi.foreign_items(inv)}
                    defined = c04.cross_symbols(cp, triple, lang)
                    for x in use:
                        csym = c04.symbol_containing(defined, x["cname"])
                        p = x["pred"]
                        if lang == "c" and "apple" not in triple.replace("aarch64", "") and csym != p["csym"]:
                            raise C.ToolError("spec != environment: PlatformMangle predicts %s, clang emits %s (%s)" % (p["csym"], csym, triple))
                        if lang == "c" and csym != p["csym"]:
                            raise C.ToolError("spec != environment: PlatformMangle predicts %s, clang emits %s (%s)" % (p["csym"], csym, triple))
                        it = items.get(p["ident"])
                        if it is None:
                            res.drift.append("%s: no binding `%s` for %s" % (tag, p["ident"], x["cname"]))
                            continue
                        counts.inc("cross_bindings")
                        shape = x["shape"] if nomangle == "FALSE" else "nomangling-" + x["shape"]
                        pred_link = p["link"] if lang == "c" else it["link"]
                        obs_all.append({
                            "ev": "obs", "case": "%s/%s" % (tag, x["cname"]), "target": target, "kind": "var" if x["kind"] == "var" else "fn",
                            "abi": it["abi"] if x["kind"] == "fn" else "C", "variadic": False, "argbytes": x["argbytes"],
                            "ident": ffi.chars(it["ident"]), "link": {"kind": it["link"]["kind"], "name": ffi.chars(it["link"]["name"])},
                            "csym": ffi.chars(csym), "wanted": ffi.chars(csym), "defined": True, "referenced": "na",
                            "pred": {"ident": ffi.chars(p["ident"]), "link": {"kind": pred_link["kind"], "name": ffi.chars(pred_link["name"])}},
                            "shape": shape, "key": "symbol:%s:%s" % (shape if nomangle == "TRUE" else "cross-" + shape, target)})
    c04.validate_symbols(res, obs_all, "cross")
    counts["cross_targets"] = sum(len(v) for v in TRIPLES.values())


# ---------------------------------------------------------------------------------------------
# executed: C++ classes
# ---------------------------------------------------------------------------------------------
def cdecl(t, n):
    return ffi.cdecl(t, n)


def render_class(rec, types, name, d):
    ms = rec["members"]
    hdr = ["#pragma once", ffi.prelude(cross=True), "class K {", "public:", "  int x;"]
    src = []
    for m in ms:
        ps = ", ".join(cdecl(t, "a%d" % i) for i, t in enumerate(m["args"]))
        k = m["kind"]
        code = ["int code = 0;"] + ["code += vf_cls_%s(a%d) * %d;" % (t, i, ffi.BASE ** i) for i, t in enumerate(m["args"])]
        if k == "ctor":
            hdr.append("  K(%s);" % ps)
            src.append("K::K(%s) { %s vf_last = code; x = vf_tok_int(%d); }" % (ps, " ".join(code), rec["xtok"]))
        elif k in ("dtor", "vdtor"):
            hdr.append("  %s~K();" % ("virtual " if k == "vdtor" else ""))
            src.append("K::~K() { vf_last = 1000 + vf_cls_int(x); }")
        else:
            q = {"static": "static ", "virtual": "virtual "}.get(k, "")
            cq = " const" if k == "const" else ""
            hdr.append("  %s%s(%s)%s;" % (q, cdecl(m["ret"], m["name"]), ps, cq))
            if k != "static":
                code.append("code += vf_cls_int(x) * %d;" % (ffi.BASE ** len(m["args"])))
            ret = "" if m["ret"] == "void" else "return vf_tok_%s(%d);" % (m["ret"], m["rtok"])
            src.append("%s(%s)%s { %s vf_last = code; %s }" % (cdecl(m["ret"], "K::" + m["name"]), ps, cq, " ".join(code), ret))
    hdr.append("};")
    helpers, done = [], set()
    types.c_helpers("int", helpers, done)
    for m in ms:
        for t in m["args"] + [m["ret"]]:
            types.c_helpers(t, helpers, done)
    cpp = ['#include "%s.hpp"' % name, 'extern "C" {', ffi.C_RUNTIME, "}"] + helpers + src
    return "\n".join(hdr) + "\n", "\n".join(cpp) + "\n"


def rust_class(rec, types, bindings, has_vtable):
    ms = rec["members"]
    out, done = [], set()
    types.rs_helpers("int", out, done, False)
    for m in ms:
        if m["pred"]["emitted"]:
            for t in m["args"] + [m["ret"]]:
                types.rs_helpers(t, out, done, False)
    L = ["#![allow(warnings)]", "use std::os::raw::*;", "pub mod b { include!(%s); }" % json.dumps(bindings), "use b::*;",
         'extern "C" { static mut vf_mem: [u8; 64]; fn vf_take() -> c_int; }',
         "static mut VF_CB_TOK: i32 = 0;", "static mut VF_CB_CODE: i32 = -1;", "static mut VF_CB_CALLS: i32 = 0;"] + out
    lines = {}
    for m in ms:
        p = m["pred"]
        if not p["emitted"]:
            continue
        args = ", ".join("vf_tok_%s(%d)" % (t, k) for t, k in zip(m["args"], m["toks"]))
        pre = "let fp: %s = b::%s; let mut o: K = core::mem::zeroed(); o.x = vf_tok_int(%d);" % (p["sig"], p["ident"], rec["xtok"])
        rcls = "-1" if m["ret"] == "void" else "vf_cls_%s(r)" % m["ret"]
        if p["recv"] == "virtual":
            recv = "&mut o as *mut K as *mut c_void" if m["kind"] == "virtual" else "&mut o as *mut K"
            body = "let r = fp(%s%s); let code = vf_take(); println!(\"M %d {} {}\", code, %s);" % (recv, (", " + args) if args else "", m["i"], rcls)
        elif p["recv"] == "new":
            body = "let n: K = K::%s(%s); let code = vf_take(); println!(\"M %d {} {}\", code, vf_cls_int(n.x));" % (p["wrapper"], args, m["i"])
        elif p["recv"] == "none":
            body = "let r = K::%s(%s); let code = vf_take(); println!(\"M %d {} {}\", code, %s);" % (p["wrapper"], args, m["i"], rcls)
        else:
            body = "let r = o.%s(%s); let code = vf_take(); println!(\"M %d {} {}\", code, %s);" % (p["wrapper"], args, m["i"], rcls)
        L.append("#[inline(never)] unsafe fn vf_call_%d() { %s %s }" % (m["i"], pre, body))
        lines[len(L)] = m["i"]
    L.append("fn main() { unsafe {")
    L += ["vf_call_%d();" % m["i"] for m in ms if m["pred"]["emitted"]]
    L.append("} }")
    return "\n".join(L) + "\n", lines


def classes(res, counts, n):
    d = C.workdir("c04-classes")
    r = C.tlc(os.path.join(BACK, "Gen_Classes.tla"), cfg="Gen_Classes.cfg", workers=1, simulate=n, depth=600,
              extra=["-seed", str(C.seed() + 11)], timeout=900, name="c04-classes")
    recs = C.tlc_prints(r["out"], "CLASS")
    trows = C.tlc_prints(r["out"], "TYPES")
    if not recs or not trows:
        raise C.ToolError("Gen_Classes failed: %s" % r["out"][-1200:])
    types = ffi.Types(trows[0])
    jobs = []
    for i, rec in enumerate(recs):
        name = "cls%03d" % i
        h, cpp = render_class(rec, types, name, d)
        open(os.path.join(d, name + ".hpp"), "w").write(h)
        open(os.path.join(d, name + ".cpp"), "w").write(cpp)
        jobs.append({"id": name, "args": ["bindgen", "--formatter=none", os.path.join(d, name + ".hpp"), "--", "-x", "c++", "-std=c++14"],
                     "out": os.path.join(d, name + ".rs")})
    out = C.run_jobs(jobs, threads=12, name="c04-classes-jobs", cwd=d)

    def one(i):
        rec, name = recs[i], "cls%03d" % i
        if out[name]["outcome"] != "ok":
            res.violation("bindgen-failed:class:%s" % out[name]["outcome"], {"class": name, "msg": out[name].get("msg", "")[:400]})
            return
        rc, _, err = ffi.run(["clang", "-x", "c++", "-std=c++14", "-w", "-c", os.path.join(d, name + ".cpp"), "-o", os.path.join(d, name + ".o")], cwd=d)
        if rc != 0:
            raise C.ToolError("clang rejected generated class %s: %s" % (name, err[:800]))
        cdef, _ = ffi.nm_symbols(os.path.join(d, name + ".o"))
        inv = C.inventory([os.path.join(d, name + ".rs")])[os.path.join(d, name + ".rs")]
        items = {it["ident"]: it for it in ffi.foreign_items(inv)}
        impl_fns = set()
        for it in inv.get("items", []):
            if it.get("kind") == "impl" and it.get("name") == "K" and not it.get("trait"):
                impl_fns |= set(it.get("fns", []))
        usable = []
        for m in rec["members"]:
            p = m["pred"]
            if not p["emitted"]:
                continue
            counts.inc("class_members")
            it = items.get(p["ident"])
            if it is None or (p["recv"] != "virtual" and p["wrapper"] not in impl_fns):
                res.drift.append("%s: member %s: binding %s / wrapper %s not found" % (name, m["name"], p["ident"], p["wrapper"]))
                p["emitted"] = False
                continue
            sym = it["link"]["name"] if it["link"]["kind"] != "none" else it["ident"]
            if cdef.get(sym) not in ("T", "W"):
                res.violation("symbol:class-member:%s" % m["kind"], {"class": name, "member": m["name"], "rust_symbol": sym,
                                                                      "binding": it["tokens"][:200]})
                p["emitted"] = False
                continue
            usable.append(m)
        for attempt in range(3):
            src, lines = rust_class(rec, types, os.path.join(d, name + ".rs"), False)
            open(os.path.join(d, name + "_main.rs"), "w").write(src)
            rc, _, err = ffi.run(["rustc", "--edition", "2021", "-C", "opt-level=0", "-C", "debuginfo=0", "--crate-name", name + "_main",
                                  "--out-dir", d, "--error-format=short", os.path.join(d, name + "_main.rs"),
                                  "-C", "link-arg=" + os.path.join(d, name + ".o"), "-C", "link-arg=-lstdc++"], cwd=d, timeout=600)
            if rc == 0:
                break
            bad, other = set(), []
            for line in err.splitlines():
                mm = re.match(r"(.*?):(\d+):\d+: error(\[E\d+\])?: (.*)", line)
                if mm and mm.group(1).endswith("_main.rs") and int(mm.group(2)) in lines:
                    bad.add((lines[int(mm.group(2))], mm.group(4)[:160]))
                elif mm:
                    other.append(line)
            if other and not bad:
                code = re.search(r"E\d+", other[0])
                res.violation("bindings-rejected:class:%s" % (code.group(0) if code else "error"), {"class": name, "errors": other[:3]})
                return
            if not bad:
                raise C.ToolError("rustc failed on class caller %s: %s" % (name, err[-1200:]))
            for mi, msg in bad:
                m = [x for x in rec["members"] if x["i"] == mi][0]
                res.violation("sig-mismatch:class:%s:%s->%s" % (m["kind"], ",".join(m["args"]), m["ret"]),
                              {"class": name, "member": m["name"], "predicted": m["pred"]["sig"], "rustc": msg,
                               "binding": items[m["pred"]["ident"]]["tokens"][:300]})
                m["pred"]["emitted"] = False
        else:
            raise C.ToolError("class caller %s does not compile" % name)
        rc, outp, err = ffi.run([os.path.join(d, name + "_main")], cwd=d, timeout=60)
        for junk in (os.path.join(d, name + "_main"), os.path.join(d, name + ".o")):
            if os.path.exists(junk):
                os.remove(junk)
        if rc != 0:
            res.violation("caller-crashed:class", {"class": name, "rc": rc, "stderr": err[-300:]})
            return
        got = {int(l.split()[1]): [int(v) for v in l.split()[2:]] for l in outp.splitlines() if l.startswith("M ")}
        counts.inc("class_libraries")
        for m in rec["members"]:
            p = m["pred"]
            if not p["emitted"]:
                continue
            if m["kind"] == "ctor":
                exp = [p["code"], rec["xtok"]]
            else:
                exp = [p["code"], -1 if m["ret"] == "void" else p["rtok"]]
            counts.inc("class_calls")
            if got.get(m["i"]) != exp:
                res.violation("class-call-mismatch:%s:%s->%s" % (m["kind"], ",".join(m["args"]), m["ret"]),
                              {"class": name, "member": m["name"], "observed[code,ret]": got.get(m["i"]), "predicted": exp,
                               "binding": items[p["ident"]]["tokens"][:300]})
            else:
                counts.inc("class_calls_ok")

    with ThreadPoolExecutor(max_workers=10) as ex:
        list(ex.map(one, range(len(recs))))
    res.sample_case({"classes": len(recs), "example_members": [(m["kind"], m["name"], m["pred"].get("ident")) for m in recs[0]["members"]]}, cap=12)


def run(res, counts):
    import c04_cfgs
    c04_cfgs.ensure(CROSS_CFGS)
    classes(res, counts, 200)
    cross(res, counts)
