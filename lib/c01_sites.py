"""Conformance binding of spec/back/NameSites.tla (spec -> implementation): every (site, name) pair the model
enumerates is rendered as a header that puts the C name at that site; the real bindgen runs and the identifier
the model predicts must stand at the predicted place of the output.  A site that emits anything else - the
unmangled reserved word in particular - is a violation of C01 (the bindings cannot compile, or bind a name the
user cannot find)."""
import os
import re
import subprocess
from concurrent.futures import ThreadPoolExecutor

import common as C

BACK = os.path.join(C.SPEC, "back")

# site -> (header template, flags, token sequence of the definition; ID = predicted identifier)
SITES = {
    "struct": ("struct {n} {{ int a; }};\n", [], ["pub", "struct", "ID"]),
    "union": ("union {n} {{ int a; float b; }};\n", [], ["pub", "union", "ID"]),
    "enumtype": ("enum {n} {{ holder_a }};\n", [], ["pub", "type", "ID", "="]),
    "typedef": ("typedef int {n};\n", [], ["pub", "type", "ID", "="]),
    "field": ("struct holder {{ int {n}; }};\n", [], ["pub", "ID", ":"]),
    "fn": ("int {n}(void);\n", [], ["pub", "fn", "ID", "("]),
    "arg": ("int holder(int {n});\n", [], ["pub", "fn", "holder", "(", "ID", ":"]),
    "var": ("extern int {n};\n", [], ["pub", "static", "mut", "ID", ":"]),
    "macro": ("#define {n} 3\n", [], ["pub", "const", "ID", ":", "u32", "=", "3"]),
    "bf_get": ("struct holder {{ int {n}:3; }};\n", [], ["pub", "fn", "ID", "(", "&", "self", ")"]),
    "bf_set": ("struct holder {{ int {n}:3; }};\n", [], ["pub", "fn", "ID", "(", "&", "mut", "self"]),
    "bf_get_raw": ("struct holder {{ int {n}:3; }};\n", [], ["pub", "unsafe", "fn", "ID", "(", "this", ":", "*", "const"]),
    "bf_set_raw": ("struct holder {{ int {n}:3; }};\n", [], ["pub", "unsafe", "fn", "ID", "(", "this", ":", "*", "mut"]),
    "bf_ctor_arg": ("struct holder {{ int {n}:3; }};\n", [], ["pub", "fn", "new_bitfield_1", "(", "ID", ":"]),
    "variant_consts_anon": ("enum {{ {n} }};\n", [], ["pub", "const", "ID", ":", "_bindgen_ty_1", "="]),
    "variant_consts_named": ("enum E {{ {n} }};\n", [], ["pub", "const", "ID", ":", "E", "="]),
    "variant_consts_kwenum": ("enum box {{ {n} }};\n", [], ["pub", "const", "ID", ":", "box_", "="]),
    "variant_rust": ("enum E {{ {n} }};\n", ["--rustified-enum", "E"], ["pub", "enum", "E", "{", "ID", "=", "0"]),
    "variant_rust_alias": ("enum E {{ first, {n} = 0 }};\n", ["--rustified-enum", "E"],
                           ["pub", "const", "ID", ":", "E", "=", "E", "::", "first"]),
    "variant_module": ("enum E {{ {n} }};\n", ["--constified-enum-module", "E"], ["pub", "const", "ID", ":", "Type", "="]),
    "variant_newtype": ("enum E {{ {n} }};\n", ["--newtype-enum", "E"], ["pub", "const", "ID", ":", "E", "=", "E", "("]),
    "variant_bitfield": ("enum E {{ {n} }};\n", ["--bitfield-enum", "E"], ["pub", "const", "ID", ":", "E", "=", "E", "("]),
    # C++
    "namespace": ("namespace {n} {{ struct inner {{ int a; }}; }}\n", ["--enable-cxx-namespaces"], ["pub", "mod", "ID", "{"]),
    "method": ("struct holder {{ void {n}(); }};\n", [], ["pub", "unsafe", "fn", "ID", "(", "&", "mut", "self", ")"]),
    "static_method": ("struct holder {{ static int {n}(); }};\n", [], ["pub", "unsafe", "fn", "ID", "(", ")"]),
    "method_extern": ("struct holder {{ void {n}(); }};\n", [], ["pub", "fn", "ID", "(", "this", ":"]),
    "tparam": ("template<class {n}> struct holder {{ {n} a; }};\n", [], ["pub", "struct", "holder", "<", "ID", ","]),
    "tparam_use": ("template<class {n}> struct holder {{ {n} *a; }};\n", [], ["pub", "a", ":", "*", "mut", "ID", ","]),
}
CXX = {"namespace", "method", "static_method", "method_extern", "tparam", "tparam_use"}

IDENT = r"[A-Za-z0-9_]"
# BindgenList of NameSites.tla: words that may not stand at a site unmangled
MUST_MANGLE = set("""abstract alignof as async await become box break const continue crate do dyn else enum extern false final
fn for gen if impl in let loop macro match mod move mut offsetof override priv proc pub pure ref return Self self sizeof static
struct super trait true try type typeof unsafe unsized use virtual where while yield str bool f32 f64 usize isize u128 i128 u64
i64 u32 i32 u16 i16 u8 i8 _""".split())


def pattern(tokens, ident):
    parts = []
    for t in tokens:
        t = ident if t == "ID" else t
        e = re.escape(t)
        if re.match(IDENT, t[0]):
            e = r"(?<!%s)" % IDENT + e
        if re.match(IDENT, t[-1]):
            e += r"(?!%s)" % IDENT
        parts.append(e)
    return re.compile(r"\s*".join(parts))


def name_class(n):
    prim = {"str", "bool", "f32", "f64", "usize", "isize", "u128", "i128", "u64", "i64", "u32", "i32", "u16", "i16", "u8", "i8"}
    if n in ("plain", "typed", "selfish"):
        return "ordinary"
    if n in prim:
        return "primitive"
    if n == "_":
        return "underscore"
    return "reserved"


def run(res, tier):
    r = C.tlc(os.path.join(BACK, "NameSites.tla"), cfg="MC_NameSites.cfg", workers=2, timeout=600, name="c01-sites")
    if not C.tlc_ok(r):
        raise C.ToolError("NameSites model failed: " + r["out"][-1200:])
    for cfg in ("MC_NameSites_x_aliasUnmangled.cfg", "MC_NameSites_x_argUnmangled.cfg"):
        r2 = C.tlc(os.path.join(BACK, "NameSites.tla"), cfg=cfg, workers=2, timeout=300, name="c01-sites-sens")
        if "is violated" not in r2["out"]:
            raise C.ToolError("sensitivity config %s did not fail" % cfg)
    cases = C.tlc_prints(r["out"], "SITE")
    if len(cases) < 1000 or any("raw" in c for c in cases):
        raise C.ToolError("NameSites printed %d cases" % len(cases))
    unknown = {c["site"] for c in cases} - set(SITES)
    if unknown:
        raise C.ToolError("sites of the model without a renderer: %s" % sorted(unknown))
    w = C.workdir("c01-sites")

    def one(k_c):
        k, c = k_c
        tmpl, flags, toks = SITES[c["site"]]
        hp = os.path.join(w, "s%04d.%s" % (k, "hpp" if c["site"] in CXX else "h"))
        with open(hp, "w") as f:
            f.write(tmpl.format(n=c["name"]))
        try:
            p = subprocess.run([C.BINDGEN, "--formatter=none", "--no-layout-tests", hp] + flags, stdout=subprocess.PIPE,
                               stderr=subprocess.PIPE, stdin=subprocess.DEVNULL, text=True, timeout=120)
        except subprocess.TimeoutExpired:
            return c, "timeout", ""
        if p.returncode != 0:
            return c, "failed", p.stderr[-300:]
        if pattern(toks, c["ident"]).search(p.stdout):
            return c, "ok", ""
        # what stands there instead
        m = pattern(toks, "@@").pattern.replace("@@", "(%s+)" % IDENT)
        alt = re.search(m, p.stdout)
        return c, "absent", alt.group(1) if alt else ""

    with ThreadPoolExecutor(max_workers=12) as ex:
        outs = list(ex.map(one, enumerate(cases)))
    n_ok = 0
    for c, verdict, info in outs:
        if verdict == "ok":
            n_ok += 1
            continue
        if verdict == "absent" and info not in MUST_MANGLE:
            # the site names the thing differently (or not at all) but not by a word that cannot stand there: the
            # property (the bindings compile) is not at stake, the model of the site is out of date
            res.drift.append("name site %s, C name `%s`: model predicts `%s`, the code writes `%s`" %
                             (c["site"], c["name"], c["ident"], info or "<nothing at that place>"))
            continue
        key = "name-site:%s:%s:%s" % (c["site"], name_class(c["name"]),
                                      {"failed": "generation-failed", "timeout": "timeout"}.get(verdict, "unmangled-reserved-word"))
        res.violation(key, {"site": c["site"], "c_name": c["name"], "predicted": c["ident"], "found_instead": info,
                            "header": SITES[c["site"]][0].format(n=c["name"]), "flags": SITES[c["site"]][1]})
    res.add(name_sites_cases=len(cases), name_sites_conform=n_ok, name_sites=len(SITES))
    res.sample_case({"stage": "name-sites", "site": cases[0]["site"], "name": cases[0]["name"], "ident": cases[0]["ident"]})
