"""TLC configuration files of C04 / C16 (spec/back).  `ensure()` (re)writes every file whose content
differs, so the checks do not depend on generated files surviving in the working tree."""
import os

import common as C

BACK = os.path.join(C.SPEC, "back")


def _sym(target, k, asm, suffix, nomang, varlink, mutation, invs):
    return ("SPECIFICATION Spec\nCONSTANTS\n  Target = \"%s\"\n  K = %d\n  AsmUnderscore = %s\n  SuffixLike = %s\n"
            "  NoMangling = %s\n  VarLinkOverride = %s\n  Mutation = \"%s\"\nINVARIANTS %s\nCHECK_DEADLOCK FALSE\n"
            % (target, k, asm, suffix, nomang, varlink, mutation, invs))


def _gen(nfns, mina, maxa, kinds, shapes, argset, retset, optset, fixed, pad):
    q = lambda xs: "{" + ",".join('"%s"' % x for x in xs) + "}"
    return ("SPECIFICATION Spec\nCONSTANTS\n  NFns = %d\n  MinArity = %d\n  MaxArity = %d\n  Kinds = %s\n  Shapes = %s\n"
            "  ArgSet = \"%s\"\n  RetSet = \"%s\"\n  OptSet = \"%s\"\n  FixedToks = %s\n  Pad = %s\n"
            "INVARIANTS Emitted UniqueIdents PredictedSymbolsOK\nCHECK_DEADLOCK FALSE\n"
            % (nfns, mina, maxa, q(kinds), q(shapes), argset, retset, optset, fixed, pad))


ALL = "SymbolsOK UniqueIdents OneBindingPerSymbol LinkNameIff"
ALLK = ["fn", "variadic", "noreturn", "msabi", "inline", "static", "vectorcall", "gvar"]
ALLS = ["plain", "keyword", "dollar", "asm", "renamed"]

FILES = {
    # ---- MC_Symbols: model, shapes the code cannot handle (k_), mechanisms removed (x_)
    "MC_Symbols_elf.cfg": _sym("elf", 3, "FALSE", "FALSE", "FALSE", "FALSE", "none", ALL),
    "MC_Symbols_macho.cfg": _sym("macho", 3, "FALSE", "FALSE", "FALSE", "FALSE", "none", ALL),
    "MC_Symbols_win32.cfg": _sym("win32", 3, "FALSE", "FALSE", "FALSE", "FALSE", "none", ALL),
    "MC_Symbols_k_elf_asmUnderscore.cfg": _sym("elf", 1, "TRUE", "FALSE", "FALSE", "FALSE", "none", "SymbolsOK"),
    "MC_Symbols_k_elf_suffixLike.cfg": _sym("elf", 3, "FALSE", "TRUE", "FALSE", "FALSE", "none", "UniqueIdents"),
    "MC_Symbols_k_macho_noMangling.cfg": _sym("macho", 1, "FALSE", "FALSE", "TRUE", "FALSE", "none", "SymbolsOK"),
    "MC_Symbols_k_elf_varLinkOverride.cfg": _sym("elf", 1, "FALSE", "FALSE", "FALSE", "TRUE", "none", "SymbolsOK"),
    "MC_Symbols_x_noKeywordLink.cfg": _sym("elf", 1, "FALSE", "FALSE", "FALSE", "FALSE", "noKeywordLink", "SymbolsOK"),
    "MC_Symbols_x_noOverloadSuffix.cfg": _sym("elf", 2, "FALSE", "FALSE", "FALSE", "FALSE", "noOverloadSuffix", "UniqueIdents"),
    "MC_Symbols_x_noSeen.cfg": _sym("elf", 2, "FALSE", "FALSE", "FALSE", "FALSE", "noSeen", "OneBindingPerSymbol"),
    "MC_Symbols_x_mangleVerbatim.cfg": _sym("macho", 1, "FALSE", "FALSE", "FALSE", "FALSE", "mangleVerbatim", "SymbolsOK"),
    # ---- Gen_Funcs: exhaustive sweeps (one declaration per behaviour) and random libraries
    "Gen_Funcs_arg1.cfg": _gen(1, 1, 1, ["fn"], ["plain"], "all", "int", "none", "FALSE", "FALSE"),
    "Gen_Funcs_ret.cfg": _gen(1, 0, 0, ["fn"], ["plain"], "all", "all", "none", "FALSE", "FALSE"),
    "Gen_Funcs_pairs_q.cfg": _gen(1, 2, 2, ["fn"], ["plain"], "reps", "int", "none", "TRUE", "FALSE"),
    "Gen_Funcs_pairs_t.cfg": _gen(1, 2, 2, ["fn"], ["plain"], "all", "int", "none", "TRUE", "FALSE"),
    "Gen_Funcs_pad_q.cfg": _gen(1, 1, 1, ["fn"], ["plain"], "reps", "int", "none", "TRUE", "TRUE"),
    "Gen_Funcs_pad_t.cfg": _gen(1, 1, 1, ["fn"], ["plain"], "all", "int", "none", "TRUE", "TRUE"),
    "Gen_Funcs_gvar.cfg": _gen(1, 0, 0, ["gvar"], ["plain"], "all", "int", "none", "TRUE", "FALSE"),
    "Gen_Funcs_known.cfg": _gen(1, 0, 0, ["fn", "gvar"], ["asmu"], "reps", "int", "none", "TRUE", "FALSE"),
    "Gen_Funcs_known_plink.cfg": _gen(1, 0, 0, ["gvar"], ["plain"], "reps", "int", "plink", "TRUE", "FALSE"),
    "Gen_Funcs_sim_q.cfg": _gen(24, 0, 6, ALLK, ALLS, "all", "all", "all", "FALSE", "FALSE"),
    "Gen_Funcs_sim_t.cfg": _gen(36, 0, 8, ALLK, ALLS, "all", "all", "all", "FALSE", "FALSE"),
    "Trace_Symbols.cfg": "SPECIFICATION Spec\nINVARIANT Report\nPOSTCONDITION Post\nCHECK_DEADLOCK FALSE\n",
}


def ensure(extra=None):
    files = dict(FILES)
    if extra:
        files.update(extra)
    for name, text in files.items():
        p = os.path.join(BACK, name)
        try:
            cur = open(p).read()
        except OSError:
            cur = None
        if cur != text:
            with open(p, "w") as f:
                f.write(text)
