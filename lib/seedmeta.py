"""Fold the coordinator's own confirmation and evaluation runs into seeded/<id>/meta.json."""
import glob
import json
import os

ROOT = os.path.join(os.path.dirname(os.path.dirname(os.path.abspath(__file__))), "seeded")
for d in sorted(glob.glob(os.path.join(ROOT, "*"))):
    mp = os.path.join(d, "meta.json")
    if not os.path.isdir(d) or not os.path.exists(mp):
        continue
    try:
        meta = json.load(open(mp))
    except Exception:
        meta = {}
    ran = {"confirmed_by_coordinator": None, "evaluations": []}
    cp = os.path.join(d, "confirm.json")
    if os.path.exists(cp):
        c = json.load(open(cp))
        ran["confirmed_by_coordinator"] = {
            "commands": ["lib/seedconfirm.sh <seed dir> <name>: scratch worktree of /repo; build CLI; demo.sh on unchanged binary; "
                         "git apply patch.diff; build; demo.sh on changed binary; cargo nextest run --workspace --offline"],
            "patch_applies": c.get("applies") == 0, "builds": c.get("builds") == 0,
            "demo_exit_unchanged": c.get("demo_unchanged_rc"), "demo_exit_changed": c.get("demo_changed_rc"),
            "suite": c.get("suite")}
    for f in sorted(glob.glob(os.path.join(d, "eval*", "result-*.json"))):
        try:
            r = json.load(open(f))
        except Exception:
            continue
        r["stage"] = "before strengthening (snapshot of /verif)" if os.path.basename(os.path.dirname(f)) == "eval" else "after strengthening"
        r["command"] = "lib/seedeval.sh %s %s %s  (isolated worktree + private harness copy; ./bin/check %s --tier %s)" % (
            r["seed"], r["check"], r["tier"], r["check"], r["tier"])
        ran["evaluations"].append(r)
    meta["coordinator"] = ran
    with open(mp, "w") as f:
        json.dump(meta, f, indent=1)
print("updated")
