"""Conformance binding of spec/back/Overloads.tla (spec -> implementation): every reachable state of the model
(a sequence of declarations that share names) is rendered as a C++ class with those methods and as free
functions; the real bindgen runs and the names it emits, in declaration order, are compared with the model's
prediction - the probing rule for methods, the counter rule for functions and for the extern function behind
each method.  Methods must also be pairwise distinct (L1); for functions the model itself says on which
sequences the counter rule collides (recorded finding), so only a disagreement with the prediction is reported."""
import os
import re
import subprocess
from concurrent.futures import ThreadPoolExecutor

import common as C

BACK = os.path.join(C.SPEC, "back")


CTOR = "<ctor>"


def sig(k):
    return "(" + ", ".join(["int"] * k) + ")"


def names(pat, text):
    return re.findall(pat, text)


def judge(kind, got, want, out):
    """The property is at stake when two declarations of one scope get the same identifier (the bindings do not
    compile); names that are distinct but not the model's are a stale model: drift."""
    if len(set(got)) != len(got):
        out.append((kind, "duplicate-names:" + ("as-modelled" if got == want else "not-modelled"), got, want))
    elif got != want:
        out.append((kind, "DRIFT", got, want))


def run(res, tier):
    cfg = "MC_Overloads_6.cfg" if tier == "thorough" else "MC_Overloads.cfg"
    r = C.tlc(os.path.join(BACK, "Overloads.tla"), cfg=cfg, workers=4, timeout=900, name="c01-ovl")
    if not C.tlc_ok(r):
        raise C.ToolError("Overloads model failed: " + r["out"][-1200:])
    r2 = C.tlc(os.path.join(BACK, "Overloads.tla"), cfg="MC_Overloads_x_counter.cfg", workers=2, timeout=300, name="c01-ovl-sens")
    if "Invariant UniqueMethods is violated" not in r2["out"]:
        raise C.ToolError("sensitivity config MC_Overloads_x_counter did not fail")
    r3 = C.tlc(os.path.join(BACK, "Overloads.tla"), cfg="MC_Overloads_x_externUnique.cfg", workers=2, timeout=300, name="c01-ovl-sens2")
    if "Invariant ExternUnique is violated" not in r3["out"]:
        raise C.ToolError("MC_Overloads_x_externUnique did not fail: the recorded finding method-extern-suffix-collision is gone from the model?")
    cases = [c for c in C.tlc_prints(r["out"], "OVL") if "raw" not in c and c["decls"]]
    if len(cases) < 300:
        raise C.ToolError("Overloads printed %d states" % len(cases))
    # constructors (wrapper `new`, extern named after the class) next to methods literally called `new1` / `Chan1`
    r4 = C.tlc(os.path.join(BACK, "Overloads.tla"), cfg="MC_Overloads_ctors.cfg", workers=4, timeout=900, name="c01-ovl-ctors")
    if not C.tlc_ok(r4):
        raise C.ToolError("Overloads (constructors) model failed: " + r4["out"][-1200:])
    r5 = C.tlc(os.path.join(BACK, "Overloads.tla"), cfg="MC_Overloads_x_ctorCounter.cfg", workers=2, timeout=300, name="c01-ovl-sens3")
    if "Invariant UniqueMethods is violated" not in r5["out"]:
        raise C.ToolError("sensitivity config MC_Overloads_x_ctorCounter did not fail")
    ctor_cases = [c for c in C.tlc_prints(r4["out"], "OVL") if "raw" not in c and CTOR in c["decls"]]
    if len(ctor_cases) < 200:
        raise C.ToolError("Overloads (constructors) printed %d states" % len(ctor_cases))
    cases += ctor_cases
    w = C.workdir("c01-ovl")

    def bindgen(hp):
        p = subprocess.run([C.BINDGEN, "--formatter=none", "--no-layout-tests", hp], stdout=subprocess.PIPE,
                           stderr=subprocess.PIPE, stdin=subprocess.DEVNULL, text=True, timeout=120)
        return p.returncode, p.stdout, p.stderr

    def one(k_c):
        k, c = k_c
        d = c["decls"]
        cls = os.path.join(w, "m%05d.hpp" % k)
        members = [("  Chan%s;\n" if b == CTOR else "  void " + b + "%s;\n") % sig(i) for i, b in enumerate(d)]
        if k % 2:
            # the code walks methods first, constructors afterwards, wherever they stand in the class
            members = [m for m in members if m.startswith("  Chan(")] + [m for m in members if not m.startswith("  Chan(")]
        with open(cls, "w") as f:
            f.write("struct Chan {\n" + "".join(members) + "};\n")
        fre = os.path.join(w, "f%05d.hpp" % k)
        with open(fre, "w") as f:
            f.write("".join("void %s%s;\n" % (b, sig(i)) for i, b in enumerate(d) if b != CTOR))
        out = []
        try:
            rc, so, se = bindgen(cls)
            if rc != 0:
                out.append(("method", "generation-failed", se[-300:], None))
            else:
                judge("method", names(r"pub\s+unsafe\s+fn\s+(\w+)\s*\(", so), c["methods"], out)
                judge("method-extern", names(r"pub\s+fn\s+(\w+)\s*\(\s*this\s*:", so), ["Chan_" + x for x in c["externs"]], out)
            rc, so, se = bindgen(fre)
            if rc != 0:
                out.append(("function", "generation-failed", se[-300:], None))
            else:
                judge("function", names(r"pub\s+fn\s+(\w+)\s*\(", so), c["functions"], out)
        except subprocess.TimeoutExpired:
            out.append(("any", "timeout", "", None))
        return c, out

    with ThreadPoolExecutor(max_workers=12) as ex:
        outs = list(ex.map(one, enumerate(cases)))
    bad = 0
    for c, out in outs:
        for kind, what, got, want in out:
            if what == "DRIFT":
                res.drift.append("overloaded %s names for %s: the code emits %s, the model %s" % (kind, c["decls"], got, want))
                continue
            bad += 1
            res.violation("overload-names:%s:%s" % (kind, what), {"decls": c["decls"], "emitted": got, "model": want})
    res.add(overload_sequences=len(cases), overload_sequences_conform=sum(1 for c, o in outs if not o))
    res.sample_case({"stage": "overload-names", "decls": cases[-1]["decls"], "methods": cases[-1]["methods"],
                     "functions": cases[-1]["functions"]})
