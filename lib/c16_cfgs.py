"""TLC configuration files of C16 (spec/back); see c04_cfgs.py."""
import c04_cfgs


def _mc(k, lang, kw, lo, mutation, invs):
    return ("SPECIFICATION Spec\nCONSTANTS\n  K = %d\n  Lang = \"%s\"\n  WithKeyword = %s\n  WithLinkOv = %s\n  Mutation = \"%s\"\n"
            "INVARIANTS %s\nCHECK_DEADLOCK FALSE\n" % (k, lang, kw, lo, mutation, invs))


def _gen(nfns, mina, maxa, kinds, shapes, argset, retset, optset, fixed):
    q = lambda xs: "{" + ",".join('"%s"' % x for x in xs) + "}"
    return ("SPECIFICATION Spec\nCONSTANTS\n  NFns = %d\n  MinArity = %d\n  MaxArity = %d\n  Kinds = %s\n  Shapes = %s\n"
            "  ArgSet = \"%s\"\n  RetSet = \"%s\"\n  OptSet = \"%s\"\n  FixedToks = %s\n"
            "INVARIANTS Emitted PredictedBijection\nCHECK_DEADLOCK FALSE\n"
            % (nfns, mina, maxa, q(kinds), q(shapes), argset, retset, optset, fixed))


ALL = "InvNoDangling InvBijection InvInternalNeverPlain InvVariadic InvExternalPlain"
ALLK = ["static", "static_inline", "extern", "inline_extern", "variadic_static", "valist1", "valist2", "valist_only"]
FILES = {
    "MC_Wrappers_c.cfg": _mc(3, "c", "FALSE", "FALSE", "none", ALL),
    "MC_Wrappers_k_cxx.cfg": _mc(1, "cxx", "FALSE", "FALSE", "none", "InvNoDangling"),
    "MC_Wrappers_k_keyword.cfg": _mc(1, "c", "TRUE", "FALSE", "none", "InvNoDangling"),
    "MC_Wrappers_k_linkov.cfg": _mc(1, "c", "FALSE", "TRUE", "none", "InvNoDangling"),
    "MC_Wrappers_x_wrapVariadic.cfg": _mc(1, "c", "FALSE", "FALSE", "wrapVariadic", "InvNoDangling"),
    "MC_Wrappers_x_bindPlain.cfg": _mc(1, "c", "FALSE", "FALSE", "bindPlain", "InvNoDangling"),
    "MC_Wrappers_x_defaultSuffix.cfg": _mc(1, "c", "FALSE", "FALSE", "defaultSuffix", "InvBijection"),
    "Gen_Statics_one_q.cfg": _gen(1, 1, 1, ["static_inline"], ["plain"], "all", "int", "c", "TRUE"),
    "Gen_Statics_one_t.cfg": _gen(1, 1, 2, ["static_inline", "static"], ["plain"], "reps", "int", "c", "TRUE"),
    "Gen_Statics_pairs_t.cfg": _gen(1, 2, 2, ["static_inline"], ["plain"], "all", "int", "c", "TRUE"),
    "Gen_Statics_ret.cfg": _gen(1, 0, 0, ["static"], ["plain"], "mini", "all", "c", "TRUE"),
    "Gen_Statics_kinds.cfg": _gen(1, 1, 1, ALLK, ["plain"], "mini", "int", "cb", "TRUE"),
    "Gen_Statics_k_cxx.cfg": _gen(1, 1, 1, ["static", "static_inline", "extern"], ["plain"], "mini", "int", "cxx", "TRUE"),
    "Gen_Statics_k_keyword.cfg": _gen(1, 1, 1, ["static", "static_inline", "extern"], ["keyword"], "mini", "int", "c", "TRUE"),
    "Gen_Statics_k_plink.cfg": _gen(1, 1, 1, ["static", "static_inline"], ["plain"], "mini", "int", "plink", "TRUE"),
    "Gen_Statics_k_nostdbool.cfg": _gen(1, 1, 1, ["static_inline"], ["plain"], "bool", "bool", "nostdbool", "TRUE"),
    "Gen_Statics_sim_q.cfg": _gen(12, 0, 4, ALLK, ["plain", "keyword"], "all", "all", "all", "FALSE"),
    "Gen_Statics_sim_t.cfg": _gen(30, 0, 6, ALLK, ["plain", "keyword"], "all", "all", "all", "FALSE"),
    "Trace_Wrappers.cfg": "SPECIFICATION Spec\nINVARIANT Report\nPOSTCONDITION Post\nCHECK_DEADLOCK FALSE\n",
}


def ensure():
    c04_cfgs.ensure(FILES)
