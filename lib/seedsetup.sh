#!/bin/bash
# usage: seedsetup.sh <seed name>   -> keeps /tmp/dbg-<name>-repo (worktree with the patch) and /tmp/dbg-<name>-h (harness copy)
# for interactive debugging of a check against a seeded change; remove with seedsetup.sh <name> --remove
set -u
exec < /dev/null
NAME=$1; R=/tmp/dbg-$NAME-repo; H=/tmp/dbg-$NAME-h
git -C /repo worktree remove --force $R >/dev/null 2>&1; rm -rf $R $H
[ "${2:-}" = "--remove" ] && exit 0
git -C /repo worktree add -q --detach $R HEAD || exit 2
( cd $R && (git apply /verif/seeded/$NAME/patch.diff || patch -p1 -F3 -s < /verif/seeded/$NAME/patch.diff) ) || exit 2
mkdir -p $H; rsync -a --exclude target /verif/harness/ $H/
grep -rl "/repo/" $H --include=Cargo.toml --include=*.rs --include=config.toml | xargs sed -i "s|/repo/|$R/|g"
cp $R/Cargo.lock $H/Cargo.lock
echo "export VERIF_REPO=$R VERIF_HARNESS=$H VERIF_EVID=$H/evid VERIF_REPLAYS=$H/evid"
