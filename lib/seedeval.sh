#!/bin/bash
# usage: seedeval.sh <seed name, e.g. C18-1> <property, e.g. C18> [tier]
# Runs a check against a seeded change in complete isolation: a scratch worktree of /repo with the patch
# applied, and a private copy of the harness pointing at it. /repo and /verif/evidence are not touched.
set -u
exec < /dev/null
sleep $(( RANDOM % 25 ))   # stagger parallel starts
NAME=$1; PROP=$2; TIER=${3:-quick}
R=/tmp/evr-$NAME-$$; H=/tmp/evh-$NAME-$$; E=/verif/seeded/$NAME; EV=${EVALDIR:-eval}
git -C /repo worktree remove --force $R >/dev/null 2>&1; rm -rf $R $H
git -C /repo worktree add -q --detach $R HEAD || exit 2
( cd $R && (git apply $E/patch.diff || git apply -3 $E/patch.diff || patch -p1 -F3 -s < $E/patch.diff) ) || { echo "patch does not apply"; exit 2; }
mkdir -p $H $E/$EV
rsync -a --exclude target ${VERIF_SNAP:-/verif}/harness/ $H/
grep -rl "/repo/" $H --include=Cargo.toml --include=*.rs --include=config.toml | xargs sed -i "s|/repo/|$R/|g"
cp $R/Cargo.lock $H/Cargo.lock 2>/dev/null
cd ${VERIF_SNAP:-/verif}
for attempt in 1 2 3; do
  VERIF_REPO=$R VERIF_HARNESS=$H VERIF_EVID=$E/$EV VERIF_REPLAYS=$E/$EV timeout 3000 ./bin/check $PROP --tier $TIER > $E/$EV/check-$PROP-$TIER.out 2>&1
  RC=$?
  if [ $RC -eq 2 ] && grep -q "failed to run .rustc. to learn" $E/$EV/check-$PROP-$TIER.out; then sleep 15; continue; fi
  break
done
V=$(grep -c "^VIOLATION" $E/$EV/check-$PROP-$TIER.out)
echo "{\"seed\":\"$NAME\",\"check\":\"$PROP\",\"tier\":\"$TIER\",\"rc\":$RC,\"violation_lines\":$V}" | tee $E/$EV/result-$PROP-$TIER.json
git -C /repo worktree remove --force $R >/dev/null 2>&1; rm -rf $R $H
