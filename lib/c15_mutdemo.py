"""Non-vacuity demonstration for C15 (NOT part of the check; run by hand: python3 lib/c15_mutdemo.py [M1 M2 ..]).

Copies /repo (sources only) and the harness to scratch, applies one mutation of
bindgen/lib.rs::format_tokens / Bindings::write at a time, builds bvdrive against the mutated copy and
runs the scripted-children binding of lib/checks/c15.py (named scenarios + 100 sampled scripts, small
and multi-megabyte header). Expected: M0 no violation; every other mutant is reported
(M2/M3 as write-hang on the big header only, as MC_Formatter_noThread*.cfg predict). ~25 min."""
import collections, json, os, random, shutil, subprocess, sys, time
sys.path.insert(0, os.path.dirname(os.path.abspath(__file__)))
sys.path.insert(0, os.path.join(os.path.dirname(os.path.abspath(__file__)), "checks"))
import common as C
import c15

X = os.path.join(C.WORK, "c15-mut")


def setup():
    if os.path.exists(os.path.join(X, "verif", "harness", "Cargo.toml")):
        return
    shutil.rmtree(X, ignore_errors=True)
    shutil.copytree(C.REPO, os.path.join(X, "repo"), symlinks=True,
                    ignore=lambda d, names: [n for n in names if (d == C.REPO and n in ("target", "book", ".git"))
                                             or n == "expectations"])
    shutil.copytree(C.HARNESS, os.path.join(X, "verif", "harness"), symlinks=True,
                    ignore=lambda d, names: [n for n in names if d == C.HARNESS and n == "target"])


setup()
LIB = X + "/repo/bindgen/lib.rs"
ORIG = open("/repo/bindgen/lib.rs").read()
def swap_wait_and_drain(src):
    """`child.wait()` (with its hook event) before the io::copy that drains stdout (with its hook event)."""
    a = src.index("        let mut output = vec![];\n        io::copy(&mut child_stdout")
    b = src.index("        let status = child.wait()?;")
    c = src.index("        let source = stdin_handle.join()")
    assert a < b < c
    return src[:a] + src[b:c] + src[a:b] + src[c:]


MUTANTS = {
 "M0-unchanged": [],
 "M1-exit1-accepted": [("Some(0) => Ok(bindings),", "Some(0) | Some(1) => Ok(bindings),")],
 "M2-no-writer-thread": [("""        let stdin_handle = ::std::thread::spawn(move || {
            let _ = child_stdin.write_all(source.as_bytes());
            source
        });""", """        let _ = child_stdin.write_all(source.as_bytes());
        drop(child_stdin);
        let stdin_handle = ::std::thread::spawn(move || source);""")],
 "M3-wait-before-drain": [swap_wait_and_drain],
 "M4-fallback-writes-nothing": [("                writer.write_all(self.module.to_string().as_bytes())?;\n", "")],
 "M5-writer-unwraps-epipe": [("let _ = child_stdin.write_all(source.as_bytes());", "child_stdin.write_all(source.as_bytes()).expect(\"write to rustfmt\");")],
 "M6-error-propagated": [("""            Err(err) => {
                eprintln!(""", """            Err(err) => {
                return Err(err);
                #[allow(unreachable_code)]
                eprintln!(""")],
 "M7-invalid-utf8-lossy": [("            _ => Ok(source),\n", "            Err(e) => Ok(String::from_utf8_lossy(e.as_bytes()).into_owned()),\n")],
}
only = [a for a in sys.argv[1:] if a != "--clean"]
tier = "quick"
res0 = C.Result("C15", tier, "model_checking")
pred_all = c15.predictions(res0, tier)
rnd = random.Random(7)
scen = set(tuple(s[1]) for s in c15.SCENARIOS)
enum = sorted(set(k[0] for k in pred_all if k[1] == "ok") - scen)
keep = scen | set(rnd.sample(enum, 100))
pred = {k: v for k, v in pred_all.items() if k[1] != "ok" or k[0] in keep}
for name, edits in MUTANTS.items():
    if only and name.split("-")[0] not in only:
        continue
    src = ORIG
    for e in edits:
        if callable(e):
            src = e(src)
            continue
        a, b = e
        assert src.count(a) == 1, (name, a)
        src = src.replace(a, b)
    open(LIB, "w").write(src)
    t0 = time.time()
    p = subprocess.run(["cargo", "build", "--offline", "-q", "-p", "bvdrive", "--bin", "bvdrive"], cwd=X + "/verif/harness",
                       stdout=subprocess.PIPE, stderr=subprocess.STDOUT, text=True)
    if p.returncode != 0:
        print(name, "BUILD FAILED", p.stdout[-1500:]); continue
    C.BVDRIVE = X + "/verif/harness/target/debug/bvdrive"
    res = C.Result("C15", tier, "model_checking")
    res.known = []
    tally = c15.Tally(res)
    tracer = c15.Tracer("mut-trace")
    c15.scripted(res, tier, pred, tally, tracer)
    c15.validate_trace(res, tracer, tally)
    tally.flush()
    kinds = collections.Counter(k.split(":")[0] for k, _ in res.violations)
    ex = {}
    for k, d in res.violations:
        ex.setdefault(k.split(":")[0], k)
    print("%-28s build+run %4.0fs runs=%d violations=%d %s drift=%s" % (name, time.time() - t0, tally.runs, len(res.violations), dict(kinds), res.drift[:3]))
    for kind, k in ex.items():
        print("      e.g.", k)
    sys.stdout.flush()
open(LIB, "w").write(ORIG)
if "--clean" in sys.argv:
    shutil.rmtree(X, ignore_errors=True)
