"""Token-protocol renderer shared by C04 and C16.

TLC (spec/back/Gen_Funcs.tla, Gen_Statics.tla) generates libraries of C declarations together with
the predicted Rust side and the predicted checksums.  This module owns only what the specification
does not speak about: the C text of every type id, the concrete boundary values behind the token
indices, and the plumbing (header, C definitions, Rust caller, build, run).  The Rust types, the
number of tokens and the structure of function-pointer types come from the TYPES table printed by
the specification itself.
"""
import json
import os
import re
import subprocess

import common as C

BASE = 7  # digit 6 = "value not recognised"

# ---------------------------------------------------------------------------------------------
# C text of the universe (ids must match spec/back/FFITypes.tla; checked against the TYPES table)
# ---------------------------------------------------------------------------------------------
C_SCALAR = {"bool": "_Bool", "char": "char", "schar": "signed char", "uchar": "unsigned char",
            "short": "short", "ushort": "unsigned short", "int": "int", "uint": "unsigned int",
            "long": "long", "ulong": "unsigned long", "llong": "long long", "ullong": "unsigned long long",
            "float": "float", "double": "double"}
INT_BITS = {"char": 8, "schar": 8, "uchar": 8, "short": 16, "ushort": 16, "int": 32, "uint": 32,
            "long": 64, "ulong": 64, "llong": 64, "ullong": 64}
# scalar behind typedefs and enums (token values are those of the scalar)
UNDER = {"td_int": "int", "td_uchar": "uchar", "td_ullong": "ullong", "td_td_short": "short",
         "uint8_t": "uchar", "int16_t": "short", "uint32_t": "uint", "int64_t": "long",
         "size_t": "ulong", "ptrdiff_t": "long", "uintptr_t": "ulong",
         "int_fast16_t": "long", "uint_fast32_t": "ulong", "int_least16_t": "short", "uint_least8_t": "uchar",
         "intmax_t": "long", "ro_int": "int",
         "E_s": "int", "enum_E_u": "uint", "E_l": "ulong"}
ENUM_TAG = {"E_s", "enum_E_u", "E_l"}

# by-value aggregates: (field name, scalar id, array length or 0); sizes/classes in the name
STRUCTS = {
    "S1": [("a", "char", 0)], "S2": [("a", "short", 0)], "S3": [("a", "char", 3)],
    "S4i": [("a", "int", 0)], "S4f": [("a", "float", 0)], "S7": [("a", "char", 7)],
    "S8i": [("a", "long", 0)], "S8f": [("a", "float", 0), ("b", "float", 0)],
    "S8d": [("a", "double", 0)], "S8m": [("a", "int", 0), ("b", "float", 0)],
    "S9": [("a", "char", 8), ("b", "char", 0)],
    "S12i": [("a", "int", 3)], "S12f": [("a", "float", 3)],
    "struct_S12m": [("a", "int", 0), ("b", "float", 0), ("c", "int", 0)],
    "S15": [("a", "char", 15)], "S16i": [("a", "long", 0), ("b", "long", 0)],
    "S16d": [("a", "double", 0), ("b", "double", 0)], "S16id": [("a", "long", 0), ("b", "double", 0)],
    "S16di": [("a", "double", 0), ("b", "long", 0)], "S16f": [("a", "float", 4)],
    "S16m": [("a", "int", 0), ("b", "float", 0), ("c", "double", 0)],
    "S17": [("a", "char", 17)], "S24i": [("a", "long", 3)], "S24d": [("a", "double", 3)],
    "S32d": [("a", "double", 4)],
    "S32m": [("a", "char", 0), ("b", "double", 0), ("c", "int", 0), ("d", "float", 0), ("e", "long", 0)],
    "S33": [("a", "char", 33)], "S64i": [("a", "long", 8)], "S64d": [("a", "double", 8)],
    "TS16": [("a", "double", 0), ("b", "long", 0)],
}
STRUCT_SIZE = {"S1": 1, "S2": 2, "S3": 3, "S4i": 4, "S4f": 4, "S7": 7, "S8i": 8, "S8f": 8, "S8d": 8, "S8m": 8,
               "S9": 9, "S12i": 12, "S12f": 12, "struct_S12m": 12, "S15": 15, "S16i": 16, "S16d": 16, "S16id": 16,
               "S16di": 16, "S16f": 16, "S16m": 16, "S17": 17, "S24i": 24, "S24d": 24, "S32d": 32, "S32m": 32,
               "S33": 33, "S64i": 64, "S64d": 64, "TS16": 16}
UNIONS = {
    "U4": [("i", "int", 0), ("f", "float", 0), ("c", "char", 4)],
    "union_U8": [("l", "long", 0), ("i", "int", 0), ("c", "char", 8)],
    "U8d": [("d", "double", 0), ("f", "float", 0)],
    "U16": [("l", "long", 2), ("d", "double", 0)],
    "U24": [("d", "double", 3), ("l", "long", 0)],
}
UNION_SIZE = {"U4": 4, "union_U8": 8, "U8d": 8, "U16": 16, "U24": 24}

# declarator templates: {n} = declared name (may be empty for casts / unnamed parameters)
DECL = {
    "p_int": "int *{n}", "pc_int": "const int *{n}", "p_char": "char *{n}", "pc_char": "const char *{n}",
    "p_void": "void *{n}", "pc_void": "const void *{n}", "p_double": "double *{n}",
    "pc_S16i": "const struct S16i *{n}", "p_S33": "struct S33 *{n}", "pp_int": "int **{n}",
    "pc_pc_char": "const char *const *{n}", "p_td_int": "td_int *{n}", "p_ro_int": "ro_int *{n}",
    "a4_int": "int {n}[4]", "ac_char": "const char {n}[]", "a2_S8m": "struct S8m {n}[2]",
    "ac3_double": "const double {n}[3]", "a2x3_int": "int {n}[2][3]",
    # function pointers in the three spellings C has for them: the declarator in place, a pointer to a typedef
    # of the function TYPE (zlib / OpenSSL style), a typedef of the pointer type - all the same type
    "cb_i_i": "int (*{n})(int)", "cb_l_sd": "fnty_l_sd *{n}",
    "cb_v_S16id": "void (*{n})(struct S16id)",
    "cb_S8m_ucpf": "struct S8m (*{n})(unsigned char, const char *, float)",
    "cb_d_v": "fnptr_d_v {n}", "g4_int": "int {n}[4]", "void": "void {n}",
}
# the type a value of an array parameter has inside the callee
DECAY = {"a4_int": "int *{n}", "ac_char": "const char *{n}", "a2_S8m": "struct S8m *{n}",
         "ac3_double": "const double *{n}", "a2x3_int": "int (*{n})[3]"}


def cdecl(tid, name="", const_var=False):
    """C declaration of `name` with type id `tid`."""
    if tid in C_SCALAR:
        s = "%s %s" % (C_SCALAR[tid], name)
    elif tid in ENUM_TAG:
        s = "enum %s %s" % (tid, name)
    elif tid in UNDER or tid == "TS16":
        s = "%s %s" % (tid, name)
    elif tid in STRUCTS:
        s = "struct %s %s" % (tid, name)
    elif tid in UNIONS:
        s = "union %s %s" % (tid, name)
    elif tid in DECL:
        n = name
        if const_var and ("*" in DECL[tid]):
            n = "const " + name
        s = DECL[tid].format(n=n)
        if const_var and "*" not in DECL[tid]:
            s = "const " + s
        return s.rstrip()
    else:
        raise C.ToolError("ffi: unknown type id %r" % tid)
    if const_var:
        s = "const " + s
    return s.rstrip()


def ctype(tid, decay=True):
    """Type name usable in casts / helper signatures (array parameters decayed)."""
    if decay and tid in DECAY:
        return DECAY[tid].format(n="").rstrip()
    return cdecl(tid, "")


def helper_decl(tid, name):
    if tid in DECAY:
        return DECAY[tid].format(n=name)
    return cdecl(tid, name)


def prelude(cross=False):
    """Type definitions of the header (what bindgen and the C side both see)."""
    L = []
    if not cross:
        L += ["#include <stdbool.h>", "#include <stdint.h>", "#include <stddef.h>"]
    L += ["typedef int td_int;", "typedef unsigned char td_uchar;", "typedef unsigned long long td_ullong;",
          "typedef short td_short;", "typedef td_short td_td_short;",
          "enum E_s { E_s_A = -1, E_s_B = 0, E_s_C = 0x7fffffff };",
          "enum enum_E_u { E_u_A = 0, E_u_B = 0xFFFFFFFF };",
          "enum E_l { E_l_A = 0, E_l_B = 0xFFFFFFFFFFFFFFFF };"]
    for sid, fields in STRUCTS.items():
        body = " ".join("%s %s%s;" % (C_SCALAR[t], f, "[%d]" % n if n else "") for f, t, n in fields)
        if sid == "TS16":
            L.append("typedef struct { %s } TS16;" % body)
        else:
            L.append("struct %s { %s };" % (sid, body))
    for uid, fields in UNIONS.items():
        body = " ".join("%s %s%s;" % (C_SCALAR[t], f, "[%d]" % n if n else "") for f, t, n in fields)
        L.append("union %s { %s };" % (uid, body))
    L += ["typedef long fnty_l_sd(short, double);", "typedef double (*fnptr_d_v)(void);", "typedef const int ro_int;"]
    return "\n".join(L) + "\n"


# ---------------------------------------------------------------------------------------------
# token values
# ---------------------------------------------------------------------------------------------
def int_patterns(bits):
    m = (1 << bits) - 1
    return [0, 1, m, 1 << (bits - 1), (1 << (bits - 1)) - 1, 0xA55A5AA5A55A5AA5 & m]


FLT_C = ["0.0f", "1.0f", "-1.0f", "0.5f", "0x1.fffffep+127f", "0x1p-126f"]
FLT_BITS = [0x00000000, 0x3f800000, 0xbf800000, 0x3f000000, 0x7f7fffff, 0x00800000]
DBL_C = ["0.0", "1.0", "-1.0", "0.5", "0x1.fffffffffffffp+1023", "0x1p-1022"]
DBL_BITS = [0, 0x3ff0000000000000, 0xbff0000000000000, 0x3fe0000000000000, 0x7fefffffffffffff,
            0x0010000000000000]


def scalar_of(tid):
    return tid if tid in C_SCALAR else UNDER.get(tid)


def c_scalar_tok(sc, k, cast):
    if sc == "bool":
        return "((%s)%d)" % (cast, k & 1)
    if sc == "float":
        return FLT_C[k]
    if sc == "double":
        return DBL_C[k]
    return "((%s)0x%xULL)" % (cast, int_patterns(INT_BITS[sc])[k])


def rs_scalar_tok(sc, k, rust):
    if sc == "bool":
        return "true" if k & 1 else "false"
    if sc == "float":
        return "f32::from_bits(0x%xu32)" % FLT_BITS[k]
    if sc == "double":
        return "f64::from_bits(0x%xu64)" % DBL_BITS[k]
    b = INT_BITS[sc]
    return "(0x%xu%d as %s)" % (int_patterns(b)[k], b, rust)


RS_FIELD = {"char": "c_char", "short": "c_short", "int": "c_int", "long": "c_long", "float": "f32",
            "double": "f64", "uchar": "c_uchar"}


class Types:
    """The TYPES table of the specification + the C side of this module."""

    def __init__(self, rows):
        self.rows = {r["id"]: r for r in rows}
        for tid in self.rows:
            if tid != "void":
                cdecl(tid, "x")  # raises ToolError when the renderer does not know a spec type

    def ntok(self, tid):
        return self.rows[tid]["ntok"]

    def rust(self, tid, cn=False):
        return self.rows[tid]["rustcn" if cn else "rust"]

    def kind(self, tid):
        return self.rows[tid]["k"]

    # --- C helpers -----------------------------------------------------------------------------
    def c_helpers(self, tid, out, done):
        """Emit `static T vf_tok_<id>(int k)` and `static int vf_cls_<id>(T v)` (dependencies first)."""
        if tid in done or tid == "void":
            return
        done.add(tid)
        k = self.kind(tid)
        n = self.ntok(tid)
        T = ctype(tid)
        if k == "fp":
            r = self.rows[tid]
            for a in r["args"]:
                self.c_helpers(a, out, done)
            self.c_helpers(r["ret"], out, done)
            return
        sc = scalar_of(tid)
        if sc:
            toks = [c_scalar_tok(sc, i, T) for i in range(n)]
            out.append("static %s vf_tok_%s(int k) { switch (k) { %s default: return %s; } }" % (
                T, tid, " ".join("case %d: return %s;" % (i, t) for i, t in enumerate(toks)), toks[0]))
            out.append("static int vf_cls_%s(%s) { %s return 6; }" % (
                tid, helper_decl(tid, "v"), " ".join("if (v == %s) return %d;" % (t, i) for i, t in enumerate(toks))))
        elif tid in STRUCTS or tid in UNIONS:
            fields = STRUCTS.get(tid) or UNIONS[tid]
            for _, ft, _ in fields:
                self.c_helpers(ft, out, done)
            if tid in STRUCTS:
                sets, cmps, e = [], [], 0
                for f, ft, cnt in fields:
                    for j in range(cnt or 1):
                        acc = "%s[%d]" % (f, j) if cnt else f
                        sets.append("s.%s = vf_tok_%s((k + %d) %% %d);" % (acc, ft, e, self.ntok(ft)))
                        cmps.append("v.%s == e.%s" % (acc, acc))
                        e += 1
                out.append("static %s vf_tok_%s(int k) { %s; memset(&s, 0, sizeof s); %s return s; }" % (
                    T, tid, cdecl(tid, "s"), " ".join(sets)))
                out.append("static int vf_cls_%s(%s) { for (int k = 0; k < 6; k++) { %s = vf_tok_%s(k); if (%s) return k; } return 6; }" % (
                    tid, cdecl(tid, "v"), cdecl(tid, "e"), tid, " && ".join(cmps)))
            else:
                # token k: member (k mod members) carries scalar token k, everything else zero
                cases = []
                for i in range(6):
                    f, ft, cnt = fields[i % len(fields)]
                    if cnt:
                        st = " ".join("s.%s[%d] = vf_tok_%s((%d + %d) %% %d);" % (f, j, ft, i, j, self.ntok(ft)) for j in range(cnt))
                    else:
                        st = "s.%s = vf_tok_%s(%d);" % (f, ft, i % self.ntok(ft))
                    cases.append("case %d: %s break;" % (i, st))
                out.append("static %s vf_tok_%s(int k) { %s; memset(&s, 0, sizeof s); switch (k) { %s } return s; }" % (
                    T, tid, cdecl(tid, "s"), " ".join(cases)))
                out.append("static int vf_cls_%s(%s) { for (int k = 0; k < 6; k++) { %s = vf_tok_%s(k); if (!memcmp(&v, &e, sizeof v)) return k; } return 6; }" % (
                    tid, cdecl(tid, "v"), cdecl(tid, "e"), tid))
        elif k in ("ptr", "arr"):
            out.append("static %s { return k == 0 ? (%s)0 : (%s)(void *)(vf_mem + 8 * (k - 1)); }" % (
                helper_decl(tid, "vf_tok_%s(int k)" % tid), T, T))
            out.append("static int vf_cls_%s(%s) { if (!v) return 0; for (int k = 1; k < 6; k++) if ((const void *)v == (const void *)(vf_mem + 8 * (k - 1))) return k; return 6; }" % (
                tid, helper_decl(tid, "v")))
        elif k == "garr":
            pass
        else:
            raise C.ToolError("ffi: no C helper for %s (%s)" % (tid, k))

    # --- Rust helpers --------------------------------------------------------------------------
    def rs_helpers(self, tid, out, done, cn):
        if tid in done or tid == "void":
            return
        done.add(tid)
        k = self.kind(tid)
        n = self.ntok(tid)
        R = self.rust(tid, cn)
        if k == "fp":
            r = self.rows[tid]
            for a in r["args"]:
                self.rs_helpers(a, out, done, cn)
            self.rs_helpers(r["ret"], out, done, cn)
            args = ", ".join("a%d: %s" % (i, self.rust(a, cn)) for i, a in enumerate(r["args"]))
            code = " + ".join("vf_cls_%s(a%d) * %d" % (a, i, BASE ** i) for i, a in enumerate(r["args"])) or "0"
            ret = "" if r["ret"] == "void" else " -> %s" % self.rust(r["ret"], cn)
            body = "" if r["ret"] == "void" else "vf_tok_%s(VF_CB_TOK)" % r["ret"]
            out.append("unsafe extern \"C\" fn vf_cb_%s(%s)%s { VF_CB_CODE = %s; VF_CB_CALLS += 1; %s }" % (tid, args, ret, code, body))
            return
        sc = scalar_of(tid)
        if sc:
            toks = [rs_scalar_tok(sc, i, R) for i in range(n)]
            out.append("unsafe fn vf_tok_%s(k: i32) -> %s { match k { %s _ => %s } }" % (
                tid, R, " ".join("%d => %s," % (i, t) for i, t in enumerate(toks)), toks[0]))
            out.append("unsafe fn vf_cls_%s(v: %s) -> i32 { %s 6 }" % (
                tid, R, " ".join("if v == %s { return %d; }" % (t, i) for i, t in enumerate(toks))))
        elif tid in STRUCTS or tid in UNIONS:
            fields = STRUCTS.get(tid) or UNIONS[tid]
            for _, ft, _ in fields:
                self.rs_helpers(ft, out, done, cn)
            if tid in STRUCTS:
                sets, cmps, e = [], [], 0
                for f, ft, cnt in fields:
                    for j in range(cnt or 1):
                        acc = "%s[%d]" % (f, j) if cnt else f
                        sets.append("s.%s = vf_tok_%s((k + %d) %% %d);" % (acc, ft, e, self.ntok(ft)))
                        cmps.append("v.%s == e.%s" % (acc, acc))
                        e += 1
                out.append("unsafe fn vf_tok_%s(k: i32) -> %s { let mut s: %s = core::mem::zeroed(); %s s }" % (tid, R, R, " ".join(sets)))
                out.append("unsafe fn vf_cls_%s(v: %s) -> i32 { for k in 0..6 { let e = vf_tok_%s(k); if %s { return k; } } 6 }" % (
                    tid, R, tid, " && ".join(cmps)))
            else:
                size = UNION_SIZE[tid]
                cases = []
                for i in range(6):
                    f, ft, cnt = fields[i % len(fields)]
                    if cnt:
                        st = " ".join("s.%s[%d] = vf_tok_%s((%d + %d) %% %d);" % (f, j, ft, i, j, self.ntok(ft)) for j in range(cnt))
                    else:
                        st = "s.%s = vf_tok_%s(%d);" % (f, ft, i % self.ntok(ft))
                    cases.append("%d => { %s }" % (i, st))
                out.append("unsafe fn vf_tok_%s(k: i32) -> %s { let mut s: %s = core::mem::zeroed(); match k { %s _ => {} } s }" % (
                    tid, R, R, " ".join(cases)))
                out.append("unsafe fn vf_cls_%s(v: %s) -> i32 { for k in 0..6 { let e = vf_tok_%s(k); "
                           "if core::mem::transmute::<%s, [u8; %d]>(v) == core::mem::transmute::<%s, [u8; %d]>(e) { return k; } } 6 }" % (
                               tid, R, tid, R, size, R, size))
        elif k in ("ptr", "arr"):
            out.append("unsafe fn vf_tok_%s(k: i32) -> %s { if k == 0 { 0usize as %s } else { (core::ptr::addr_of_mut!(vf_mem) as *mut u8).add(8 * (k as usize - 1)) as %s } }" % (tid, R, R, R))
            out.append("unsafe fn vf_cls_%s(v: %s) -> i32 { if v.is_null() { return 0; } for k in 1..6 { if v as usize == (core::ptr::addr_of_mut!(vf_mem) as *mut u8).add(8 * (k as usize - 1)) as usize { return k; } } 6 }" % (tid, R))
        elif k == "garr":
            pass
        else:
            raise C.ToolError("ffi: no Rust helper for %s (%s)" % (tid, k))


C_RUNTIME = r"""
#include <string.h>
#include <stdarg.h>
#include <unistd.h>
#include <sys/wait.h>
char vf_mem[64];
int vf_last = -1;
int vf_take(void) { int c = vf_last; vf_last = -1; return c; }
static int vf_nr_fd = -1;
static void vf_nr_report(int code) { if (write(vf_nr_fd, &code, sizeof code) < 0) _exit(3); _exit(0); }
int vf_fork_call(void (*thunk)(void)) {
  int fds[2], code = -2, st; pid_t p;
  if (pipe(fds)) return -3;
  p = fork();
  if (p < 0) return -4;
  if (p == 0) { close(fds[0]); vf_nr_fd = fds[1]; thunk(); _exit(9); }
  close(fds[1]);
  if (read(fds[0], &code, sizeof code) != sizeof code) code = -5;
  close(fds[0]); waitpid(p, &st, 0);
  return code;
}
"""


def _param_names(f):
    return ["a%d" % i for i in range(len(f["args"]))]


def proto(f, name, types, attr=True, unnamed=False, asm=None):
    """C prototype of function record f under `name`."""
    ps = [cdecl(t, "" if unnamed else n) for t, n in zip(f["args"], _param_names(f))]
    if f["kind"] == "variadic":
        ps.append("...")
    pre = ""
    if attr:
        if f["kind"] == "msabi":
            pre = "__attribute__((ms_abi)) "
        elif f["kind"] == "vectorcall":
            pre = "__attribute__((vectorcall)) "
        elif f["kind"] == "noreturn":
            pre = "__attribute__((noreturn)) "
    s = "%s%s(%s)" % (pre, cdecl(f["ret"], name), ", ".join(ps) or "void")
    if asm:
        s += ' __asm__("%s")' % asm
    return s


def c_body(f, types, swap=False):
    """Body of the definition: classify the arguments, record the checksum, return the token."""
    L = ["int code = 0;"]
    names = _param_names(f)
    order = list(range(len(names)))
    if swap and len(order) >= 2:
        order[0], order[1] = order[1], order[0]       # tamper switch: non-vacuity demonstration
    for pos, i in enumerate(order):
        t = f["args"][i]
        w = BASE ** (pos % 8)
        if types.kind(t) == "fp":
            r = types.rows[t]
            k = f["toks"][i]
            cbargs = ", ".join("vf_tok_%s(%d)" % (a, (k + j + 1) % types.ntok(a)) for j, a in enumerate(r["args"]))
            if r["ret"] == "void":
                L.append("if (%s) { %s(%s); code += 1 * %d; }" % (names[i], names[i], cbargs, w))
            else:
                L.append("if (%s) { code += vf_cls_%s(%s(%s)) * %d; }" % (names[i], r["ret"], names[i], cbargs, w))
        else:
            L.append("code += vf_cls_%s(%s) * %d;" % (t, names[i], w))
    if f["kind"] == "variadic":
        L.append("{ va_list ap; va_start(ap, %s);" % names[-1])
        for j, t in enumerate(f["va"]):
            L.append("code += vf_cls_%s(va_arg(ap, %s)) * %d;" % (t, ctype(t), BASE ** ((len(names) + j) % 8)))
        L.append("va_end(ap); }")
    if f["kind"] == "noreturn":
        L.append("vf_nr_report(code);")
    else:
        L.append("vf_last = code;")
        if f["ret"] != "void":
            L.append("return vf_tok_%s(%d);" % (f["ret"], f["rtok"]))
    return "{ " + " ".join(L) + " }"


class Library:
    """One TLC behaviour (or a merge of single-declaration behaviours with equal options)."""

    def __init__(self, rec, types, name):
        self.opt = rec["opt"]
        self.fns = rec["fns"]
        self.types = types
        self.name = name

    # --- header --------------------------------------------------------------------------------
    def header(self, for_c=False):
        L = ["#pragma once", prelude()]
        tail = []
        for f in self.fns:
            asm = None
            if for_c and f["csym"] != f["cname"]:
                asm = f["csym"]            # the library is built with exactly the symbol the spec names
            elif f["shape"] in ("asm", "asmu"):
                asm = f["csym"]
            if f["kind"] == "gvar":
                d = "extern " + cdecl(f["ty"], f["cname"], const_var=f["const"])
                if asm:
                    d += ' __asm__("%s")' % asm
                L.append(d + ";")
                continue
            if f["kind"] == "static":
                L.append("static %s { %s }" % (proto(f, f["cname"], self.types), self._trivial_return(f)))
                continue
            if f["kind"] == "inline":
                if asm:
                    L.append(proto(f, f["cname"], self.types, asm=asm) + ";")
                L.append(proto(f, "vfb_" + f["cname"], self.types) + ";")
                call = "vfb_%s(%s)" % (f["cname"], ", ".join(_param_names(f)))
                L.append("inline %s { %s%s; }" % (proto(f, f["cname"], self.types),
                                                  "" if f["ret"] == "void" else "return ", call))
                continue
            L.append(proto(f, f["cname"], self.types, asm=asm) + ";")
            if f.get("redecl"):
                tail.append(proto(f, f["cname"], self.types, asm=asm) + ";")
        return "\n".join(L + tail) + "\n"

    def _trivial_return(self, f):
        if f["ret"] == "void":
            return ""
        return "%s = {0}; return r;" % cdecl(f["ret"], "r")

    # --- C definitions -------------------------------------------------------------------------
    def c_source(self, header_name, tamper=None):
        out, done = [], set()
        for f in self.fns:
            for t in ([f["ty"]] if f["kind"] == "gvar" else f["args"] + f.get("va", []) + [f["ret"]]):
                self.types.c_helpers(t, out, done)
        L = ['#include "%s"' % header_name, C_RUNTIME] + out
        for f in self.fns:
            if f["kind"] == "gvar":
                L.append(self._c_global(f))
            elif f["kind"] in ("static", "vectorcall"):
                if f["kind"] == "vectorcall":
                    L.append("%s { %s }" % (proto(f, f["cname"], self.types), self._trivial_return(f)))
            elif f["kind"] == "inline":
                L.append("extern %s;" % proto(f, f["cname"], self.types))
                L.append("%s %s" % (proto(f, "vfb_" + f["cname"], self.types), c_body(f, self.types)))
            else:
                L.append("%s %s" % (proto(f, f["cname"], self.types),
                                    c_body(f, self.types, swap=(tamper == "swapargs"))))
        return "\n".join(L) + "\n"

    def _c_global(self, f):
        t, n = f["ty"], f["cname"]
        k = self.types.kind(t)
        i = f["i"]
        if k == "garr":
            init = "{ %s }" % ", ".join("vf_tok_int(%d)" % ((f["tok"] + e) % 6) for e in range(4))
            init = "{ %s }" % ", ".join(c_scalar_tok("int", (f["tok"] + e) % 6, "int") for e in range(4))
            cls = ("for (int k = 0; k < 6; k++) { int ok = 1; for (int e = 0; e < 4; e++) "
                   "if (%s[e] != vf_tok_int((k + e) %% 6)) ok = 0; if (ok) return k; } return 6;" % n)
            dep = []
            self.types.c_helpers("int", dep, set())
        elif k == "fp":
            init = "vf_gcb_%d" % i if f["tok"] else "0"
            r = self.types.rows[t]
            ps = ", ".join(cdecl(a, "p%d" % j) for j, a in enumerate(r["args"])) or "void"
            ret = "" if r["ret"] == "void" else "return vf_tok_%s(1);" % r["ret"]
            pre = "static %s(%s) { %s }\n" % (cdecl(r["ret"], "vf_gcb_%d" % i), ps, ret)
            cls = "return %s == 0 ? 0 : 1;" % n
            return pre + "%s = %s;\nint vf_clsg_%d(void) { %s }" % (cdecl(t, n, const_var=f["const"]), init, i, cls)
        elif t in STRUCTS or t in UNIONS:
            # static initialiser: spelled out field by field
            init = self._static_agg_init(t, f["tok"])
            cls = "return vf_cls_%s(%s);" % (t, n)
        elif k in ("ptr",):
            init = "0" if f["tok"] == 0 else "(%s)(void *)(vf_mem + %d)" % (ctype(t), 8 * (f["tok"] - 1))
            cls = "return vf_cls_%s(%s);" % (t, n)
        else:
            init = c_scalar_tok(scalar_of(t), f["tok"], ctype(t))
            cls = "return vf_cls_%s(%s);" % (t, n)
        return "%s = %s;\nint vf_clsg_%d(void) { %s }" % (cdecl(t, n, const_var=f["const"]), init, i, cls)

    def _static_agg_init(self, t, k):
        if t in STRUCTS:
            parts, e = [], 0
            for f, ft, cnt in STRUCTS[t]:
                vals = []
                for j in range(cnt or 1):
                    vals.append(c_scalar_tok(ft, (k + e) % self.types.ntok(ft), C_SCALAR[ft]))
                    e += 1
                parts.append(".%s = %s" % (f, "{ %s }" % ", ".join(vals) if cnt else vals[0]))
            return "{ %s }" % ", ".join(parts)
        fields = UNIONS[t]
        f, ft, cnt = fields[k % len(fields)]
        if cnt:
            return "{ .%s = { %s } }" % (f, ", ".join(c_scalar_tok(ft, (k + j) % self.types.ntok(ft), C_SCALAR[ft]) for j in range(cnt)))
        return "{ .%s = %s }" % (f, c_scalar_tok(ft, k % self.types.ntok(ft), C_SCALAR[ft]))

    # --- bindgen flags -------------------------------------------------------------------------
    def flags(self):
        fl = []
        o = self.opt
        if o["merge"]:
            fl.append("--merge-extern-blocks")
        if o["sort"]:
            fl.append("--sort-semantically")
        if o["cnaming"]:
            fl.append("--c-naming")
        if o["inl"]:
            fl.append("--generate-inline-functions")
        if o["plink"]:
            fl += ["--prefix-link-name", "q_"]
        if o.get("distrust"):
            fl.append("--distrust-clang-mangling")
        ov = [f["name"] for f in self.fns if f.get("abiov")]
        if ov:
            fl.append("--override-abi=%s=%s" % ("|".join(re.escape(n) for n in ov), o["abiov"]))
        return fl

    def callbacks(self):
        return "remove-function-prefix-zz_" if self.opt["rename"] else None

    # --- Rust caller ---------------------------------------------------------------------------
    def rust_main(self, bindings_path, present, statics):
        """`present`: {index: rust identifier to call} for the declarations that have a binding."""
        cn = self.opt["cnaming"]
        T = self.types
        out, done = [], set()
        for f in self.fns:
            if f["i"] not in present:
                continue
            for t in ([f["ty"]] if f["kind"] == "gvar" else f["args"] + f.get("va", []) + [f["ret"]]):
                T.rs_helpers(t, out, done, cn)
        L = ["#![allow(warnings)]", "use std::os::raw::*;",
             "pub mod b { include!(%s); }" % json.dumps(bindings_path), "use b::*;",
             'extern "C" { static mut vf_mem: [u8; 64]; fn vf_take() -> c_int; fn vf_fork_call(f: unsafe extern "C" fn()) -> c_int;']
        for f in self.fns:
            if f["kind"] == "gvar" and f["i"] in present:
                L.append("fn vf_clsg_%d() -> c_int;" % f["i"])
        L.append("}")
        L += ["static mut VF_CB_TOK: i32 = 0;", "static mut VF_CB_CODE: i32 = -1;", "static mut VF_CB_CALLS: i32 = 0;"]
        L += out
        lines = {}            # 1-based line number -> declaration index (to attribute rustc errors)
        body = []
        for f in self.fns:
            i = f["i"]
            if i not in present:
                continue
            ident = present[i]
            p = f["pred"]
            if f["kind"] == "gvar":
                body.append((i, self._rs_global(f, ident, cn, statics.get(i, {}))))
                continue
            args = []
            pre = ["VF_CB_CODE = -1; VF_CB_CALLS = 0;"]
            for t, k in zip(f["args"], f["toks"]):
                if T.kind(t) == "fp":
                    pre.append("VF_CB_TOK = %d;" % k)
                    args.append("Some(vf_cb_%s)" % t if k else "None")
                else:
                    args.append("vf_tok_%s(%d)" % (t, k))
            for t, k in zip(f.get("va", []), f.get("vatoks", [])):
                args.append("vf_tok_%s(%d)" % (t, k))
            sig = p["sig"]
            call = "fp(%s)" % ", ".join(args)
            if f["kind"] == "noreturn":
                L.append("unsafe extern \"C\" fn vf_thunk_%d() { let fp: %s = b::%s; %s %s; }" % (i, sig, ident, " ".join(pre), call))
                lines[len(L)] = i
                body.append((i, "{ let code = vf_fork_call(vf_thunk_%d); println!(\"F %d {} -1 -1\", code); }" % (i, i)))
            else:
                rcls = "-1" if f["ret"] == "void" else "vf_cls_%s(r)" % f["ret"]
                body.append((i, "{ let fp: %s = b::%s; %s let r = %s; let code = vf_take(); println!(\"F %d {} {} {}\", code, %s, VF_CB_CODE); }" % (
                    sig, ident, " ".join(pre), call, i, rcls)))
        # one small function per declaration: rustc is super-linear in the size of a function body
        for i, text in body:
            L.append("#[inline(never)] unsafe fn vf_call_%d() %s" % (i, text))
            lines[len(L)] = i
        L.append("fn main() { unsafe {")
        for i, _ in body:
            L.append("vf_call_%d();" % i)
        L.append("} }")
        return "\n".join(L) + "\n", lines

    def _rs_global(self, f, ident, cn, st):
        T = self.types
        t, i = f["ty"], f["i"]
        R = f["pred"]["rustty"]
        k = T.kind(t)
        is_mut = st.get("mut", not f["const"])
        rd = "core::ptr::addr_of!(b::%s)" % ident
        L = ["{ let p: *const %s = %s;" % (R, rd)]
        if k == "garr":
            L.append("let v = *p; let mut c = 6; for k in 0..6 { let mut ok = true; for e in 0..4 { if v[e] != vf_tok_int((k + e as i32) % 6) { ok = false; } } if ok { c = k; break; } }")
            wr = "let mut w = [0 as c_int; 4]; for e in 0..4 { w[e] = vf_tok_int((%d + e as i32) %% 6); }" % f["tok2"]
        elif k == "fp":
            L.append("let v = *p; let c = if v.is_none() { 0 } else { 1 };")
            wr = "let w: %s = %s;" % (R, "Some(vf_cb_%s)" % t if f["tok2"] else "None")
        else:
            L.append("let c = vf_cls_%s(*p);" % t)
            wr = "let w = vf_tok_%s(%d);" % (t, f["tok2"])
        if is_mut:
            L.append("%s *core::ptr::addr_of_mut!(b::%s) = w; let c2 = vf_clsg_%d();" % (wr, ident, i))
        else:
            L.append("let c2 = -1;")
        L.append("println!(\"G %d {} {}\", c, c2); }" % i)
        return " ".join(L)


# ---------------------------------------------------------------------------------------------
# tools
# ---------------------------------------------------------------------------------------------
def run(cmd, cwd=None, timeout=600, env=None):
    try:
        p = subprocess.run(cmd, cwd=cwd, stdout=subprocess.PIPE, stderr=subprocess.PIPE, text=True,
                           timeout=timeout, errors="replace", env=env)
    except subprocess.TimeoutExpired:
        return 124, "", "timeout"
    except FileNotFoundError as e:
        raise C.ToolError("cannot run %s: %s" % (cmd[0], e))
    return p.returncode, p.stdout, p.stderr


def nm_symbols(path, tool="nm"):
    """(defined {name: type letter}, undefined set) of an object file."""
    rc, out, err = run([tool, "-P", path] if tool == "nm" else [tool, "--format=posix", path])
    if rc != 0:
        raise C.ToolError("%s failed on %s: %s" % (tool, path, err[:300]))
    defined, undef = {}, set()
    for line in out.splitlines():
        parts = line.split()
        if len(parts) < 2:
            continue
        name, ty = parts[0], parts[1]
        if ty == "U":
            undef.add(name)
        else:
            defined[name] = ty          # lower case = local symbol (not linkable)
    return defined, undef


LINK_RE = re.compile(r'link_name\s*=\s*"((?:[^"\\]|\\.)*)"')


def parse_link(attrs):
    """#[link_name = ...] of an inventory item -> {"kind","name"}."""
    for a in attrs:
        m = LINK_RE.search(a)
        if m:
            s = m.group(1)
            s = s.replace("\\u{1}", "\x01").replace("\\\\", "\\")
            if s.startswith("\x01"):
                return {"kind": "verbatim", "name": s[1:]}
            return {"kind": "mangled", "name": s}
    return {"kind": "none", "name": ""}


def foreign_items(inv):
    """[{kind: fn|static, ident, link, abi, mut, tokens}] from a syn inventory."""
    out = []
    for it in inv.get("items", []):
        if it.get("kind") == "foreign_fn":
            out.append({"kind": "fn", "ident": it["name"], "link": parse_link(it.get("attrs", [])),
                        "abi": it.get("abi", ""), "mod": it.get("mod", ""), "tokens": it.get("tokens", "")})
        elif it.get("kind") == "foreign_static":
            out.append({"kind": "static", "ident": it["name"], "link": parse_link(it.get("attrs", [])),
                        "abi": it.get("abi", ""), "mod": it.get("mod", ""), "tokens": it.get("tokens", ""),
                        "mut": bool(re.search(r"\bstatic\s+mut\b", it.get("tokens", "")))})
    return out


def chars(s):
    return list(s)


class Counts(dict):
    """dict of counters safe to bump from worker threads."""

    def __init__(self, *a, **kw):
        import threading
        super().__init__(*a, **kw)
        self._lock = threading.Lock()

    def inc(self, key, n=1):
        with self._lock:
            self[key] = self.get(key, 0) + n
