"""Renderer of Gen_Statics.tla behaviours (C16): headers with static / static inline functions whose
bodies implement the token protocol of lib/ffi.py, the helper translation unit, the direct-call
translation unit and the Rust caller that goes through the generated wrappers."""
import json
import os
import re

import common as C
import ffi
from ffi import BASE, cdecl, ctype


def fixed_names(f):
    return ["a%d" % i for i in range(len(f["args"]))]


def params(f, named=True):
    """[(declaration text, call expression)] in header order (va_list parameters inserted)."""
    ps = [(cdecl(t, n if named else ""), n) for t, n in zip(f["args"], fixed_names(f))]
    nv = f["nvalist"]
    if nv == 1:
        ps.insert(f["vapos"], ("va_list ap" if named else "va_list", "ap"))
    elif nv == 2:
        ps += [("va_list ap" if named else "va_list", "ap"), ("va_list ap2" if named else "va_list", "ap2")]
    return ps


def proto(f, name=None, named=True):
    ps = [p for p, _ in params(f, named)]
    if f["kind"] == "variadic_static":
        ps.append("...")
    return "%s(%s)" % (cdecl(f["ret"], name or f["cname"]), ", ".join(ps) or "void")


def body(f, types):
    L = ["int code = 0;"]
    names = fixed_names(f)
    for i, t in enumerate(f["args"]):
        w = BASE ** (i % 8)
        if types.kind(t) == "fp":
            r = types.rows[t]
            k = f["toks"][i]
            cbargs = ", ".join("vf_tok_%s(%d)" % (a, (k + j + 1) % types.ntok(a)) for j, a in enumerate(r["args"]))
            if r["ret"] == "void":
                L.append("if (%s) { %s(%s); code += 1 * %d; }" % (names[i], names[i], cbargs, w))
            else:
                L.append("if (%s) { code += vf_cls_%s(%s(%s)) * %d; }" % (names[i], r["ret"], names[i], cbargs, w))
        else:
            L.append("code += vf_cls_%s(%s) * %d;" % (t, names[i], w))
    reads = ["code += vf_cls_%s(va_arg(ap, %s)) * %d;" % (t, ctype(t), BASE ** ((len(names) + j) % 8))
             for j, t in enumerate(f["va"])]
    if f["kind"] == "variadic_static":
        L.append("{ va_list ap; va_start(ap, %s); %s va_end(ap); }" % (names[-1], " ".join(reads)))
    elif f["kind"] == "valist1":
        L += reads
    L.append("vf_last = code;")
    if f["ret"] != "void":
        L.append("return vf_tok_%s(%d);" % (f["ret"], f["rtok"]))
    return "{ " + " ".join(L) + " }"


class StaticsLib:
    def __init__(self, rec, types, name, d):
        self.opt, self.fns, self.file = rec["opt"], rec["fns"], rec["file"]
        self.types, self.name, self.dir = types, name, d
        self.cxx = self.opt["lang"] == "cxx"
        self.ext = ".hpp" if self.cxx else ".h"
        self.suffix = self.file["suffix"]
        self.wrap_path = os.path.join(d, name + "_wrap")

    # --- helper prototypes / definitions -------------------------------------------------------
    def _helpers(self):
        out, done = [], set()
        for f in self.fns:
            for t in f["args"] + f["va"] + [f["ret"]]:
                self.types.c_helpers(t, out, done)
        return [h[len("static "):] if h.startswith("static ") else h for h in out]

    def _helper_protos(self):
        return [h[:h.index(" {")] + ";" for h in self._helpers()]

    def _fn_text(self, f):
        k = f["kind"]
        L = []
        if k in ("static", "static_inline", "variadic_static", "valist1", "valist2", "valist_only"):
            q = "static inline " if k == "static_inline" else "static "
            if f["unnamed"]:
                L.append(q + proto(f, named=False) + ";")
            L.append(q + proto(f) + " " + body(f, self.types))
        elif k == "extern":
            L.append(proto(f) + ";")
        elif k == "inline_extern":
            ret = "" if f["ret"] == "void" else "%s = {0}; return r;" % cdecl(f["ret"], "r")
            L.append("inline %s { %s }" % (proto(f), ret))
        return "\n".join(L)

    def headers(self):
        """[(file name, text)] in the order they are given to bindgen."""
        pre = ["#pragma once"]
        if self.opt["stdbool"] and not self.cxx:
            pre.append("#include <stdbool.h>")
        pre += ["#include <stdint.h>", "#include <stddef.h>", "#include <stdarg.h>"]
        pre.append(ffi.prelude(cross=True))
        if self.cxx:
            pre.append('extern "C" {')
        pre += ["extern int vf_last;", "extern char vf_mem[64];"] + self._helper_protos()
        if self.cxx:
            pre.append("}")
        texts = [self._fn_text(f) for f in self.fns]
        if self.opt["input"] == "two":
            h = len(texts) // 2
            a = self.name + "_a" + self.ext
            return [(a, "\n".join(pre + texts[:h]) + "\n"),
                    (self.name + "_b" + self.ext, '#pragma once\n#include "%s"\n%s\n' % (a, "\n".join(texts[h:])))]
        return [(self.name + self.ext, "\n".join(pre + texts) + "\n")]

    def job(self):
        hs = self.headers()
        j = {"id": self.name, "path": self.wrap_path, "out": os.path.join(self.dir, self.name + ".rs"),
             "log": os.path.join(self.dir, self.name + ".ndjson"),
             "suffix": None if self.opt["suffix"] == "default" else self.suffix,
             "callbacks": (["wrap-as-variadic-fn"] if self.opt["cb"] else []) + (["prefix-link-name-q_"] if self.opt["plink"] else []),
             "clang_args": ["-I" + self.dir] + (["-x", "c++"] if self.cxx else []), "headers": [], "contents": []}
        if self.opt["input"] == "contents":
            j["contents"] = [[os.path.join(self.dir, n), t] for n, t in hs]
        else:
            j["headers"] = [os.path.join(self.dir, n) for n, _ in hs]
        return j

    def includes(self):
        return "".join('#include "%s"\n' % n for n, _ in self.headers())

    # --- translation units ---------------------------------------------------------------------
    def helpers_c(self):
        L = [self.includes(), 'extern "C" {' if self.cxx else "", ffi.C_RUNTIME.replace("char vf_mem[64];", "char vf_mem[64];")]
        L += self._helpers()
        if self.cxx:
            L.append("}")
        for f in self.fns:
            if f["kind"] == "extern":
                L.append(proto(f) + " " + body(f, self.types))
        return "\n".join(L) + "\n"

    def direct_c(self, idx):
        """`void vf_direct_<i>(int *out)`: the same call made directly from C."""
        T = self.types
        L = [self.includes(), "extern int vf_take(void);", "static int vf_ccb_code = -1, vf_ccb_tok = 0;"]
        done = set()
        for i in idx:
            f = self.fns[i]
            for t in f["args"]:
                if T.kind(t) == "fp" and t not in done:
                    done.add(t)
                    r = T.rows[t]
                    ps = ", ".join(cdecl(a, "p%d" % j) for j, a in enumerate(r["args"])) or "void"
                    code = " + ".join("vf_cls_%s(p%d) * %d" % (a, j, BASE ** j) for j, a in enumerate(r["args"])) or "0"
                    ret = "" if r["ret"] == "void" else "return vf_tok_%s(vf_ccb_tok);" % r["ret"]
                    L.append("static %s(%s) { vf_ccb_code = %s; %s }" % (cdecl(r["ret"], "vf_ccb_%s" % t), ps, code, ret))
        for i in idx:
            f = self.fns[i]
            args, pre = {}, []
            for t, k, n in zip(f["args"], f["toks"], fixed_names(f)):
                if T.kind(t) == "fp":
                    pre.append("vf_ccb_tok = %d;" % k)
                    args[n] = "vf_ccb_%s" % t if k else "0"
                else:
                    args[n] = "vf_tok_%s(%d)" % (t, k)
            target = f["cname"]
            if f["kind"] == "valist1":
                fx = ", ".join(cdecl(t, n) for t, n in zip(f["args"], fixed_names(f)))
                inner = ", ".join(n for _, n in params(f))
                call = "%s(%s)" % (f["cname"], inner)
                L.append("static %s(%s, ...) { va_list ap; va_start(ap, %s); %s%s; va_end(ap); %s }" % (
                    cdecl(f["ret"], "vf_dv_%d" % i), fx, fixed_names(f)[-1],
                    "" if f["ret"] == "void" else cdecl(f["ret"], "r") + " = ", call, "" if f["ret"] == "void" else "return r;"))
                target = "vf_dv_%d" % i
                actual = [args[n] for n in fixed_names(f)] + ["vf_tok_%s(%d)" % (t, k) for t, k in zip(f["va"], f["vatoks"])]
            else:
                actual = [args[n] for n in fixed_names(f)]
            call = "%s(%s)" % (target, ", ".join(actual))
            if f["ret"] == "void":
                L.append("void vf_direct_%d(int *out) { vf_ccb_code = -1; %s %s; out[0] = vf_take(); out[1] = -1; out[2] = vf_ccb_code; }" % (i, " ".join(pre), call))
            else:
                L.append("void vf_direct_%d(int *out) { vf_ccb_code = -1; %s %s = %s; out[0] = vf_take(); out[1] = vf_cls_%s(r); out[2] = vf_ccb_code; }" % (
                    i, " ".join(pre), cdecl(f["ret"], "r"), call, f["ret"]))
        return "\n".join(L) + "\n"

    # --- Rust caller ---------------------------------------------------------------------------
    def rust_main(self, bindings_path, call):
        """call: {index: rust identifier} of the bindings to exercise (wrapped or plain)."""
        T = self.types
        out, done = [], set()
        for i in call:
            f = self.fns[i]
            for t in f["args"] + f["va"] + [f["ret"]]:
                T.rs_helpers(t, out, done, False)
        L = ["#![allow(warnings)]", "use std::os::raw::*;",
             "pub mod b { include!(%s); }" % json.dumps(bindings_path), "use b::*;",
             'extern "C" { static mut vf_mem: [u8; 64]; fn vf_take() -> c_int;']
        for i in call:
            L.append("fn vf_direct_%d(out: *mut c_int);" % i)
        L.append("}")
        L += ["static mut VF_CB_TOK: i32 = 0;", "static mut VF_CB_CODE: i32 = -1;", "static mut VF_CB_CALLS: i32 = 0;"]
        L += out
        lines = {}
        for i, ident in sorted(call.items()):
            f = self.fns[i]
            args, pre = [], ["VF_CB_CODE = -1;"]
            for t, k in zip(f["args"], f["toks"]):
                if T.kind(t) == "fp":
                    pre.append("VF_CB_TOK = %d;" % k)
                    args.append("Some(vf_cb_%s)" % t if k else "None")
                else:
                    args.append("vf_tok_%s(%d)" % (t, k))
            if f["pred"].get("asva"):
                args += ["vf_tok_%s(%d)" % (t, k) for t, k in zip(f["va"], f["vatoks"])]
            rcls = "-1" if f["ret"] == "void" else "vf_cls_%s(r)" % f["ret"]
            L.append("#[inline(never)] unsafe fn vf_call_%d() { let fp: %s = b::%s; %s let r = fp(%s); let code = vf_take(); "
                     "println!(\"W %d {} {} {}\", code, %s, VF_CB_CODE); let mut o = [0 as c_int; 3]; vf_direct_%d(o.as_mut_ptr()); "
                     "println!(\"D %d {} {} {}\", o[0], o[1], o[2]); }" % (i, f["pred"]["sig"], ident, " ".join(pre), ", ".join(args), i, rcls, i, i))
            lines[len(L)] = i
        L.append("fn main() { unsafe {")
        L += ["vf_call_%d();" % i for i in sorted(call)]
        L.append("} }")
        return "\n".join(L) + "\n", lines
