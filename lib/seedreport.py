"""Summarise /verif/seeded: which seeded change is confirmed and which check run caught it."""
import glob
import json
import os
import re

ROOT = os.path.join(os.path.dirname(os.path.dirname(os.path.abspath(__file__))), "seeded")
rows = []
for d in sorted(glob.glob(os.path.join(ROOT, "*"))):
    if not os.path.isdir(d):
        continue
    name = os.path.basename(d)
    meta = {}
    try:
        meta = json.load(open(os.path.join(d, "meta.json")))
    except Exception:
        pass
    conf = {}
    try:
        conf = json.load(open(os.path.join(d, "confirm.json")))
    except Exception:
        pass
    evals = []
    for f in sorted(glob.glob(os.path.join(d, "eval*", "result-*.json"))):
        try:
            r = json.load(open(f))
            evals.append("%s/%s/%s: %s" % (os.path.basename(os.path.dirname(f)), r["check"], r["tier"],
                                            "CAUGHT" if r["rc"] == 1 and r["violation_lines"] else ("tool-error" if r["rc"] == 2 else "missed")))
        except Exception:
            pass
    title = (meta.get("title") or meta.get("what_it_breaks") or "")[:90]
    ok = conf and conf.get("demo_unchanged_rc") == 0 and conf.get("demo_changed_rc") not in (0, None) and "690 passed, 3 failed" in conf.get("suite", "")
    rows.append((name, title, "confirmed" if ok else ("unconfirmed:" + json.dumps(conf)[:80] if conf else "not yet confirmed"), "; ".join(evals)))
for r in rows:
    print("| %s | %s | %s | %s |" % r)
