"""Summarise /verif/seeded as the markdown table of DESIGN.md 11.7: which seeded change is confirmed, which
check caught it before (eval/) and after (eval2/) the strengthening, and through which violation key."""
import glob
import json
import os
import re

ROOT = os.path.join(os.path.dirname(os.path.dirname(os.path.abspath(__file__))), "seeded")


def verdict(d, sub, check):
    f = os.path.join(d, sub, "result-%s-quick.json" % check)
    if not os.path.exists(f):
        return None, ""
    r = json.load(open(f))
    out = os.path.join(d, sub, "check-%s-quick.out" % check)
    keys = []
    if os.path.exists(out):
        for m in re.finditer(r"^violation ([^ ]+?):? ", open(out, errors="replace").read(), re.M):
            k = re.sub(r"(tmpl\d+|vec-\d+s?|-o\d+|item=\d+|:\d+$)", "", m.group(1))
            if k not in keys:
                keys.append(k)
    if r["rc"] == 1 and r["violation_lines"]:
        return "caught", ", ".join("`%s`" % k[:70] for k in keys[:2])
    if r["rc"] in (0,):
        return "missed", ""
    return "tool error / interrupted (rc=%s)" % r["rc"], ""


def main():
    print("| seed | what it changes | confirmed | first round (before strengthening) | second round | caught through |")
    print("|---|---|---|---|---|---|")
    for d in sorted(glob.glob(os.path.join(ROOT, "*"))):
        if not os.path.isdir(d):
            continue
        name = os.path.basename(d)
        meta, conf = {}, {}
        for fn, tgt in (("meta.json", meta), ("confirm.json", conf)):
            try:
                tgt.update(json.load(open(os.path.join(d, fn))))
            except Exception:
                pass
        ok = conf and conf.get("applies") == 0 and conf.get("builds") == 0 and conf.get("demo_unchanged_rc") == 0 and \
            conf.get("demo_changed_rc") not in (0, None) and "690 passed, 3 failed" in conf.get("suite", "")
        title = (meta.get("title") or "")[:110].replace("|", "/")
        own = name.split("-")[0]
        checks = sorted({os.path.basename(f).split("-")[1] for f in glob.glob(os.path.join(d, "eval*", "result-*.json"))},
                        key=lambda c: (c != own, c))
        r1, r2, how = [], [], []
        for c in checks:
            v1, k1 = verdict(d, "eval", c)
            v2, k2 = verdict(d, "eval2", c)
            if v1:
                r1.append("%s: %s" % (c, v1))
            if v2:
                r2.append("%s: %s" % (c, v2))
            if k2 or k1:
                how.append("%s %s" % (c, k2 or k1))
        if meta.get("judgement"):
            r2.append("judged " + meta["judgement"])
        print("| %s | %s | %s | %s | %s | %s |" % (name, title, "yes" if ok else "NO " + json.dumps(conf)[:60],
                                                 "; ".join(r1) or "-", "; ".join(r2) or "(not needed)", "; ".join(how)))


if __name__ == "__main__":
    main()
