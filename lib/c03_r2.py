"""R2 / T of check C03: TLC-generated struct/union declarations with bit-fields are rendered to a
header + a C file of per-field setters/getters, run through the hooks-on bindgen CLI, linked into
ONE executable per batch (clang for the C side, rustc for the Rust side) that exchanges values
between the C accessors and the generated Rust accessors / constructors and prints every
disagreement as a JSON line.  The observations (clang's bit offsets obtained by storing all-ones
through C into a zeroed object, the unit offsets/sizes and the (unit, offset, width) constants the
generated code uses) are validated against BitAlloc/CLayoutBits by TLC (Trace_BitAlloc)."""
import json
import os
import random
import re
import subprocess

import common as C

LAYOUT = os.path.join(C.SPEC, "layout")

CTYPE = {"bool": "_Bool", "char": "char", "uchar": "unsigned char", "short": "short",
         "ushort": "unsigned short", "int": "int", "uint": "unsigned int", "llong": "long long",
         "ullong": "unsigned long long", "enum": "enum E", "senum": "enum SE"}
TY = {"bool": (1, False), "char": (1, True), "uchar": (1, False), "short": (2, True), "ushort": (2, False),
      "int": (4, True), "uint": (4, False), "llong": (8, True), "ullong": (8, False),
      "enum": (4, False), "senum": (4, True)}
# base types whose alignment is smaller than their size: typedefs with a lowering aligned attribute
UNDER = {"ushort_a1": ("unsigned short", 1), "short_a1": ("short", 1), "uint_a1": ("unsigned int", 1),
         "uint_a2": ("unsigned int", 2), "int_a2": ("int", 2), "ullong_a1": ("unsigned long long", 1),
         "ullong_a2": ("unsigned long long", 2), "ullong_a4": ("unsigned long long", 4), "llong_a4": ("long long", 4)}
for _k, (_b, _a) in UNDER.items():
    CTYPE[_k] = _k
    TY[_k] = ({"short": 2, "int": 4, "long": 8}[_b.split()[-1]], not _b.startswith("unsigned"))
ALIGN = {k: v[0] for k, v in TY.items()}
ALIGN.update({k: a for k, (_b, a) in UNDER.items()})
PROLOGUE = "enum E { E0, E1, E2 };\nenum SE { SEm = -1, SE0, SE1 };\n" + "".join(
    "typedef %s %s __attribute__((aligned(%d)));\n" % (b, k, a) for k, (b, a) in sorted(UNDER.items()))
# i686: `long long` itself is 8 bytes aligned to 4; the model names stay llong_a4 / ullong_a4
CTYPE_I686 = dict(CTYPE, llong_a4="long long", ullong_a4="unsigned long long")


def T(ty, bw, named=True):
    return {"ty": ty, "bw": bw, "named": named}


# Alphabets of raw fields.  Every alphabet holds named bit-fields, at least one separator or
# padding field and one ordinary member; the known witnesses of DESIGN section 8 are words of
# "basic" (uchar:4 ullong:64 packed; int:3).
FAMILIES = {
    "basic": [T("int", 3), T("uint", 5), T("uchar", 4), T("ullong", 64), T("int", 0, False), T("short", -1)],
    "wide": [T("ullong", 60), T("llong", 33), T("uint", 32), T("ushort", 9), T("uchar", 7, False), T("char", -1)],
    "boolenum": [T("bool", 1), T("enum", 2), T("senum", 3), T("short", 16), T("int", 31), T("llong", 0, False)],
    "narrow": [T("char", 8), T("char", 6), T("ushort", 15), T("short", 1), T("int", 30), T("uchar", 0, False),
               T("int", -1)],
    # alignment < size: the straddle rule takes the offset modulo the ALIGNMENT, compares with the SIZE
    "underaligned": [T("uint_a2", 20), T("uint_a2", 9), T("ullong_a4", 40), T("ushort_a1", 12), T("int_a2", 13),
                     T("ullong_a2", 0, False), T("char", -1)],
}
ATTRS_QUICK = ["none", "packed", "pack1", "pack2", "pack4"]
ATTRS_THOROUGH = ["none", "packed", "pack1", "pack2", "pack4", "pack8", "aligned16"]


def seeded_family(rnd):
    """An alphabet drawn from the seed: 4 named bit-fields of random type/width, one unnamed, one member."""
    tys = sorted(TY)
    out = []
    for _ in range(4):
        ty = rnd.choice(tys)
        mw = 1 if ty == "bool" else 8 * TY[ty][0]
        out.append(T(ty, rnd.choice([1, mw, max(1, mw - 1), rnd.randint(1, mw)])))
    ty = rnd.choice([t for t in tys if t != "bool"])
    out.append(T(ty, rnd.choice([0, rnd.randint(1, 8 * TY[ty][0])]), False))
    out.append(T(rnd.choice(["char", "short", "int", "llong"]), -1))
    return out


def generate(name, alphabet, maxlen, attrs, simulate=None):
    """TLC enumerates (or, with simulate=N, samples) the declarations of a family; returns records
    carrying CLayoutBits / BitAlloc predictions."""
    d = C.workdir("c03-fam-" + name)
    fj = os.path.join(d, "family.json")
    with open(fj, "w") as f:
        json.dump({"alphabet": alphabet, "maxlen": maxlen, "kinds": ["struct", "union"], "attrs": attrs}, f)
    r = C.tlc(os.path.join(LAYOUT, "MC_BitAlloc.tla"), cfg="Gen_BitAlloc.cfg", env={"FAMILY": fj},
              workers=4, timeout=1500, name="c03-gen-" + name, simulate=simulate, depth=maxlen if simulate else None)
    ok = C.tlc_ok(r) or (simulate and "Error" not in r["out"])
    if not ok:
        raise C.ToolError("Gen_BitAlloc failed on family %s: %s" % (name, r["out"][-1500:]))
    recs = C.tlc_prints(r["out"], "DECL")
    seen, out = set(), []
    for p in recs:
        k = json.dumps([p["kind"], p["attr"], p["fields"]])
        if k not in seen:
            seen.add(k)
            out.append(p)
    return out, r


def features(p):
    """Signature used for stratified selection of the declarations that are executed."""
    fs = p["fields"]
    sig = set()
    for u in p["units"]:
        for b in u["bfs"]:
            if b["named"]:
                f = fs[b["i"] - 1]
                if b["off"] % 8 + b["w"] > 64:
                    sig.add("extent>64")
                elif b["off"] % 8 + b["w"] > 32:
                    sig.add("extent>32")
                if b["w"] == 8 * TY[f["ty"]][0]:
                    sig.add("full")
                if TY[f["ty"]][1] and b["w"] < 8 * TY[f["ty"]][0]:
                    sig.add("signed-narrow")
                if (b["off"] % (8 * TY[f["ty"]][0])) + b["w"] > 8 * TY[f["ty"]][0]:
                    sig.add("straddle")
                if ALIGN[f["ty"]] < TY[f["ty"]][0]:
                    sig.add("underaligned")
                    c_off = p["c"]["offs"][b["i"] - 1]
                    if (c_off % (8 * TY[f["ty"]][0])) + b["w"] > 8 * TY[f["ty"]][0]:
                        sig.add("crosses-size-boundary")
    if any(f["bw"] == 0 for f in fs):
        sig.add("zero")
    if any(f["bw"] > 0 and not f["named"] for f in fs):
        sig.add("anon")
    if any(f["bw"] < 0 for f in fs):
        sig.add("member")
    if len(p["units"]) > 1:
        sig.add("multiunit")
    if not p["agree"]:
        sig.add("model:offset-differs")
    if not p["covers"]:
        sig.add("model:unit-too-small")
    return (p["kind"], p["attr"], tuple(sorted(sig)))


def select(recs, n, rnd, per_sig=2):
    """Stratified, seeded selection: up to per_sig declarations of every feature signature first
    (longest first, so runs of maximal length are always present), then a uniform fill."""
    by = {}
    for p in recs:
        by.setdefault(features(p), []).append(p)
    chosen, rest = [], []
    for sig in sorted(by):
        lst = sorted(by[sig], key=lambda p: (-len(p["fields"]), json.dumps(p["fields"])))
        rnd.shuffle(lst)
        lst.sort(key=lambda p: -len(p["fields"]))
        chosen.extend(lst[:per_sig])
        rest.extend(lst[per_sig:])
    if len(chosen) > n:
        rnd.shuffle(chosen)
        chosen = chosen[:n]
    elif len(chosen) < n and rest:
        chosen.extend(rnd.sample(rest, min(n - len(chosen), len(rest))))
    return chosen


# ---------------------------------------------------------------------------
# rendering
# ---------------------------------------------------------------------------

def render_decl(name, p, ctype=None):
    ctype = ctype or CTYPE
    body = []
    for i, f in enumerate(p["fields"], 1):
        ct = ctype[f["ty"]]
        if f["bw"] < 0:
            body.append("  %s f%d;" % (ct, i))
        elif f["named"]:
            body.append("  %s f%d : %d;" % (ct, i, f["bw"]))
        else:
            body.append("  %s : %d;" % (ct, f["bw"]))
    attr = p["attr"]
    kw = p["kind"]
    pre = post = ""
    tag = ""
    if attr == "packed":
        tag = " __attribute__((packed))"
    elif attr == "aligned16":
        tag = " __attribute__((aligned(16)))"
    elif attr.startswith("pack"):
        pre = "#pragma pack(push, %s)\n" % attr[4:]
        post = "#pragma pack(pop)\n"
    return "%s%s%s %s {\n%s\n};\n%s" % (pre, kw, tag, name, "\n".join(body), post)


def render_c(name, p):
    out = ["unsigned long %s_size(void) { return sizeof(%s %s); }" % (name, p["kind"], name)]
    for i, f in enumerate(p["fields"], 1):
        if not f["named"]:
            continue
        ct = CTYPE[f["ty"]]
        conv = "(%s)(v & 1)" % ct if f["ty"] == "bool" else "(%s)v" % ct
        sx = "(unsigned long long)(long long)" if TY[f["ty"]][1] else "(unsigned long long)"
        out.append("void %s_set_f%d(%s %s *p, unsigned long long v) { p->f%d = %s; }" % (name, i, p["kind"], name, i, conv))
        out.append("unsigned long long %s_get_f%d(const %s %s *p) { return %sp->f%d; }" % (name, i, p["kind"], name, sx, i))
    return "\n".join(out) + "\n"


DRIVER_PRELUDE = r'''
#![allow(warnings)]
use std::panic::{catch_unwind, AssertUnwindSafe};
mod b {
    #![allow(warnings)]
    include!("bindings.rs");
}
type RSet = fn(*mut u8, u64);
type RGet = fn(*const u8) -> u64;
pub struct Field {
    idx: usize, w: u32, bf: bool,
    c_set: unsafe extern "C" fn(*mut u8, u64), c_get: unsafe extern "C" fn(*const u8) -> u64,
    r_set: Option<RSet>, r_get: Option<RGet>, r_set_raw: Option<RSet>, r_get_raw: Option<RGet>,
}
pub struct Unit { nth: usize, off: usize, size: usize, ctor: Option<fn(&[u64], &mut [u8])>, ctor_fields: Vec<usize> }
pub struct Rec { name: &'static str, c_size: usize, r_size: usize, r_align: usize, fields: Vec<Field>, units: Vec<Unit> }

struct Buf(Vec<u128>);
impl Buf {
    fn new(n: usize, fill: u8) -> Buf { let mut b = Buf(vec![0u128; n / 16 + 2]); b.fill(fill); b }
    fn fill(&mut self, fill: u8) { let n = self.0.len() * 16; unsafe { std::ptr::write_bytes(self.0.as_mut_ptr() as *mut u8, fill, n) } }
    fn p(&mut self) -> *mut u8 { self.0.as_mut_ptr() as *mut u8 }
    fn bytes(&self, n: usize) -> &[u8] { unsafe { std::slice::from_raw_parts(self.0.as_ptr() as *const u8, n) } }
}
fn hex(b: &[u8]) -> String { b.iter().map(|x| format!("{:02x}", x)).collect() }
fn guard<T>(f: impl FnOnce() -> T) -> Option<T> { catch_unwind(AssertUnwindSafe(f)).ok() }

fn tokens(w: u32, seeds: &[u64]) -> Vec<u64> {
    let w = if w == 0 { 1 } else { w };
    let mut t = vec![1u64, 1u64 << (w - 1), (1u64 << (w - 1)).wrapping_sub(1), 0x5555_5555_5555_5555, 0xaaaa_aaaa_aaaa_aaaa];
    t.extend_from_slice(seeds);
    t
}

fn run(r: &Rec, seeds: &[u64]) {
    let size = r.c_size.max(r.r_size);
    let cmp = r.c_size.min(r.r_size);
    println!("{{\"k\":\"rec\",\"s\":\"{}\",\"c_size\":{},\"r_size\":{},\"r_align\":{},\"units\":[{}]}}", r.name, r.c_size, r.r_size, r.r_align,
        r.units.iter().map(|u| format!("{{\"nth\":{},\"off\":{},\"size\":{}}}", u.nth, u.off, u.size)).collect::<Vec<_>>().join(","));
    // ---- D: where the bits are (C store of all-ones into a zeroed object; same through the Rust setter)
    for f in &r.fields {
        let mut o = Buf::new(size, 0);
        unsafe { (f.c_set)(o.p(), !0u64) };
        let bits: Vec<usize> = (0..r.c_size * 8).filter(|i| o.bytes(size)[i / 8] >> (i % 8) & 1 == 1).collect();
        let mut rb = String::from("null");
        if let Some(rs) = f.r_set {
            let mut o2 = Buf::new(size, 0);
            let p2 = o2.p();
            rb = match guard(|| rs(p2, !0u64)) {
                Some(()) => { let v: Vec<String> = (0..size * 8).filter(|i| o2.bytes(size)[i / 8] >> (i % 8) & 1 == 1).map(|i| i.to_string()).collect(); format!("[{}]", v.join(",")) }
                None => "\"panic\"".to_string(),
            };
        }
        println!("{{\"k\":\"bits\",\"s\":\"{}\",\"f\":{},\"c\":[{}],\"r\":{}}}", r.name, f.idx,
            bits.iter().map(|i| i.to_string()).collect::<Vec<_>>().join(","), rb);
    }
    // assignments: all 2^k extreme assignments of the bit-fields (k <= 6), then token rounds
    let bfs: Vec<usize> = (0..r.fields.len()).filter(|&i| r.fields[i].bf).collect();
    let k = bfs.len().min(6);
    let mut assigns: Vec<Vec<u64>> = Vec::new();
    for m in 0..(1usize << k) {
        let mut a = vec![0u64; r.fields.len()];
        for (j, &fi) in bfs.iter().enumerate() { if j < k && (m >> j) & 1 == 1 { a[fi] = !0u64; } }
        for (fi, f) in r.fields.iter().enumerate() { if !f.bf { a[fi] = if m & 1 == 1 { !0u64 } else { 0 }; } }
        assigns.push(a);
    }
    let nt = tokens(1, seeds).len();
    for t in 0..nt {
        let a: Vec<u64> = r.fields.iter().enumerate().map(|(fi, f)| { let tk = tokens(f.w, seeds); tk[(t + fi) % tk.len()] }).collect();
        assigns.push(a);
    }
    let mut reported = std::collections::HashSet::new();
    let mut counts = std::collections::HashMap::new();
    let mut report = |kind: &str, f: usize, line: String| {
        *counts.entry((kind.to_string(), f)).or_insert(0usize) += 1;
        if reported.insert((kind.to_string(), f)) { println!("{}", line); }
    };
    let mut checks = 0usize;
    for &bg in &[0u8, 0xffu8] {
        for a in &assigns {
            // ---- A: C writes, Rust reads
            let mut o = Buf::new(size, bg);
            for (fi, f) in r.fields.iter().enumerate() { unsafe { (f.c_set)(o.p(), a[fi]) }; }
            for (fi, f) in r.fields.iter().enumerate() {
                let c = unsafe { (f.c_get)(o.p()) };
                for (via, g) in [("get", f.r_get), ("get_raw", f.r_get_raw)] {
                    if let Some(g) = g {
                        checks += 1;
                        let p = o.p();
                        match guard(|| g(p)) {
                            Some(v) if v == c => {}
                            Some(v) => report(via, f.idx, format!("{{\"k\":\"mismatch\",\"s\":\"{}\",\"f\":{},\"op\":\"{}\",\"c\":\"{:016x}\",\"r\":\"{:016x}\",\"obj\":\"{}\",\"bg\":{}}}", r.name, f.idx, via, c, v, hex(o.bytes(r.c_size)), bg)),
                            None => report(via, f.idx, format!("{{\"k\":\"mismatch\",\"s\":\"{}\",\"f\":{},\"op\":\"{}\",\"c\":\"{:016x}\",\"r\":\"panic\",\"obj\":\"{}\",\"bg\":{}}}", r.name, f.idx, via, c, hex(o.bytes(r.c_size)), bg)),
                        }
                    }
                }
            }
            // ---- B: the same stores through C and through Rust, object compared after each
            for (via, raw) in [("set", false), ("set_raw", true)] {
                let mut oc = Buf::new(size, bg);
                let mut or = Buf::new(size, bg);
                for (fi, f) in r.fields.iter().enumerate() {
                    unsafe { (f.c_set)(oc.p(), a[fi]) };
                    let s = if raw { f.r_set_raw } else { f.r_set };
                    match s {
                        None => unsafe { (f.c_set)(or.p(), a[fi]) },
                        Some(s) => {
                            checks += 1;
                            let before = hex(or.bytes(cmp));
                            let p = or.p();
                            let ok = guard(|| s(p, a[fi])).is_some();
                            if !ok || oc.bytes(cmp) != or.bytes(cmp) {
                                report(via, f.idx, format!("{{\"k\":\"mismatch\",\"s\":\"{}\",\"f\":{},\"op\":\"{}\",\"v\":\"{:016x}\",\"before\":\"{}\",\"c\":\"{}\",\"r\":\"{}\",\"bg\":{}}}", r.name, f.idx, via, a[fi], before, hex(oc.bytes(cmp)), if ok { hex(or.bytes(cmp)) } else { "panic".to_string() }, bg));
                                // resynchronise so that later fields are judged on their own
                                let n = size; let src = oc.p(); let dst = or.p();
                                unsafe { std::ptr::copy_nonoverlapping(src, dst, n) };
                            }
                        }
                    }
                }
            }
            // ---- C: allocation-unit constructors against C stores into a zeroed object
            if bg == 0 {
                for u in &r.units {
                    if let Some(ctor) = u.ctor {
                        checks += 1;
                        let mut oc = Buf::new(size, 0);
                        for &fi in &u.ctor_fields { unsafe { (r.fields[fi].c_set)(oc.p(), a[fi]) }; }
                        let vals: Vec<u64> = u.ctor_fields.iter().map(|&fi| a[fi]).collect();
                        let mut got = vec![0u8; u.size];
                        let okc = guard(|| ctor(&vals, &mut got)).is_some();
                        let want = &oc.bytes(size)[u.off.min(size)..(u.off + u.size).min(size)];
                        if !okc || want != &got[..] {
                            report("ctor", u.nth, format!("{{\"k\":\"mismatch\",\"s\":\"{}\",\"f\":{},\"op\":\"ctor\",\"vals\":[{}],\"c\":\"{}\",\"r\":\"{}\",\"bg\":0}}", r.name, u.nth,
                                vals.iter().map(|v| format!("\"{:016x}\"", v)).collect::<Vec<_>>().join(","), hex(want), if okc { hex(&got) } else { "panic".to_string() }));
                        }
                    }
                }
            }
        }
    }
    let cs: Vec<String> = counts.iter().map(|((k, f), n)| format!("[\"{}\",{},{}]", k, f, n)).collect();
    println!("{{\"k\":\"done\",\"s\":\"{}\",\"assignments\":{},\"checks\":{},\"counts\":[{}]}}", r.name, assigns.len() * 2, checks, cs.join(","));
}
'''


def strip_ws(s):
    return re.sub(r"\s+", "", s)


GETTER = re.compile(r"pubfn(\w+?)\(&self\)->([^{]+)\{(?:unsafe\{)?(?:::std::mem::transmute\()?self\.(_bitfield_(\d+))"
                    r"(?:\.as_ref\(\)\}?)?\.(?:get_const::<(\d+)usize,(\d+)u8,?>\(\)|get\((\d+)usize,(\d+)u8,?\))as(\w+)")
UNITFIELD = re.compile(r"pub_bitfield_(\d+):(?:root::)?(?:__BindgenUnionField<)?__BindgenBitfieldUnit<\[u8;(\d+)usize\]>")
CTOR = re.compile(r"pubfnnew_bitfield_(\d+)\(([^)]*)\)->")


def parse_bindings(text):
    """{struct name: {"getters": {field: (unit, off, w, retty, intty, form)}, "units": {nth: size},
    "ctors": {nth: [param names]}, "methods": set}} from the bindings text (whitespace-insensitive)."""
    flat = strip_ws(text)
    out = {}
    # type definitions (fields of the units)
    for m in re.finditer(r"pub(struct|union)(S\d+)\{(.*?)\}", flat):
        out.setdefault(m.group(2), {"getters": {}, "units": {}, "ctors": {}, "methods": set(), "kw": m.group(1)})
        for u in UNITFIELD.finditer(m.group(3)):
            out[m.group(2)]["units"][int(u.group(1))] = int(u.group(2))
    parts = re.split(r"impl(S\d+)\{", flat)
    for i in range(1, len(parts), 2):
        name, body = parts[i], parts[i + 1]
        e = out.setdefault(name, {"getters": {}, "units": {}, "ctors": {}, "methods": set(), "kw": "?"})
        for m in GETTER.finditer(body):
            off = m.group(5) if m.group(5) is not None else m.group(7)
            w = m.group(6) if m.group(6) is not None else m.group(8)
            e["getters"][m.group(1)] = {"unit": int(m.group(4)), "off": int(off), "w": int(w), "ret": m.group(2),
                                        "int": m.group(9), "form": "const" if m.group(5) is not None else "runtime"}
        for m in CTOR.finditer(body):
            e["ctors"][int(m.group(1))] = [a.split(":")[0] for a in m.group(2).split(",") if a]
        e["methods"] |= set(re.findall(r"fn(\w+?)\(", body))
    return out


def render_driver(decls, parsed):
    """main.rs: one descriptor per struct, generated only from accessors that exist."""
    ext, recs = [], []
    for name, p in decls:
        e = parsed.get(name, {"getters": {}, "units": {}, "ctors": {}, "methods": set()})
        ext.append("    fn %s_size() -> usize;" % name)
        fl = []
        pos = {}
        for i, f in enumerate(p["fields"], 1):
            if not f["named"]:
                continue
            fn = "f%d" % i
            ext.append("    fn %s_set_%s(p: *mut u8, v: u64);\n    fn %s_get_%s(p: *const u8) -> u64;" % (name, fn, name, fn))
            bf = f["bw"] >= 0
            arg = "(v & 1) != 0" if f["ty"] == "bool" else "v as _"
            have = bf and fn in e["getters"] and ("set_" + fn) in e["methods"]
            if have:
                r_set = "Some(|p, v| unsafe { (*(p as *mut b::%s)).set_%s(%s) })" % (name, fn, arg)
                r_get = "Some(|p| unsafe { (*(p as *const b::%s)).%s() as i128 as u64 })" % (name, fn)
                r_set_raw = "Some(|p, v| unsafe { b::%s::set_%s_raw(p as *mut b::%s, %s) })" % (name, fn, name, arg)
                r_get_raw = "Some(|p| unsafe { b::%s::%s_raw(p as *const b::%s) as i128 as u64 })" % (name, fn, name)
            else:
                r_set = r_get = r_set_raw = r_get_raw = "None"
            pos[fn] = len(fl)
            fl.append("Field { idx: %d, w: %d, bf: %s, c_set: %s_set_%s, c_get: %s_get_%s, r_set: %s, r_get: %s, "
                      "r_set_raw: %s, r_get_raw: %s }" % (i, max(f["bw"], 0) if bf else 8 * TY[f["ty"]][0],
                                                          "true" if bf else "false", name, fn, name, fn,
                                                          r_set, r_get, r_set_raw, r_get_raw))
        ul = []
        for nth, size in sorted(e["units"].items()):
            ctor = "None"
            cf = []
            if nth in e["ctors"] and all(a in pos for a in e["ctors"][nth]):
                params = e["ctors"][nth]
                cf = [pos[a] for a in params]
                args = []
                for j, a in enumerate(params):
                    ty = p["fields"][int(a[1:]) - 1]["ty"]
                    args.append("(vals[%d] & 1) != 0" % j if ty == "bool" else "vals[%d] as _" % j)
                ctor = ("Some(|vals, out| { let u = b::%s::new_bitfield_%d(%s); let bytes: [u8; %d] = unsafe { std::mem::transmute(u) }; "
                        "out.copy_from_slice(&bytes); })" % (name, nth, ", ".join(args), size))
            ul.append("Unit { nth: %d, off: { let u = std::mem::MaybeUninit::<b::%s>::uninit(); unsafe { std::ptr::addr_of!((*u.as_ptr())._bitfield_%d) as usize - u.as_ptr() as usize } }, "
                      "size: %d, ctor: %s, ctor_fields: vec![%s] }" % (nth, name, nth, size, ctor, ", ".join(map(str, cf))))
        known = name in parsed and parsed[name].get("kw") in ("struct", "union")
        rsize = "std::mem::size_of::<b::%s>()" % name if known else "0"
        ralign = "std::mem::align_of::<b::%s>()" % name if known else "0"
        recs.append("    run(&Rec { name: \"%s\", c_size: unsafe { %s_size() }, r_size: %s, r_align: %s, fields: vec![\n        %s\n    ], units: vec![\n        %s\n    ] }, &seeds);"
                    % (name, name, rsize, ralign, ",\n        ".join(fl), ",\n        ".join(ul)))
    # one function per struct keeps rustc's per-function work small
    fns = []
    for i, r in enumerate(recs):
        fns.append("fn t%d(seeds: &[u64]) {\n    let seeds = seeds.to_vec();\n%s\n}" % (i, r))
    main = "fn main() {\n    std::panic::set_hook(Box::new(|_| {}));\n    let seeds: Vec<u64> = std::env::args().skip(1).map(|a| a.parse().unwrap()).collect();\n%s\n}\n" % \
        "\n".join("    t%d(&seeds);" % i for i in range(len(recs)))
    return DRIVER_PRELUDE + "extern \"C\" {\n" + "\n".join(ext) + "\n}\n" + "\n".join(fns) + "\n" + main


def sh(cmd, cwd, what, timeout=1500, tool=True):
    try:
        p = subprocess.run(cmd, cwd=cwd, stdout=subprocess.PIPE, stderr=subprocess.PIPE, text=True, timeout=timeout,
                           errors="replace")
    except subprocess.TimeoutExpired:
        raise C.ToolError("%s timed out" % what)
    if p.returncode != 0 and tool:
        raise C.ToolError("%s failed: %s" % (what, (p.stderr or p.stdout)[-3000:]))
    return p


def build_and_run(batch, decls, flags=(), checked=True, seeds=(1, 2), patch=None):
    """decls: [(name, record)].  Returns (json lines, parsed bindings, dir)."""
    d = C.workdir("c03-r2-" + batch)
    with open(os.path.join(d, "b.h"), "w") as f:
        f.write(PROLOGUE + "".join(render_decl(n, p) for n, p in decls))
    with open(os.path.join(d, "c.c"), "w") as f:
        f.write('#include "b.h"\n' + "".join(render_c(n, p) for n, p in decls))
    # a header the C compiler rejects is a defect of the generator
    sh(["clang", "-O0", "-w", "-c", "c.c", "-o", "c.o"], d, "clang on the generated C side")
    p = sh([C.BINDGEN, "--formatter=none", "--no-layout-tests", "--no-doc-comments", "b.h"] + list(flags), d,
           "bindgen", tool=False)
    if p.returncode != 0:
        return None, {"bindgen_rc": p.returncode, "stderr": p.stderr[-2000:]}, d
    text = patch(p.stdout) if patch else p.stdout       # patch: self-test of the check only
    with open(os.path.join(d, "bindings.rs"), "w") as f:
        f.write(text)
    parsed = parse_bindings(text)
    with open(os.path.join(d, "main.rs"), "w") as f:
        f.write(render_driver(decls, parsed))
    dbg = ["-C", "debug-assertions=on", "-C", "overflow-checks=on"] if checked else \
          ["-C", "debug-assertions=off", "-C", "overflow-checks=off"]
    rc = sh(["rustc", "--edition", "2021", "-C", "opt-level=0", "-C", "codegen-units=16", "--error-format=short"] + dbg +
            ["-C", "link-arg=" + os.path.join(d, "c.o"), "-o", "t", "main.rs"], d, "rustc on bindings + driver", tool=False)
    if rc.returncode != 0:
        errs = [l for l in rc.stderr.splitlines() if ": error" in l]
        if errs and all(l.startswith("bindings.rs:") for l in errs):
            # the generated bindings themselves do not compile: data about the code under test
            codes = sorted(set(re.findall(r"error\[(E\d+)\]", rc.stderr)))
            return None, {"rustc_errors_in_bindings": len(errs), "codes": codes,
                          "first": re.sub(r"^bindings.rs:\d+:\d+: ", "", errs[0])[:300]}, d
        raise C.ToolError("rustc on bindings + driver failed: %s" % rc.stderr[-3000:])
    r = sh([os.path.join(d, "t")] + [str(s) for s in seeds], d, "generated test executable", tool=False)
    lines = []
    for line in r.stdout.splitlines():
        try:
            lines.append(json.loads(line))
        except Exception:
            pass
    done = {l["s"] for l in lines if l.get("k") == "done"}
    if len(done) != len(decls):
        # the executable died (abort/segfault inside generated code): data, the caller reports it
        lines.append({"k": "crash", "rc": r.returncode, "after": sorted(done)[-1:] if done else [],
                      "stderr": r.stderr[-500:]})
    for fn in ("t", "c.o"):
        try:
            os.remove(os.path.join(d, fn))
        except OSError:
            pass
    return lines, parsed, d


# ---------------------------------------------------------------------------
# R3: big-endian cross-check without a big-endian machine
# ---------------------------------------------------------------------------
BE_TARGET = "powerpc64-unknown-linux-gnu"


def r3_bigendian(decls, sweep_exe, name="be"):
    """decls: [(name, record)] structs made of bit-fields only (one unit at byte 0).
    clang for a big-endian target lays static initialisers out at compile time; the bytes of
    `struct S g = { .f = V }` are read from the object file.  The generated (offset, width) constants
    come from the real bindgen run for the same target, and the big-endian branch of the repository's
    bitfield_unit.rs (bfsweep, `cfg!(target_endian = "big")` -> true) must store / read the same.
    Returns (checked, mismatches[list of dict])."""
    d = C.workdir("c03-r3-" + name)
    with open(os.path.join(d, "b.h"), "w") as f:
        f.write(PROLOGUE + "".join(render_decl(n, p) for n, p in decls))
    glob, c = [], ['#include "b.h"']
    for n, p in decls:
        for i, fl in enumerate(p["fields"], 1):
            if not (fl["named"] and fl["bw"] > 0):
                continue
            w = fl["bw"]
            vals = [("ones", (1 << w) - 1)]
            if w > 1:
                vals.append(("one", 1))
            if w > 3:
                vals.append(("x5", int("01" * 32, 2) & ((1 << w) - 1)))
                vals.append(("top", 1 << (w - 1)))
            for tag, v in vals:
                sym = "g_%s_f%d_%s" % (n, i, tag)
                ct = CTYPE[fl["ty"]]
                lit = "(%s)0x%xULL" % (ct, v) if fl["ty"] != "bool" else "1"
                c.append("%s %s %s = { .f%d = %s };" % (p["kind"], n, sym, i, lit))
                glob.append((sym, n, i, v))
    with open(os.path.join(d, "g.c"), "w") as f:
        f.write("\n".join(c) + "\n")
    sh(["clang", "--target=" + BE_TARGET, "-O0", "-w", "-c", "g.c", "-o", "g.o"], d, "clang for the big-endian target")
    sh(["llvm-objcopy", "-O", "binary", "--only-section=.data", "g.o", "g.bin"], d, "llvm-objcopy")
    nm = sh(["llvm-nm", "-S", "--defined-only", "g.o"], d, "llvm-nm").stdout
    data = open(os.path.join(d, "g.bin"), "rb").read()
    sym = {}
    for line in nm.splitlines():
        f = line.split()
        if len(f) == 4 and f[2] in ("D", "d"):
            sym[f[3]] = (int(f[0], 16), int(f[1], 16))
    p = sh([C.BINDGEN, "--formatter=none", "--no-layout-tests", "--no-doc-comments", "b.h", "--", "--target=" + BE_TARGET],
           d, "bindgen for the big-endian target", tool=False)
    if p.returncode != 0:
        return 0, [{"what": "bindgen failed", "stderr": p.stderr[-500:]}]
    parsed = parse_bindings(p.stdout)
    lines, meta = [], []
    for s, n, i, v in glob:
        if s not in sym:
            continue                      # all-zero initialiser would live in .bss; not generated
        e = parsed.get(n, {})
        g = e.get("getters", {}).get("f%d" % i)
        if not g or g["unit"] != 1 or len(e.get("units", {})) != 1:
            continue
        N = e["units"][1]
        off, size = sym[s]
        obj = data[off:off + size]
        if N > 16 or N > len(obj):
            continue
        lines.append("%d 1 %d %d %d %s %s %s" % (len(meta), N, g["off"], g["w"], "00" * N,
                                                  v.to_bytes(8, "little").hex(), obj[:N].hex()))
        meta.append({"decl": render_decl(n, dict(decls)[n]), "field": "f%d" % i, "value": "%#x" % v,
                     "clang_be_bytes": obj[:N].hex(), "off": g["off"], "w": g["w"], "unit_bytes": N, "v": v})
    out = subprocess.run([sweep_exe], input="\n".join(lines) + "\n", stdout=subprocess.PIPE, text=True, timeout=600).stdout.splitlines()
    if len(out) != len(lines):
        raise C.ToolError("bfsweep answered %d of %d big-endian cases" % (len(out), len(lines)))
    bad = []
    names = ["set", "raw_set", "set_const", "raw_set_const", "get", "raw_get", "get_const", "raw_get_const"]
    for m, line in zip(meta, out):
        res = line.split()[1:9]
        for e, r in zip(names, res):
            if r == "-":
                continue
            want = m["clang_be_bytes"] if e.startswith(("set", "raw_set")) else m["v"].to_bytes(8, "little").hex()
            if r != want:
                bad.append(dict(m, entry=e, real=r, want=want))
    return len(lines), bad


# ---------------------------------------------------------------------------
# R4: another ABI without running anything (i686: long long is 8 bytes aligned to 4)
# ---------------------------------------------------------------------------
I686_TARGET = "i686-unknown-linux-gnu"


def static_init_observe(decls, target, ctype, name):
    """Observations for Trace_BitAlloc on a target we cannot execute: clang's bit offsets from the bytes
    of `struct S g = { .f = all-ones }` in the object file (little-endian target), sizeof from an
    initialised global, the generated constants from the real bindgen run for that target.  The byte
    offset of a unit inside the Rust struct cannot be observed without a Rust tool chain for the
    target: callers pass declarations whose only unit starts the record (offset 0 is then assumed)."""
    d = C.workdir("c03-" + name)
    with open(os.path.join(d, "b.h"), "w") as f:
        f.write(PROLOGUE + "".join(render_decl(n, p, ctype) for n, p in decls))
    c = ['#include "b.h"']
    for n, p in decls:
        c.append("unsigned int sz_%s = sizeof(%s %s);" % (n, p["kind"], n))
        for i, fl in enumerate(p["fields"], 1):
            if fl["named"]:
                lit = "1" if fl["ty"] == "bool" else "(%s)0xffffffffffffffffULL" % ctype[fl["ty"]]
                c.append("%s %s g_%s_f%d = { .f%d = %s };" % (p["kind"], n, n, i, i, lit))
    with open(os.path.join(d, "g.c"), "w") as f:
        f.write("\n".join(c) + "\n")
    sh(["clang", "--target=" + target, "-O0", "-w", "-c", "g.c", "-o", "g.o"], d, "clang for " + target)
    sh(["llvm-objcopy", "-O", "binary", "--only-section=.data", "g.o", "g.bin"], d, "llvm-objcopy")
    nm = sh(["llvm-nm", "-S", "--defined-only", "g.o"], d, "llvm-nm").stdout
    data = open(os.path.join(d, "g.bin"), "rb").read()
    sym = {}
    for line in nm.splitlines():
        f = line.split()
        if len(f) == 4 and f[2] in ("D", "d"):
            sym[f[3]] = (int(f[0], 16), int(f[1], 16))
    p = sh([C.BINDGEN, "--formatter=none", "--no-layout-tests", "--no-doc-comments", "b.h", "--", "--target=" + target],
           d, "bindgen for " + target, tool=False)
    if p.returncode != 0:
        return None, {"bindgen_rc": p.returncode, "stderr": p.stderr[-800:]}
    parsed = parse_bindings(p.stdout)
    obs = []
    for n, pr in decls:
        if "sz_" + n not in sym:
            raise C.ToolError("no sizeof symbol for %s in the %s object" % (n, target))
        o, s = sym["sz_" + n]
        size = int.from_bytes(data[o:o + s], "little")
        nf = len(pr["fields"])
        c_offs, c_w = [-1] * nf, [-1] * nf
        for i in range(1, nf + 1):
            g = sym.get("g_%s_f%d" % (n, i))
            if not g:
                continue
            b = data[g[0]:g[0] + g[1]]
            bits = [k for k in range(8 * len(b)) if b[k // 8] >> (k % 8) & 1]
            if not bits or bits != list(range(bits[0], bits[0] + len(bits))):
                raise C.ToolError("initialiser bits of %s f%d are not contiguous: %s" % (n, i, bits))
            c_offs[i - 1], c_w[i - 1] = bits[0], len(bits)
        e = parsed.get(n, {"getters": {}, "units": {}})
        obs.append({"id": n, "kind": pr["kind"], "attr": pr["attr"], "fields": pr["fields"], "c_offs": c_offs,
                    "c_widths": c_w, "c_size": size,
                    "r_units": [{"nth": k, "off": 0, "size": v} for k, v in sorted(e["units"].items())],
                    "r_bfs": [{"i": int(k[1:]), "unit": v["unit"], "off": v["off"], "w": v["w"]}
                              for k, v in sorted(e["getters"].items())]})
    return obs, parsed
