"""Executed behaviour of hand-written impls (C08 c): Default is all-zero incl. padding, PartialEq is
reflexive and sees a changed member byte, Debug does not panic."""
import json
import os
import subprocess

import common as C


def field_probe_bytes(e):
    """Byte offsets inside the object that certainly belong to a member (first byte of every
    direct data member / the byte holding the first bit of every named bit-field)."""
    offs = []
    for f in e["fields"]:
        if f["kind"] == "dm":
            if f["off_bits"] >= 0 and f["size"] > 0 and f["name"]:
                offs.append(f["off_bits"] // 8)
        else:
            for b in f["bits"]:
                if b["name"] and b["c_off_bits"] >= 0 and b["width"] > 0:
                    offs.append(b["c_off_bits"] // 8)
    return sorted(set(offs))


def run(res, tier, jobs, dd, invs, meta, w, skip=()):
    mods, body = [], []
    checks = 0
    for k, j in enumerate(jobs):
        jid = j["id"]
        if jid in skip:
            continue     # these bindings do not compile (reported by the probe batch)
        comps = {}
        with open(os.path.join(dd, jid + ".ndjson")) as f:
            for line in f:
                if line.startswith('{"ev":"comp"'):
                    e = json.loads(line)
                    comps[e["name"]] = e
        inv = invs.get(os.path.join(dd, jid + ".rs"), {})
        manual = {}
        derived = {}
        for it in inv.get("items", []):
            if it.get("kind") == "impl" and it.get("trait") and not it.get("generics"):
                manual.setdefault(it["name"], set()).add(it["trait"].split("::")[-1])
            if it.get("kind") in ("struct", "union") and not it.get("generics"):
                derived[it["name"]] = set(it.get("derives", []))
        todo = [(n, t) for n, t in manual.items() if n in comps and n in derived and t & {"Default", "PartialEq", "Debug"}]
        if not todo:
            continue
        with open(os.path.join(dd, jid + ".rs")) as f:
            mods.append("pub mod c%d {\n%s\n}\n" % (k, f.read()))
        for name, traits in todo:
            e = comps[name]
            if e["size"] <= 0 or e["is_opaque"]:
                continue
            tag = json.dumps("%s::%s" % (jid, name))
            ty = "c%d::%s" % (k, name)
            body.append("{ type T = %s; let n = ::std::mem::size_of::<T>();" % ty)
            if "Default" in traits:
                checks += 1
                body.append("  let d: T = Default::default(); let p = &d as *const T as *const u8;"
                            " let mut nz = -1i64; for i in 0..n { if unsafe { ::std::ptr::read_volatile(p.add(i)) } != 0 { nz = i as i64; break; } }"
                            " if nz >= 0 { rep(\"default-not-zero\", %s, nz); }" % tag)
            if "PartialEq" in traits:
                checks += 1
                offs = [o for o in field_probe_bytes(e) if o < e["size"]]
                body.append("  let mut a: T = unsafe { ::std::mem::zeroed() }; let b: T = unsafe { ::std::mem::zeroed() };"
                            " if !(a == b) { rep(\"eq-not-reflexive\", %s, -1); }" % tag)
                for o in offs:
                    body.append("  unsafe { *(&mut a as *mut T as *mut u8).add(%d) ^= 0x01; }"
                                " if a == b { rep(\"eq-misses-member\", %s, %d); }"
                                " unsafe { *(&mut a as *mut T as *mut u8).add(%d) ^= 0x01; }" % (o, tag, o, o))
            if "Debug" in traits:
                checks += 1
                body.append("  let r = ::std::panic::catch_unwind(|| { let z: T = unsafe { ::std::mem::zeroed() }; format!(\"{:?}\", z).len() });"
                            " if r.is_err() { rep(\"debug-panics\", %s, -1); }" % tag)
            body.append("}")
    if not checks:
        res.add(manual_impl_checks_executed=0)
        return
    src = os.path.join(w, "behave.rs")
    with open(src, "w") as f:
        f.write("#![allow(warnings)]\n" + "".join(mods) + "fn rep(kind: &str, item: &str, byte: i64) { println!(\"{{\\\"kind\\\":\\\"{}\\\",\\\"item\\\":\\\"{}\\\",\\\"byte\\\":{}}}\", kind, item, byte); }\n"
                "fn main() {\n::std::panic::set_hook(Box::new(|_| {}));\n"
                + "\n".join(body) + "\nprintln!(\"{{\\\"kind\\\":\\\"done\\\"}}\");\n}\n")
    exe = os.path.join(w, "behave")
    p = subprocess.run(["rustc", "--edition", "2021", "-O", "-o", exe, src], stdout=subprocess.PIPE,
                       stderr=subprocess.STDOUT, text=True)
    if p.returncode != 0:
        # compile failures of the bindings themselves are reported by the probe batch; here it is our probe
        raise C.ToolError("behaviour probe does not compile: " + p.stdout[-1500:])
    try:
        q = subprocess.run([exe], stdout=subprocess.PIPE, stderr=subprocess.PIPE, text=True, timeout=300)
    except subprocess.TimeoutExpired:
        raise C.ToolError("behaviour probe timed out")
    done = False
    for line in q.stdout.splitlines():
        try:
            v = json.loads(line)
        except Exception:
            continue
        if v.get("kind") == "done":
            done = True
            continue
        jid = v["item"].split("::")[0]
        res.violation("manual-impl-%s:%s" % (v["kind"], meta[jid][0]), {"item": v["item"], "byte": v["byte"],
                                                                      "options": meta[jid][1]})
    if not done:
        res.violation("manual-impl-probe-crashed", {"rc": q.returncode, "stderr": q.stderr[-800:]})
    res.add(manual_impl_checks_executed=checks)
