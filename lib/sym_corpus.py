"""T binding of C04 / C16 over the repository corpus: the `sym` hook events (H8) of the real
Function::codegen and the syn inventory of the emitted text, judged by spec/back/Trace_SymEvents.tla
(Symbols.tla: SymOK, Unique; Wrappers.tla: no dangling binding of an internal function)."""
import json
import os
import re

import c04_cfgs
import common as C
import ffi

BACK = os.path.join(C.SPEC, "back")
CFG = {"Trace_SymEvents.cfg": "SPECIFICATION Spec\nINVARIANT Report\nPOSTCONDITION Post\nCHECK_DEADLOCK FALSE\n"}


def target_of(args):
    t = ""
    for a in args:
        if a.startswith("--target="):
            t = a[len("--target="):]
    if re.search(r"apple|darwin|macos|ios", t):
        return "macho"
    if re.search(r"windows|win32|mingw|cygwin", t):
        return "win64" if re.match(r"x86_64|aarch64", t) else "win32"
    return "elf"


def is_cxx(case):
    a = case["args"]
    return case["header"].endswith((".hpp", ".hh", ".hxx")) or any(x in ("c++", "-xc++") or x.startswith("-std=c++") or x.startswith("-std=gnu++") for x in a)


def special(case):
    a = " ".join(case["args"])
    return bool(re.search(r"wrap-static-fns|prefix-link-name|dynamic-loading|distrust-clang-mangling|override-abi", a)
                or case.get("callbacks") in ("wrap-as-variadic-fn",) or (case.get("callbacks") or "").startswith(("remove-function-prefix", "prefix-link-name"))
                or target_of(case["args"]) != "elf")


def select(tier, prop):
    cases = C.corpus_cases()
    if prop == "C16":
        # every header that has a static function, as the suite runs it and with --wrap-static-fns added
        d = C.workdir("c16-corpus-wrap")
        out = []
        for c in cases:
            try:
                text = open(c["header"], errors="replace").read()
            except OSError:
                continue
            if "wrap-static-fns" in " ".join(c["args"]):
                out.append(c)
            elif re.search(r"\bstatic\s+(inline\s+)?[A-Za-z_][\w\s\*]*\(", text) and "objc" not in c["id"]:
                args = list(c["args"])
                i = args.index("--") if "--" in args else len(args)
                extra = ["--experimental", "--wrap-static-fns", "--wrap-static-fns-path", os.path.join(d, c["id"] + "_wrap")]
                out.append(dict(c, id="ws-" + c["id"], args=args[:i] + extra + args[i:]))
        return C.sample(out, None if tier == "thorough" else 60, "c16-corpus")
    if tier == "thorough":
        return cases
    sp = [c for c in cases if special(c)]
    rest = C.sample([c for c in cases if not special(c)], max(0, 120 - len(sp)), "c04-corpus")
    return sp + rest


def validate_logs(entries, tag):
    """entries: [{"id", "log", "rs", "meta": {target, wrapstatic, linkcb, cxx}}].  Projects the sym events and
    the syn inventory of every entry into one trace and lets TLC judge it.  Returns (viol, drift, counts)."""
    c04_cfgs.ensure(CFG)
    tamper = os.environ.get("VERIF_SYM_TAMPER", "")      # drop-link | unwrap (non-vacuity demonstrations)
    invs = C.inventory([e["rs"] for e in entries if os.path.exists(e["rs"])])
    trace = os.path.join(C.workdir(tag + "-trace"), "sym.ndjson")
    with open(trace, "w") as tf:
        for en in entries:
            if not os.path.exists(en["log"]) or not os.path.exists(en["rs"]):
                continue
            inv = invs.get(en["rs"], {})
            items = ffi.foreign_items(inv) if inv.get("ok") else []
            by_ident = {}
            for it in items:
                by_ident.setdefault(it["ident"], []).append(it)
            meta = dict(en["meta"], case=en["id"])
            for line in open(en["log"]):
                if not line.startswith('{"ev":"sym"'):
                    continue
                e = json.loads(line)
                cands = by_ident.get(e["ident"]) or by_ident.get(e["ident"] + "_") or by_ident.get(e["name"] + "_wrapped") or []
                evl = e.get("link_name")
                it = None
                for x in cands:
                    if (x["link"]["name"] == (evl or "")) or e["should_wrap"]:
                        it = x
                        break
                if it is None and cands:
                    it = cands[0]
                if tamper == "drop-link" and it is not None and it["link"]["kind"] == "verbatim":
                    it = dict(it, link={"kind": "none", "name": ""})
                    evl = None
                if tamper == "unwrap" and e["should_wrap"]:
                    e["should_wrap"] = False
                item = {"found": it is not None and it["kind"] == "fn",
                        "link": {"kind": it["link"]["kind"], "name": ffi.chars(it["link"]["name"])} if it else {"kind": "none", "name": []},
                        "abi": it["abi"] if it else "C"}
                tf.write(json.dumps(dict(meta, ev="sym", name=ffi.chars(e["name"]), ident=ffi.chars(e["ident"]),
                                         overload=e["overload"], hasm=e.get("mangled") is not None,
                                         mangled=ffi.chars(e.get("mangled") or ""),
                                         evlink={"has": evl is not None, "name": ffi.chars(evl or "")},
                                         internal=e["internal"], should_wrap=e["should_wrap"], item=item)) + "\n")
            tf.write(json.dumps({"ev": "mod", "case": en["id"], "idents": ["%s::%s" % (it["mod"], it["ident"]) for it in items]}) + "\n")
    r = C.tlc(os.path.join(BACK, "Trace_SymEvents.tla"), cfg="Trace_SymEvents.cfg", env={"TRACE": trace}, workers=1,
              dfs=True, timeout=1800, name=tag + "-tv")
    if not C.tlc_ok(r):
        raise C.ToolError("Trace_SymEvents did not complete: %s" % r["out"][-1500:])
    viol = C.tlc_prints(r["out"], "VIOL")[0]
    drift = C.tlc_prints(r["out"], "DRIFT")[0]
    counts = C.tlc_prints(r["out"], "COUNTS")[0]
    counts["states"] = r["distinct"]
    os.remove(trace)
    return viol, drift, counts


def run(res, tier, prop):
    """Repository corpus: returns (violation rows, drift rows, counts) as judged by TLC."""
    cases = select(tier, prop)
    if not cases:
        return [], [], {"sym": 0, "cases": 0, "ran": 0, "states": 0}
    tag = prop.lower() + "-corpus"
    d, out = C.run_cases_logged(cases, tag)
    entries = []
    for c in cases:
        if out.get(c["id"], {}).get("outcome") != "ok":
            continue        # outcomes are C12's business
        flags = " ".join(c["args"])
        entries.append({"id": c["id"], "log": os.path.join(d, c["id"] + ".ndjson"), "rs": os.path.join(d, c["id"] + ".rs"),
                        "meta": {"target": target_of(c["args"]), "wrapstatic": "--wrap-static-fns" in c["args"],
                                 "linkcb": "--prefix-link-name" in flags or (c.get("callbacks") or "").startswith("prefix-link-name"),
                                 "cxx": is_cxx(c)}})
    viol, drift, counts = validate_logs(entries, tag)
    counts["ran"] = len(cases)
    return viol, drift, counts
