"""Shared machinery of the /verif checks: build, corpus, TLC runner, evidence."""
import hashlib
import json
import os
import random
import re
import shlex
import shutil
import subprocess
import sys
import time

VERIF = os.path.dirname(os.path.dirname(os.path.abspath(__file__)))
REPO = os.environ.get("VERIF_REPO", "/repo")
HARNESS = os.environ.get("VERIF_HARNESS", os.path.join(VERIF, "harness"))   # overridden only by lib/seedeval.sh
TARGET = os.path.join(HARNESS, "target")
WORK = os.path.join(TARGET, "work")          # scratch, never under /tmp
SPEC = os.path.join(VERIF, "spec")
EVID = os.environ.get("VERIF_EVID", os.path.join(VERIF, "evidence"))
REPLAYS = os.environ.get("VERIF_REPLAYS", os.path.join(VERIF, "replays"))
HEADERS = os.path.join(REPO, "bindgen-tests", "tests", "headers")
BVDRIVE = os.path.join(TARGET, "debug", "bvdrive")
BINDGEN = os.path.join(TARGET, "debug", "bindgen")
JAR = "/opt/veriftools/tla/tla2tools.jar"
CP = JAR + ":/opt/veriftools/tla/CommunityModules-deps.jar"


class ToolError(Exception):
    """Infrastructure failure: exit status 2, never a violation."""


def log(*a):
    print(*a, file=sys.stderr, flush=True)


def seed():
    try:
        return int(os.environ.get("VERIF_SEED", "0"))
    except ValueError:
        return 0


def workdir(name, clean=True):
    d = os.path.join(WORK, name)
    if clean and os.path.isdir(d):
        shutil.rmtree(d, ignore_errors=True)
    os.makedirs(d, exist_ok=True)
    return d


# ---------------------------------------------------------------------------
# build
# ---------------------------------------------------------------------------

def cargo(cmd, cwd, env=None, timeout=3600):
    """cargo with nothing on stdin; its `rustc -` probe has been seen to read foreign text on a loaded
    machine ("failed to run `rustc` to learn about target-specific information"): retried, that failure
    says nothing about the code"""
    for attempt in range(4):
        p = subprocess.run(cmd, cwd=cwd, env=env, stdin=subprocess.DEVNULL, stdout=subprocess.PIPE,
                           stderr=subprocess.STDOUT, text=True, timeout=timeout)
        if p.returncode == 0 or "failed to run `rustc` to learn" not in p.stdout:
            return p
        time.sleep(5 + 10 * attempt)
    return p


def build():
    """(Re)build the harness and the hooks-on CLI from /repo's working tree."""
    t0 = time.time()
    env = dict(os.environ)
    env["CARGO_NET_OFFLINE"] = "true"
    env.pop("RUSTFLAGS", None)
    lock = os.path.join(HARNESS, "Cargo.lock")
    if not os.path.exists(lock):
        shutil.copy(os.path.join(REPO, "Cargo.lock"), lock)
    # serialise concurrent builds of different checks
    import fcntl
    os.makedirs(TARGET, exist_ok=True)
    with open(os.path.join(TARGET, ".verif-build.lock"), "w") as lk:
        fcntl.flock(lk, fcntl.LOCK_EX)
        p = cargo(["cargo", "build", "--offline", "-q"], cwd=HARNESS, env=env)
    if p.returncode != 0:
        errs = [l for l in p.stdout.splitlines() if l.startswith("error")]
        log(p.stdout[-6000:])
        raise ToolError("harness build failed: " + "; ".join(errs[:5]))
    return time.time() - t0


# ---------------------------------------------------------------------------
# repository corpus
# ---------------------------------------------------------------------------

def corpus_cases():
    """The (header, flag line, callbacks) triples of the repository suite, built the way
    bindgen-tests/tests/tests.rs::create_bindgen_builder builds them."""
    out = []
    for name in sorted(os.listdir(HEADERS)):
        path = os.path.join(HEADERS, name)
        if not os.path.isfile(path) or not (name.endswith(".h") or name.endswith(".hpp")):
            continue
        flags, cb = [], None
        with open(path, errors="replace") as f:
            for line in f:
                line = line.rstrip("\n")
                if not line.startswith("// bindgen"):
                    continue
                if "bindgen-flags: " in line:
                    flags.extend(shlex.split(line.split("bindgen-flags: ")[-1]))
                elif "bindgen-osx-only" in line:
                    flags = ["--raw-line", '#![cfg(target_os="macos")]'] + flags
                elif "bindgen-parse-callbacks: " in line:
                    cb = line.split("bindgen-parse-callbacks: ")[-1].strip()
        if all(not f.startswith("--target=") for f in flags):
            if "--" not in flags:
                flags.append("--")
            flags.append("--target=x86_64-unknown-linux")
        args = ["bindgen", "--formatter=none", "--with-derive-default", "--disable-header-comment",
                "--vtable-generation", path] + flags
        out.append({"id": name, "header": path, "args": args, "callbacks": cb})
    return out


def sample(cases, n, salt=""):
    """Deterministic (seeded) sample of n cases; all when n is None or >= len."""
    if n is None or n >= len(cases):
        return list(cases)
    rnd = random.Random("%d:%s" % (seed(), salt))
    idx = sorted(rnd.sample(range(len(cases)), n))
    return [cases[i] for i in idx]


TESTS_CWD = os.path.join(REPO, "bindgen-tests")


def run_jobs(jobs, threads=12, name="jobs", timeout=3600, cwd=None):
    """Run generation jobs through `bvdrive run`; returns {id: result}."""
    d = workdir(name, clean=False)
    jf = os.path.join(d, "jobs.json")
    with open(jf, "w") as f:
        json.dump({"threads": threads, "jobs": jobs}, f)
    env = dict(os.environ)
    env.pop("BINDGEN_VERIF_LOG", None)
    try:
        p = subprocess.run([BVDRIVE, "run", jf], stdout=subprocess.PIPE, stderr=subprocess.PIPE,
                           text=True, timeout=timeout, env=env, cwd=cwd or TESTS_CWD)
    except subprocess.TimeoutExpired:
        raise ToolError("bvdrive run timed out")
    res = {}
    for line in p.stdout.splitlines():
        try:
            r = json.loads(line)
            res[r["id"]] = r
        except Exception:
            pass
    if p.returncode != 0 and len(res) < len(jobs):
        # the driver process died (abort / stack overflow / signal): data, reported by caller
        for j in jobs:
            res.setdefault(j["id"], {"id": j["id"], "outcome": "crash:%d" % p.returncode,
                                     "msg": p.stderr[-2000:], "ms": 0})
    return res


def run_cases_logged(cases, name, detail=0, schedule=None, threads=12, extra_args=(), write=False):
    """Run cases (dicts with id/args/callbacks) with a per-case hook log and bindings output.
    Returns (dir, {id: result}); logs are <dir>/<id>.ndjson, outputs <dir>/<id>.rs."""
    d = workdir(name)
    jobs = []
    for c in cases:
        jobs.append({"id": c["id"], "args": list(c["args"]) + list(extra_args),
                     "callbacks": c.get("callbacks"),
                     "log": os.path.join(d, c["id"] + ".ndjson"), "detail": detail,
                     "schedule": c.get("schedule", schedule), "write": write,
                     "out": os.path.join(d, c["id"] + ".rs")})
    res = run_jobs(jobs, threads=threads, name=name, cwd=cases[0].get("cwd") if cases else None)
    return d, res


def build_trace(d, ids, events, out, prefix=""):
    """Concatenate the hook logs of `ids` (in order), keeping only `events`."""
    n = 0
    with open(out, "a") as o:
        for i in ids:
            p = os.path.join(d, i + ".ndjson")
            if not os.path.exists(p):
                continue
            with open(p) as f:
                for line in f:
                    if not line.startswith('{"ev":"'):
                        continue
                    ev = line[7:line.index('"', 7)]
                    if ev in events:
                        if prefix and ev == "reset":
                            line = line.replace('"case":"', '"case":"' + prefix, 1)
                        o.write(line)
                        n += 1
    return n


def inventory(paths):
    """syn inventory of bindings files -> {path: inventory}."""
    out = {}
    for i in range(0, len(paths), 200):
        chunk = paths[i:i + 200]
        p = subprocess.run([BVDRIVE, "inventory"] + chunk, stdout=subprocess.PIPE,
                           stderr=subprocess.PIPE, text=True)
        for line in p.stdout.splitlines():
            try:
                v = json.loads(line)
                out[v["file"]] = v
            except Exception:
                pass
    return out


# ---------------------------------------------------------------------------
# TLC
# ---------------------------------------------------------------------------

TLC_STATS = re.compile(r"(\d[\d,]*) states generated, (\d[\d,]*) distinct states found")


def tlc(module, cfg=None, env=None, workers=8, simulate=None, depth=None, deadlock=False,
        timeout=1800, xmx="8g", coverage=False, extra=(), dfs=False, name=None, cwd=None):
    """Run TLC on spec/<...>/module.tla. Returns dict(out, rc, generated, distinct, wall)."""
    moddir = cwd or os.path.dirname(module)
    mod = os.path.basename(module)
    meta = workdir("tlc-" + (name or os.path.splitext(mod)[0]))
    javaopts = ["-XX:+UseParallelGC", "-Xmx" + xmx, "-Xss1g"]
    if dfs:
        javaopts.append("-Dtlc2.tool.queue.IStateQueue=StateDeque")
    # every spec directory is on the library path so modules can EXTEND each other
    libs = ":".join(os.path.join(SPEC, d) for d in sorted(os.listdir(SPEC))
                    if os.path.isdir(os.path.join(SPEC, d)))
    javaopts.append("-DTLA-Library=" + libs)
    cmd = ["java"] + javaopts + ["-cp", CP, "tlc2.TLC", "-metadir", meta, "-cleanup",
                                 "-noGenerateSpecTE", "-workers", str(workers)]
    if cfg:
        cmd += ["-config", cfg]
    if not deadlock:
        cmd += ["-deadlock"]
    if coverage:
        cmd += ["-coverage", "1"]
    if simulate:
        cmd += ["-simulate", "num=%d" % simulate]
        if depth:
            cmd += ["-depth", str(depth)]
    cmd += list(extra) + [mod]
    e = dict(os.environ)
    e.pop("JAVA_TOOL_OPTIONS", None)
    if env:
        e.update({k: str(v) for k, v in env.items()})
    t0 = time.time()
    try:
        p = subprocess.run(cmd, cwd=moddir, env=e, stdout=subprocess.PIPE, stderr=subprocess.STDOUT,
                           text=True, timeout=timeout, errors="replace")
    except subprocess.TimeoutExpired:
        raise ToolError("TLC timed out on %s" % mod)
    finally:
        shutil.rmtree(meta, ignore_errors=True)
    out = p.stdout
    gen = dist = 0
    for m in TLC_STATS.finditer(out):
        gen = int(m.group(1).replace(",", ""))
        dist = int(m.group(2).replace(",", ""))
    return {"out": out, "rc": p.returncode, "generated": gen, "distinct": dist,
            "wall": time.time() - t0, "cmd": " ".join(cmd)}


def tlc_ok(r):
    return r["rc"] == 0 and "Model checking completed. No error has been found" in r["out"]


def tlc_prints(out, tag):
    """Values printed by PrintT(<<tag, json>>) -> list of decoded json."""
    res = []
    pat = re.compile(r'<<"%s", "(.*)">>\s*$' % re.escape(tag))
    for line in out.splitlines():
        m = pat.match(line.strip())
        if m:
            s = m.group(1)
            try:
                # TLC prints the string with TLA+ escapes (\" and \\)
                s = s.replace('\\"', '"').replace("\\\\", "\\")
                res.append(json.loads(s))
            except Exception:
                res.append({"raw": m.group(1)})
    return res


def coverage_zero_actions(out):
    """Action names that TLC's -coverage reports as never taken."""
    zero = []
    for m in re.finditer(r"<(\w+) line \d+, col \d+ to line \d+, col \d+ of module (\w+)>: (\d+):(\d+)", out):
        if m.group(3) == "0" and m.group(4) == "0":
            zero.append(m.group(1))
    return zero


# ---------------------------------------------------------------------------
# findings, evidence, verdict
# ---------------------------------------------------------------------------

def known_findings(prop):
    path = os.path.join(VERIF, "known_findings.jsonl")
    out = []
    if os.path.exists(path):
        with open(path) as f:
            for line in f:
                line = line.strip()
                if not line or line.startswith("#"):
                    continue
                try:
                    e = json.loads(line)
                except Exception:
                    continue
                if e.get("property") == prop and e.get("status", "open") == "open":
                    out.append(e)
    return out


class Result:
    """Accumulates what a check run covered and found."""

    def __init__(self, prop, tier, level):
        self.prop, self.tier, self.level = prop, tier, level
        self.t0 = time.time()
        self.cov = {"samples": []}
        self.assumptions = []
        self.violations = []      # (key, detail dict)
        self.known_hit = {}       # key -> count
        self.drift = []
        self.notes = []
        self.known = known_findings(prop)

    def add(self, **kw):
        for k, v in kw.items():
            if isinstance(v, (int, float)) and not isinstance(v, bool) and isinstance(self.cov.get(k), (int, float)):
                self.cov[k] += v
            else:
                self.cov[k] = v

    def sample_case(self, s, cap=6):
        if len(self.cov["samples"]) < cap:
            self.cov["samples"].append(s)

    def tlc_stats(self, r):
        self.add(states=r["distinct"], transitions=r["generated"])

    def violation(self, key, detail):
        """key identifies the failing shape; matched against known findings by exact key or
        by the finding's `match` regular expression on the key."""
        for k in self.known:
            if k.get("key") == key or (k.get("match") and re.fullmatch(k["match"], key)):
                self.known_hit[k["key"]] = self.known_hit.get(k["key"], 0) + 1
                return False
        self.violations.append((key, detail))
        return True

    def finish(self):
        os.makedirs(EVID, exist_ok=True)
        os.makedirs(REPLAYS, exist_ok=True)
        for k in self.known:
            if k["key"] in self.known_hit:
                print("KNOWN-FINDING: property=%s %s (%s; seen %d times)" %
                      (self.prop, k["key"], k.get("what", ""), self.known_hit[k["key"]]))
        for d in self.drift[:20]:
            print("DRIFT: " + d)
        rc = 0
        if self.violations:
            rc = 1
            rp = os.path.join(REPLAYS, "%s-%s.json" % (self.prop, self.tier))
            with open(rp, "w") as f:
                json.dump({"property": self.prop, "violations": [
                    {"key": k, "detail": d} for k, d in self.violations[:50]]}, f, indent=1, default=str)
            for k, d in self.violations[:10]:
                log("violation %s: %s" % (k, json.dumps(d, default=str)[:600]))
            print("VIOLATION property=%s replay=%s" % (self.prop, rp))
        cov = dict(self.cov)
        cov["known_findings_seen"] = self.known_hit
        cov["drift"] = self.drift[:20]
        cov["notes"] = self.notes[:40]
        if not cov["samples"]:
            cov["samples"] = ["(none)"]
        ev = {"property_id": self.prop, "tier": self.tier, "seed": seed(), "level": self.level,
              "coverage": cov, "assumptions": self.assumptions,
              "wall_s": round(time.time() - self.t0, 2), "violations": len(self.violations)}
        with open(os.path.join(EVID, self.prop + ".json"), "w") as f:
            json.dump(ev, f, indent=1, default=str)
        return rc


def sha(s):
    return hashlib.sha256(s.encode() if isinstance(s, str) else s).hexdigest()[:16]
