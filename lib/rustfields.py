"""Projection of an emitted Rust struct/union (syn inventory) + the `comp` hook event to the abstract
record Trace_Layout.tla evaluates: [kind, packed, align, fields: [name, size, align, coff]]."""
import re

PRIM = {"u8": 1, "i8": 1, "u16": 2, "i16": 2, "u32": 4, "i32": 4, "u64": 8, "i64": 8, "u128": 16, "i128": 16,
        "f32": 4, "f64": 8, "usize": 8, "isize": 8, "bool": 1}
ARR = re.compile(r"^\[ (\w+) ; (\d+) (?:usize )?\]$")


def prim_layout(ty):
    ty = ty.strip()
    if ty in PRIM:
        return PRIM[ty], PRIM[ty]
    m = ARR.match(ty)
    if m and m.group(1) in PRIM:
        return PRIM[m.group(1)] * int(m.group(2)), PRIM[m.group(1)]
    return None


def repr_of(item):
    packed = align = 0
    for r in item.get("repr", []):
        for part in re.split(r",(?![^(]*\))", r):
            part = part.strip()
            if part == "packed":
                packed = 1
            elif part.startswith("packed("):
                packed = int(part[7:-1])
            elif part.startswith("align("):
                align = int(part[6:-1])
    return packed, align


def abstract_records(case, comps, inv):
    items = {}
    dup = set()
    for it in inv.get("items", []):
        if it.get("kind") in ("struct", "union"):
            if it["name"] in items:
                dup.add(it["name"])
            items[it["name"]] = it
    out, skipped = [], 0
    for e in comps:
        it = items.get(e["name"])
        if it is None or e["name"] in dup or e["n_generics"] > 0 or it.get("generics") or e["size"] < 0 or e["fwd"]:
            skipped += 1
            continue
        dm = {}
        for f in e["fields"]:
            if f["kind"] == "dm" and f["name"]:
                dm[f["name"]] = f
            elif f["kind"] == "unit":
                dm[f["name"]] = f
        bases = {b["field"]: b for b in e["bases"]}
        packed, align = repr_of(it)
        fields, ok = [], True
        for fname, fty, _pub in it.get("fields", []):
            ty = fty.strip()
            size = al = None
            coff = -1
            src = dm.get(fname) or dm.get(fname.rstrip("_")) or dm.get(fname.replace("r#", ""))
            if ty.startswith("__BindgenUnionField <"):
                size, al, coff = 0, 1, 0
            elif src is not None and src["kind"] == "dm":
                size, al = src["size"], src["align"]
                if src["off_bits"] >= 0 and src["off_bits"] % 8 == 0:
                    coff = src["off_bits"] // 8
                if ty.startswith("__IncompleteArrayField <"):
                    size = 0
            elif fname.startswith("_bitfield_align_"):
                p = prim_layout(ty)
                if p:
                    size, al = 0, p[1]
            elif fname.startswith("_bitfield_") and src is not None:
                size, al = src["size"], 1
            elif fname in bases:
                size, al = bases[fname]["size"], bases[fname]["align"]
            elif fname == "vtable_":
                size, al = 8, 8
            elif fname.startswith("_phantom_"):
                size, al = 0, 1
            else:
                p = prim_layout(ty)
                if p and (fname.startswith("__bindgen_padding_") or fname in
                          ("_address", "_bindgen_opaque_blob", "bindgen_union_field", "_bindgen_align", "_unused")):
                    size, al = p
                    if fname == "_bindgen_align":
                        size = 0
            if size is None or size < 0 or al is None or al <= 0:
                ok = False
                break
            fields.append({"name": fname, "size": size, "align": al, "coff": coff})
        if not ok:
            skipped += 1
            continue
        out.append({"ev": "rec", "case": case, "name": e["name"], "kind": it["kind"], "packed": packed, "align": align,
                    "fields": fields, "csize": e["size"], "calign": e["align"], "opaque": e["is_opaque"]})
    return out, skipped
