"""MANIFEST.setup_cmd: build the framework offline from files on disk only."""
import os
import sys

sys.path.insert(0, os.path.dirname(os.path.abspath(__file__)))
import common as C

if __name__ == "__main__":
    try:
        t = C.build()
        print("harness built in %.1fs" % t)
    except C.ToolError as e:
        print("setup failed: %s" % e, file=sys.stderr)
        sys.exit(2)
