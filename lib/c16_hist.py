"""C16 over histories (spec/back/WrapperHistory.tla): the wrapper source is a file at a configured path
that is generated again and again.  TLC enumerates the histories (sets of declared functions per
generation, kinds plain / unsupported type / variadic / extern) with the state each generation must
leave; every history is replayed through the real CLI into ONE wrapper path, and after each generation
the emitted C source is compiled and its defined symbols are compared with the bindings' link names."""
import json
import os
import re
import shutil
import subprocess
from concurrent.futures import ThreadPoolExecutor

import common as C
import ffi

BACK = os.path.join(C.SPEC, "back")
SUFFIX = "__w"
MODEL = [("MC_WrapperHistory.cfg", None), ("MC_WrapperHistory_x_overlay.cfg", "NoExtra"),
         ("MC_WrapperHistory_x_skip.cfg", "NoDangling")]


def decl(n, kind, variant):
    if kind == "plain":
        # wrappers of different lengths, so that a later file can be shorter than an earlier one
        body = ["static inline int f%d(int x) { return x + %d; }",
                "static inline unsigned long long f%d(const unsigned long long *p, unsigned char c) { return *p + c + %d; }"]
        return body[(n + variant) % 2] % (n, n)
    if kind == "unsup":
        return ["static inline int f%d(__int128 x) { return (int)x + %d; }",
                "static inline unsigned __int128 f%d(int x) { return (unsigned __int128)x + %d; }"][variant % 2] % (n, n)
    if kind == "variadic":
        return "static inline int f%d(int x, ...) { return x + %d; }" % (n, n)
    return "int f%d(int x);" % n


def model(res):
    for cfg, must_fail in MODEL:
        r = C.tlc(os.path.join(BACK, "MC_WrapperHistory.tla"), cfg=cfg, workers=4, timeout=900, name="c16-" + cfg[:-4])
        if must_fail is None:
            if not C.tlc_ok(r):
                raise C.ToolError("%s: %s" % (cfg, r["out"][-1200:]))
            res.tlc_stats(r)
        elif "Invariant %s is violated" % must_fail not in r["out"]:
            raise C.ToolError("sensitivity config %s does not violate %s" % (cfg, must_fail))
    res.add(wrapper_history_model_configs=len(MODEL))


def histories(tier):
    r = C.tlc(os.path.join(BACK, "MC_WrapperHistory.tla"), cfg="Gen_WrapperHistory_2.cfg", workers=2, timeout=900,
              name="c16-genhist2")
    if not C.tlc_ok(r):
        raise C.ToolError("Gen_WrapperHistory_2: " + r["out"][-1200:])
    hs = C.tlc_prints(r["out"], "HIST")
    n = 1500 if tier == "thorough" else 150
    r3 = C.tlc(os.path.join(BACK, "MC_WrapperHistory.tla"), cfg="Gen_WrapperHistory_3.cfg", workers=1, timeout=900,
               simulate=n, depth=4, name="c16-genhist3", extra=["-seed", str(C.seed() + 11)])
    h3 = C.tlc_prints(r3["out"], "HIST")
    if len(hs) != 256 or len(h3) < n // 2:
        raise C.ToolError("history generators printed %d / %d behaviours" % (len(hs), len(h3)))
    seen, out = set(), []
    for h in hs + h3:
        k = json.dumps(h, sort_keys=True)
        if k not in seen:
            seen.add(k)
            out.append(h)
    return out, r["distinct"] + r3["distinct"], r["generated"] + r3["generated"]


def replay_one(args):
    hid, h, base = args
    # the wrapper source names the input headers by path (`#include "<path>"`, verbatim): a share of the histories
    # lives in directories whose names need care (non-ASCII, blank, backslash, '#')
    special = {1: "gr\u00f6\u00dfe dir", 4: "back\\slash#d"}.get(hid % 6)
    d = os.path.join(base, "h%04d" % hid)
    shutil.rmtree(d, ignore_errors=True)
    os.makedirs(d)
    if special:
        d = os.path.join(d, special)
        os.makedirs(d)
    kinds = {n: h["kinds"][n - 1] for n in h["fns"]}
    wrap = os.path.join(d, "wrap")
    obs = []
    for i, st in enumerate(h["steps"]):
        hdr = os.path.join(d, "in%d.h" % i)
        names = sorted(st["h"])
        # a third of the histories declares every other function in a header that the input header includes
        # (a static function is wrapped wherever it is declared)
        moved = names[1::2] if hid % 3 == 2 else []
        if moved:
            with open(os.path.join(d, "inc%d.h" % i), "w") as f:
                f.write("".join(decl(n, kinds[n], hid + i) + "\n" for n in moved))
        with open(hdr, "w") as f:
            f.write(('#include "inc%d.h"\n' % i if moved else "") +
                    ("".join(decl(n, kinds[n], hid + i) + "\n" for n in names if n not in moved) or "typedef int nothing_here;\n"))
        out = os.path.join(d, "out%d.rs" % i)
        cmd = [C.BINDGEN, hdr, "--experimental", "--wrap-static-fns", "--wrap-static-fns-path", wrap,
               "--wrap-static-fns-suffix", SUFFIX, "--formatter", "none", "-o", out]
        rc, so, se = ffi.run(cmd, cwd=d, timeout=120)
        o = {"rc": rc, "stderr": se[-300:], "cmd": " ".join(cmd), "header": open(hdr).read(), "out": out}
        src = wrap + ".c"
        o["exists"] = os.path.exists(src)
        if o["exists"]:
            o["source"] = open(src, errors="replace").read()
            obj = os.path.join(d, "wrap%d.o" % i)
            # compiled against the headers of THIS generation (the path in the #include line is absolute)
            crc, _, cerr = ffi.run(["clang", "-w", "-std=gnu11", "-c", src, "-o", obj], cwd=d)
            o["compiles"] = crc == 0
            o["cerr"] = cerr[-300:]
            if crc == 0:
                defined, _ = ffi.nm_symbols(obj)
                o["defs"] = sorted(s for s, t in defined.items() if t == "T")
        obs.append(o)
    return hid, obs


def judge(res, h, hid, obs, invs, counts):
    kinds = {n: h["kinds"][n - 1] for n in h["fns"]}
    for i, (st, o) in enumerate(zip(h["steps"], obs)):
        counts["generations"] += 1
        where = {"history": hid, "step": i, "headers": [x["header"] for x in obs[:i + 1]], "cmd": o["cmd"]}
        if o["rc"] not in (0, 1) or "panicked" in o["stderr"]:
            res.violation("wrapper-history:generation-crashed", dict(where, rc=o["rc"], stderr=o["stderr"]))
            return
        if o["rc"] != 0:
            # an error value: no bindings, nothing can dangle.  (shape: the model says when)
            if st["result"] != "err":
                res.drift.append("history %d step %d: generation failed where the model generates (%s)" % (hid, i, o["stderr"][-120:]))
            counts["rejected"] += 1
            continue
        if st["result"] == "err":
            res.drift.append("history %d step %d: generation succeeded where the model reports a serialisation error" % (hid, i))
        inv = invs.get(o["out"], {})
        if not inv.get("ok"):
            raise C.ToolError("bindings of history %d step %d do not parse: %s" % (hid, i, inv.get("err")))
        fns = [it for it in ffi.foreign_items(inv) if it["kind"] == "fn" and re.fullmatch(r"f\d+", it["ident"])]
        wrapped = {it["ident"]: it["link"]["name"] for it in fns if it["link"]["name"].endswith(SUFFIX)}
        bound_static = {it["ident"] for it in fns if kinds[int(it["ident"][1:])] != "extern"}
        # -- property predicates -------------------------------------------------------------------
        for ident in sorted(bound_static):
            k = kinds[int(ident[1:])]
            if k == "variadic":
                res.violation("wrapper-history:variadic-static-bound", dict(where, function=ident))
            if ident not in wrapped:
                res.violation("wrapper-history:static-bound-without-wrapper-link", dict(where, function=ident, kind=k))
        if wrapped:
            counts["emitting_generations"] += 1
            if not o["exists"]:
                res.violation("wrapper-history:dangling-binding:no-source", dict(where, bindings=wrapped))
                continue
            if not o.get("compiles"):
                res.violation("wrapper-history:source-does-not-compile",
                              dict(where, clang=o.get("cerr"), source=o["source"][-600:], kinds_declared=sorted(
                                  kinds[n] for n in st["h"])))
                continue
            defs = o["defs"]
            for ident, link in sorted(wrapped.items()):
                c = defs.count(link)
                if c != 1:
                    res.violation("wrapper-history:dangling-binding:%s" % kinds[int(ident[1:])],
                                  dict(where, function=ident, link=link, defined=defs, source=o["source"][-600:]))
            extra = [s for s in defs if s not in wrapped.values()]
            if extra:
                res.violation("wrapper-history:extra-wrapper", dict(where, extra=extra, bindings=wrapped, source=o["source"][-600:]))
            counts["wrappers_checked"] += len(wrapped)
        # -- shape (model vs code) ------------------------------------------------------------------
        want = sorted("f%d" % n for n in st["bound"])
        if sorted(wrapped) != want:
            res.drift.append("history %d step %d: wrapped bindings %s, model %s" % (hid, i, sorted(wrapped), want))
        if o["exists"] != st["exists"]:
            res.drift.append("history %d step %d: wrapper file exists=%s, model %s" % (hid, i, o["exists"], st["exists"]))
        elif o["exists"] and o.get("compiles") and o["defs"] != sorted("f%d%s" % (n, SUFFIX) for n in st["file"]):
            # the file of an earlier generation is legitimately still there when nothing was serialized now
            if wrapped or st["file"]:
                res.drift.append("history %d step %d: wrapper file defines %s, model %s" % (hid, i, o["defs"], st["file"]))


def run(res, tier):
    model(res)
    hs, st, tr = histories(tier)
    res.add(states=st, transitions=tr)
    base = C.workdir("c16-hist")
    with ThreadPoolExecutor(max_workers=10) as ex:
        done = list(ex.map(replay_one, [(i, h, base) for i, h in enumerate(hs)]))
    outs = [o["out"] for _, obs in done for o in obs if o["rc"] == 0]
    invs = C.inventory(outs)
    counts = {"generations": 0, "emitting_generations": 0, "rejected": 0, "wrappers_checked": 0}
    for hid, obs in done:
        judge(res, hs[hid], hid, obs, invs, counts)
    if counts["emitting_generations"] < len(hs) // 4 or counts["rejected"] < len(hs) // 10:
        raise C.ToolError("wrapper histories are vacuous: %s" % counts)
    # non-vacuity of the judge: a stale definition appended to an observed file must be reported
    probe = next((hid, obs) for hid, obs in done
                 if obs[-1]["rc"] == 0 and obs[-1].get("defs") and hs[hid]["steps"][-1]["bound"])
    fake = json.loads(json.dumps(probe[1]))
    fake[-1]["defs"] = fake[-1]["defs"] + ["f99" + SUFFIX]
    r2 = C.Result(res.prop, res.tier, res.level)
    judge(r2, hs[probe[0]], probe[0], fake, invs, dict(counts))
    if not any(k.startswith("wrapper-history:extra-wrapper") for k, _ in r2.violations):
        raise C.ToolError("self-test: a stale wrapper definition is not reported")
    res.add(wrapper_histories_replayed=len(hs), wrapper_history_generations=counts["generations"],
            wrapper_history_emitting=counts["emitting_generations"], wrapper_history_rejected=counts["rejected"],
            wrapper_history_wrappers_checked=counts["wrappers_checked"])
