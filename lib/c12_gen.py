"""Input generators of check C12: token- and line-level mutants, deep nestings, small random programs.
Everything is driven by a random.Random handed in by the caller (derived from C.seed())."""
import re

TOKEN = re.compile(r"""
    (?P<ws>\s+)
  | (?P<comment>//[^\n]*|/\*.*?\*/)
  | (?P<str>(?:u8|u|U|L)?"(?:\\.|[^"\\\n])*")
  | (?P<chr>(?:u8|u|U|L)?'(?:\\.|[^'\\\n])*')
  | (?P<num>\.?[0-9](?:[eEpP][+-]|[0-9a-zA-Z_.'])*)
  | (?P<id>[A-Za-z_][A-Za-z0-9_]*)
  | (?P<punct>\.\.\.|<<=|>>=|->\*|::|->|\+\+|--|<<|>>|<=|>=|==|!=|&&|\|\||[-+*/%&|^]=|\#\#|[-+*/%&|^~!=<>?:;,.(){}\[\]\#\\@$`])
  | (?P<other>.)
""", re.X | re.S)

KEYWORDS = ["struct", "union", "enum", "typedef", "const", "volatile", "unsigned", "signed", "int", "char", "long",
            "short", "float", "double", "void", "static", "extern", "inline", "class", "template", "typename",
            "namespace", "virtual", "public", "private", "operator", "sizeof", "_Bool", "bool", "auto", "using",
            "constexpr", "friend", "explicit", "__attribute__", "_Atomic", "_Complex", "__int128", "decltype",
            "noexcept", "nullptr", "this", "static_assert", "alignas", "_Alignas", "__builtin_va_list", "wchar_t",
            "char16_t", "__float128", "_Float16", "restrict", "register", "typeof", "asm"]
LITERALS = ["0", "1", "-1", "2", "7", "08", "0x0", "0xFFFFFFFFFFFFFFFFULL", "18446744073709551615U",
            "18446744073709551616", "9223372036854775808", "2147483648", "4294967296", "1e400", "1.5f", "0.0",
            "1e-400", "0x1p-2", "'a'", "'ab'", "'\\0'", "L'x'", "\"\"", "\"s\"", "L\"w\"", "u8\"u\"", "0b101",
            "1ULL<<63", "~0", "(1/0)", "sizeof(int)", "0x7fffffff", "-2147483648", "1.0L", "077777777777777777777777",
            "65", "64", "63", "33", "32", "31", "16", "8", "256", "1024", "100000000",
            "L'\\x1234'", "u'\\u1234'", "U'\\U0001F600'", "L'\u00e9'", "'\\377'", "u8'a'", "(1%0)", "(0/0)", "1.0/0",
            "(-9223372036854775807-1)/-1", "(1<<64)", "(1<<-1)", "-(-9223372036854775807-1)", "0x1p1024", "1e-5000",
            "\"\\xff\\xfe\"", "u\"\\u1234\"", "\"a\" \"b\"", "__LINE__", "__COUNTER__", "sizeof(long)*8", "(int)1.9",
            "((unsigned char)300)", "1 ? 2 : 3", "!0", "1,2", "(void*)0", "&*(int*)0", "{0}", "0xG", "1..2", "0x", "1e", "''"]


def literal_contexts():
    """Every literal of LITERALS in the places where bindgen evaluates constants:
    -> list of (shape, extension, text)."""
    out = []
    for i, lit in enumerate(LITERALS):
        out.append(("literal-in-macro", ".h", "#define M %s\n#define N (M)\n" % lit))
        out.append(("literal-in-enum", ".h", "enum E { A = %s, B };\n" % lit))
        out.append(("literal-in-array-size", ".h", "struct S { int a[%s]; };\n" % lit))
        out.append(("literal-in-bitfield-width", ".h", "struct S { unsigned f : %s; unsigned g : 3; };\n" % lit))
        out.append(("literal-in-initialiser", ".hpp", "static const long k = %s;\nconstexpr auto c = %s;\ntemplate<long N> struct T {};\ntypedef T<%s> Ti;\n" % (lit, lit, lit)))
    return out


def tokenize(text):
    """-> list of (kind, text); joining the texts gives the input back."""
    return [(m.lastgroup, m.group()) for m in TOKEN.finditer(text)]


def _sig(toks):
    return [i for i, (k, _) in enumerate(toks) if k not in ("ws", "comment")]


def split_protect(text):
    """The `// bindgen-...` directive lines stay where they are (first lines of the repo headers)."""
    lines = text.split("\n")
    head = []
    while lines and (lines[0].startswith("// bindgen") or lines[0].strip() == ""):
        head.append(lines.pop(0))
    return "\n".join(head) + ("\n" if head else ""), "\n".join(lines)


TOKEN_OPS = ["tok-delete", "tok-duplicate", "tok-swap", "tok-splice", "ident-subst", "literal-subst", "tok-delete-range",
             "punct-subst", "keyword-insert"]
LINE_OPS = ["line-delete", "line-duplicate", "line-swap", "line-splice", "line-delete-range", "line-move"]
OPS = TOKEN_OPS + LINE_OPS


def mutate(text, op, rnd, donor=""):
    """One mutation of kind `op`. Returns new text or None when the operator does not apply."""
    head, body = split_protect(text)
    if op in LINE_OPS:
        lines = body.split("\n")
        n = len(lines)
        if n < 2:
            return None
        i = rnd.randrange(n)
        if op == "line-delete":
            del lines[i]
        elif op == "line-duplicate":
            lines.insert(i, lines[i])
        elif op == "line-swap":
            j = min(n - 1, i + 1)
            lines[i], lines[j] = lines[j], lines[i]
        elif op == "line-move":
            x = lines.pop(i)
            lines.insert(rnd.randrange(len(lines) + 1), x)
        elif op == "line-delete-range":
            j = min(n, i + rnd.randint(2, 6))
            del lines[i:j]
        elif op == "line-splice":
            dl = split_protect(donor)[1].split("\n")
            if not dl:
                return None
            a = rnd.randrange(len(dl))
            b = min(len(dl), a + rnd.randint(1, 5))
            lines[i:i] = dl[a:b]
        return head + "\n".join(lines)
    toks = tokenize(body)
    sig = _sig(toks)
    if len(sig) < 3:
        return None
    k = rnd.randrange(len(sig))
    i = sig[k]
    if op == "tok-delete":
        del toks[i]
    elif op == "tok-duplicate":
        toks.insert(i, toks[i])
        toks.insert(i + 1, ("ws", " "))
    elif op == "tok-swap":
        j = sig[min(len(sig) - 1, k + 1)]
        toks[i], toks[j] = toks[j], toks[i]
    elif op == "tok-delete-range":
        j = sig[min(len(sig) - 1, k + rnd.randint(1, 6))]
        del toks[i:j]
    elif op == "tok-splice":
        dt = tokenize(split_protect(donor)[1])
        ds = _sig(dt)
        if len(ds) < 2:
            return None
        a = rnd.randrange(len(ds))
        b = min(len(ds) - 1, a + rnd.randint(1, 8))
        toks[i:i] = dt[ds[a]:ds[b] + 1] + [("ws", " ")]
    elif op == "ident-subst":
        ids = [x for x in sig if toks[x][0] == "id"]
        if not ids:
            return None
        i = rnd.choice(ids)
        pool = sorted(set(toks[x][1] for x in ids)) + KEYWORDS
        dids = [t for kk, t in tokenize(donor) if kk == "id"] if donor else []
        if dids and rnd.random() < 0.3:
            pool = dids
        toks[i] = ("id", rnd.choice(pool))
    elif op == "literal-subst":
        lits = [x for x in sig if toks[x][0] in ("num", "str", "chr")]
        if not lits:
            return None
        i = rnd.choice(lits)
        toks[i] = ("num", rnd.choice(LITERALS))
    elif op == "punct-subst":
        ps = [x for x in sig if toks[x][0] == "punct"]
        if not ps:
            return None
        i = rnd.choice(ps)
        toks[i] = ("punct", rnd.choice(["*", "&", "&&", "::", ":", ";", ",", "(", ")", "{", "}", "[", "]", "<", ">",
                                        "...", "=", "~", "#", "##", "->", ".", "?"]))
    elif op == "keyword-insert":
        toks.insert(i, ("ws", " "))
        toks.insert(i, ("id", rnd.choice(KEYWORDS)))
    return head + "".join(t for _, t in toks)


# ---------------------------------------------------------------------------
# deep nestings
# ---------------------------------------------------------------------------

def nestings(d):
    """-> list of (shape, extension, text) for nesting depth d."""
    out = []
    # C
    s = ""
    for i in range(d):
        s += "struct S%d { int f%d; " % (i, i)
    s += "int leaf; "
    for i in reversed(range(d)):
        s += "} m%d; " % i if i else "};"
    out.append(("struct-nesting", ".h", s + "\n"))
    s = ""
    for i in range(d):
        s += "struct { int f%d; union { " % i
    s += "int leaf; "
    for i in range(d):
        s += "}; }; " if i < d - 1 else "}; } anon_root;"
    out.append(("anon-struct-union-nesting", ".h", s + "\n"))
    out.append(("pointer-depth", ".h", "int %s p;\nstruct P { char %s q; };\n" % ("*" * d, "*" * d)))
    out.append(("array-dims", ".h", "int a%s;\nstruct A { char b%s; };\n" % ("[1]" * d, "[1]" * d)))
    out.append(("paren-enum-expr", ".h", "enum E { A = %s1%s, B = %s2 + A%s };\n" % ("(" * d, ")" * d, "(" * d, ")" * d)))
    out.append(("paren-macro-expr", ".h", "#define M %s1%s\n#define N (M + %s2%s)\n" % ("(" * d, ")" * d, "(" * d, ")" * d)))
    out.append(("unary-macro-expr", ".h", "#define U %s1\n#define T %s0\n" % ("-" + " -" * (d - 1), "~" * d)))
    s = "int "
    s += "(*" * d + "fp" + ")(void)" * d + ";\n"
    out.append(("fnptr-returning-fnptr", ".h", s))
    prm = "void"
    for _ in range(d):
        prm = "void (*)(" + prm + ")"
    out.append(("fnptr-param-nesting", ".h", "void g(" + prm + ");\n"))
    s = "typedef int t0;\n" + "".join("typedef t%d t%d;\n" % (i, i + 1) for i in range(d)) + "t%d last;\n" % d
    out.append(("typedef-chain", ".h", s))
    # the end of the chain in every position a type can be used: constant, member, array, pointer, signature, bit-field
    s += ("const t%d kconst = 5;\nstatic const t%d kstatic = 7;\nstruct UsesT { t%d m; t%d arr[2]; t%d *p; t%d bf : 3; };\n"
          "t%d fn_t(t%d a, const t%d *b);\nenum { ESZ = sizeof(t%d) };\n" % ((d,) * 10))
    out.append(("typedef-chain-uses", ".h", s))
    s = "struct L0 { int x; };\n" + "".join("struct L%d { struct L%d inner; };\n" % (i + 1, i) for i in range(d))
    out.append(("struct-by-value-chain", ".h", s))
    s = "".join("struct Q%d { struct Q%d *next; };\n" % (i, (i + 1) % d) for i in range(d))
    out.append(("pointer-cycle", ".h", s))
    # C++
    s = "template<class T> struct W { T t; };\n" + "W<" * d + "int" + " >" * d + " wv;\n"
    out.append(("template-arg-nesting", ".hpp", s))
    s = "".join("namespace n%d { " % i for i in range(d)) + "struct In { int x; };" + " }" * d + "\n"
    out.append(("namespace-nesting", ".hpp", s))
    s = "struct B0 { int b; };\n" + "".join("struct B%d : B%d { int f%d; };\n" % (i + 1, i, i) for i in range(d))
    out.append(("inheritance-chain", ".hpp", s))
    s = "".join("class C%d { public: int f%d; " % (i, i) for i in range(d)) + "int leaf; " + "};" * d + "\n"
    out.append(("nested-class", ".hpp", s))
    s = ("template<int N> struct R { R<N-1> r; int v; };\ntemplate<> struct R<0> { int v; };\nR<%d> rv;\n" % d)
    out.append(("recursive-template-instantiation", ".hpp", s))
    s = "template<class T> struct V { T v; };\n" + "".join(
        "template<class T> struct V%d { V%s<T> inner; T* p; };\n" % (i + 1, i if i else "") for i in range(d)) + \
        "V%d<int> top;\n" % d
    out.append(("template-by-value-chain", ".hpp", s))
    s = "constexpr int k = %s1%s;\nenum class K : long { A = %sk%s };\n" % ("(" * d, ")" * d, "(" * d, ")" * d)
    out.append(("paren-constexpr", ".hpp", s))
    s = "template<class... Ts> struct Tup {};\nTup<" + ", ".join(["int"] * d) + "> tup;\n"
    out.append(("variadic-arity", ".hpp", s))
    s = "struct Wide { " + " ".join("int f%d : 1;" % i for i in range(d)) + " };\n"
    out.append(("bitfield-run", ".h", s))
    s = "void many(" + ", ".join("int a%d" % i for i in range(d)) + ");\n"
    out.append(("param-count", ".h", s))
    s = "enum Big { " + ", ".join("V%d" % i for i in range(d)) + " };\n"
    out.append(("enum-variants", ".h", s))
    return out


# ---------------------------------------------------------------------------
# small random programs
# ---------------------------------------------------------------------------

SCALARS = ["int", "unsigned", "char", "signed char", "unsigned char", "short", "long", "long long", "float", "double",
           "unsigned long long", "_Bool"]


def program(rnd, cpp):
    """A small well-formed C or C++ header (declarations only)."""
    names = []
    out = []

    def ty(depth=0):
        r = rnd.random()
        if names and r < 0.35:
            return rnd.choice(names)
        if r < 0.5 and depth < 2:
            return ty(depth + 1) + " *"
        return rnd.choice(SCALARS if not cpp else SCALARS[:-1] + ["bool"])

    n = rnd.randint(3, 9)
    for i in range(n):
        k = rnd.choice(["struct", "struct", "union", "enum", "typedef", "fn", "var", "macro", "fnptr"] +
                       (["tmpl", "class", "ns"] if cpp else []))
        nm = "T%d" % i
        if k in ("struct", "union"):
            fs = []
            for j in range(rnd.randint(0, 5)):
                r = rnd.random()
                if r < 0.2:
                    fs.append("%s b%d : %d;" % (rnd.choice(["int", "unsigned", "char", "unsigned long long"]), j,
                                                rnd.choice([1, 3, 7, 8, 9, 15, 31])))
                elif r < 0.35:
                    fs.append("%s a%d[%d];" % (ty(), j, rnd.choice([1, 2, 3, 32, 33, 0 if j == 4 else 4])))
                else:
                    fs.append("%s m%d;" % (ty(), j))
            attr = rnd.choice(["", "", "", " __attribute__((packed))", " __attribute__((aligned(16)))"])
            out.append("%s %s { %s }%s;" % (k, nm, " ".join(fs), attr))
            names.append(("%s %s" % (k, nm)) if not cpp else nm)
        elif k == "enum":
            vs = ", ".join("%s_V%d = %s" % (nm, j, rnd.choice(["%d" % j, "-1", "1 << %d" % j, "0x7fffffff", "%d" % (j * 3)]))
                           for j in range(rnd.randint(1, 4)))
            out.append("enum %s { %s };" % (nm, vs))
            names.append(("enum %s" % nm) if not cpp else nm)
        elif k == "typedef":
            out.append("typedef %s %s;" % (ty(), nm))
            names.append(nm)
        elif k == "fn":
            ps = ", ".join("%s p%d" % (ty(), j) for j in range(rnd.randint(0, 4))) or "void"
            out.append("%s%s fn_%s(%s);" % (rnd.choice(["", "extern "]), ty(), nm, ps))
        elif k == "var":
            out.append("extern %s var_%s;" % (ty(), nm))
        elif k == "macro":
            out.append("#define MAC_%s %s" % (nm, rnd.choice(["1", "(2 + 3)", "0x10u", "\"text\"", "1.5", "'c'", "(1 << 4)", "-7"])))
        elif k == "fnptr":
            out.append("typedef %s (*%s)(%s);" % (ty(), nm, ty()))
            names.append(nm)
        elif k == "tmpl":
            out.append("template<class A, class B = int> struct %s { A a; B* b; %s c; };" % (nm, ty()))
            out.append("typedef %s<%s> %s_i;" % (nm, ty(), nm))
            names.append("%s_i" % nm)
        elif k == "class":
            out.append("class %s { public: %s x; virtual void v%d(); %s(); ~%s(); static int s; };" % (
                nm, ty(), i, nm, nm))
            names.append(nm)
        elif k == "ns":
            out.append("namespace ns_%s { struct In { %s q; }; typedef In Alias; }" % (nm, ty()))
    return "\n".join(out) + "\n"


def witnesses():
    """Minimal inputs of failures found earlier by the random families (kept so that every tier exercises them)."""
    return [
        ("witness-huge-array-of-empty", ".h", "struct E {};\nstruct S { struct E a[0xFFFFFFFFFFFFFFFFULL]; };\n"),
        ("witness-function-typedef-member", ".hpp", "typedef void (F)(void);\nstruct S { F m; };\n"),
        ("witness-integer-complex", ".h", "long _Complex g;\nint _Complex h;\n"),
        # calling conventions get_abi does not know (found through CallConv.tla's grid, C04)
        ("witness-unknown-calling-convention", ".h", "void __attribute__((preserve_most)) hot_path(int a);\nint ordinary(int b);\n"),
        ("witness-unknown-calling-convention-pointer", ".h", "typedef void (__attribute__((preserve_most)) *hot_cb)(int);\nstruct uses_hot { hot_cb cb; int n; };\n"),
        ("witness-function-typedef-member-union", ".hpp", "typedef float **(T0)(short **);\nunion U { bool a0[1]; T0 m2; };\n"),
    ]


def annotations():
    """Doc-comment annotations (`<div rustbindgen ...>`) in odd places: -> list of (shape, extension, text)."""
    D = '/// <div rustbindgen %s></div>\n'
    out = [
        ("annotation-replaces-self-through-alias", ".hpp",
         "template <typename a> using MaybeWrapped = a;\nclass Rooted {\n" + D % 'replaces="MaybeWrapped"' +
         "  MaybeWrapped<int> ptr;\n};\n"),
        ("annotation-replaces-missing", ".hpp", D % 'replaces="Missing"' + "struct R { int x; };\n"),
        ("annotation-replaces-mutual", ".hpp", D % 'replaces="B"' + "struct A { int x; };\n" + D % 'replaces="A"' +
         "struct B { char y; };\nstruct U { A a; B b; };\n"),
        ("annotation-replaces-self", ".hpp", D % 'replaces="A"' + "struct A { int x; };\nstruct U { A a; };\n"),
        ("annotation-replaces-template", ".hpp", "template<class T> struct W { T t; };\n" + D % 'replaces="W"' +
         "template<class T> struct W_repl { T* p; };\nW<int> w;\n"),
        ("annotation-opaque-hide", ".hpp", D % 'opaque' + "template<class T> struct O { T t; };\n" + D % 'hide' +
         "struct H { int x; };\nstruct U { O<int> o; H* h; };\n"),
        ("annotation-field", ".hpp", "struct F {\n" + D % 'accessor="unsafe"' + "  int a;\n" + D % 'private="true"' +
         "  int b;\n" + D % 'private="maybe" accessor="bogus"' + "  int c;\n};\n"),
        ("annotation-derive", ".hpp", D % 'derive="Foo" derive="" nocopy nodebug mustusetype' + "struct Dv { int x; };\n"),
        ("annotation-garbage", ".hpp", '/// <div rustbindgen =></div>\n/// <div rustbindgen replaces="X"\n/// <div rustbindgen replaces=></div>\n'
         "struct G { int x; };\n/** <div rustbindgen replaces=\"G\"> */\nstruct G2 { int y; };\n"),
        ("annotation-constant", ".hpp", "enum class En { A, B };\nenum Cn {\n" + D % 'constant' + "  CA,\n" + D % 'hide' + "  CB\n};\n"),
    ]
    return out
