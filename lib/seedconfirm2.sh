#!/bin/bash
# usage: seedconfirm.sh <seed-out-dir>/<n> <name>   e.g. /tmp/seed-C18-out/1 C18-1
# Confirms a seeded change in a scratch worktree: demo passes without, fails with, suite unchanged.
set -u
exec < /dev/null
SRC=$1; NAME=$2
WT=/tmp/ev-$NAME
OUT=/verif/seeded/$NAME
mkdir -p $OUT
cp -r $SRC/* $OUT/ 2>/dev/null
git -C /repo worktree remove --force $WT >/dev/null 2>&1
git -C /repo worktree add -q --detach $WT HEAD || exit 2
export CARGO_TARGET_DIR=$WT/target CARGO_NET_OFFLINE=true
cd $WT
cargo build -q -p bindgen-cli --offline 2>/dev/null
( cd $OUT && timeout 900 bash ./demo.sh $WT/target/debug/bindgen $WT > $OUT/demo-unchanged.log 2>&1 ); RC0=$?
(git apply $OUT/patch.diff || git apply -3 $OUT/patch.diff || patch -p1 -F3 -s < $OUT/patch.diff); AP=$?
cargo build -q -p bindgen-cli --offline 2> $OUT/build-changed.log; B=$?
( cd $OUT && timeout 900 bash ./demo.sh $WT/target/debug/bindgen $WT > $OUT/demo-changed.log 2>&1 ); RC1=$?
for a in 1 2 3; do timeout 1500 cargo nextest run --workspace --no-fail-fast --test-threads 4 --offline > $OUT/suite.log 2>&1 < /dev/null; grep -q "failed to run .rustc. to learn" $OUT/suite.log || break; sleep 20; done
SUM=$(grep -o "[0-9]* passed, [0-9]* failed" $OUT/suite.log | tail -1)
echo "{\"name\":\"$NAME\",\"applies\":$AP,\"builds\":$B,\"demo_unchanged_rc\":$RC0,\"demo_changed_rc\":$RC1,\"suite\":\"$SUM\"}" > $OUT/confirm.json
cat $OUT/confirm.json
cd /; git -C /repo worktree remove --force $WT >/dev/null 2>&1; rm -rf $WT
