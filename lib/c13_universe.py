"""Option universe of C13: the table of `bvdrive roundtrip table` (the one that drives the real
bindgen::Builder), normalised for spec/front/Options.tla, and its cross-check against a scan of the
`options!` invocation in bindgen/options/mod.rs and of the clap struct in bindgen/options/cli.rs."""
import json
import os
import re
import subprocess

import common as C

# the string alphabet of the property: plain, space, quotes, '=', leading dash, empty, '::'
# plus what argument parsers like to split at: a comma (inside a regular-expression quantifier), a semicolon
STRS = ["foo", "a b", "q\"'x", "k=v", "-d", "", "a::b", "r[0-9]{2,4}", "x;y,z"]
CLEAN = ["foo", "a b", "q\"'x", "k=v", "", "r[0-9]{2,4}", "x;y,z"]
# --field-attr takes the attribute without #[..]; VALUES with '=' and quotes inside
ATTRS = ["cfg(test)", "doc = \"the x coordinate\"", "cfg(feature = \"a=b\")", "cfg(any(feature = \"a,b\", test))"]
TPAIRS = [["Point", "x"], ["Point", "y"]]
SEQ_GROUPS = {
    "lists": ["allowlisted_types", "raw_lines", "ctypes_prefix"],
    "maps": ["module_lines", "abi_overrides", "field_attr_patterns"],
    "coupled": ["formatter", "rustfmt_configuration_file", "codegen_config", "derive_default", "layout_tests"],
    "headers": ["input_headers", "clang_args", "rust_target", "rust_edition", "anon_fields_prefix"],
}


def raw_table():
    p = subprocess.run([C.BVDRIVE, "roundtrip", "table"], stdout=subprocess.PIPE, stderr=subprocess.PIPE, text=True)
    if p.returncode != 0:
        raise C.ToolError("bvdrive roundtrip table failed: " + p.stderr[-500:])
    return json.loads(p.stdout)


def universe(table, headers, abspaths, strs=None, seqrows=(), clean=False, seq_strs=None):
    """JSON for Options.tla. clean: only values the command line can carry."""
    rows = []
    strs = list(strs if strs is not None else (CLEAN if clean else STRS))
    for r in table["rows"]:
        if r["class"] == "nocli":
            continue
        r = dict(r)
        r.setdefault("flag", "")
        if r["class"] == "bool":
            r.setdefault("negflag", "")
            r.setdefault("always", False)
            r["also"] = {"derive_ord": ["derive_partialord", "any"], "derive_eq": ["derive_partialeq", "true"],
                         "derive_partialord": ["derive_ord", "false"],
                         "derive_partialeq": ["derive_eq", "false"]}.get(r["field"], [])
        if r["class"] == "enum":
            disp = [["bitfield_global", "bitfield"]] if r["field"] == "default_enum_style" else []
            r["display"] = disp
            if clean:
                r["values"] = [v for v in r["values"] if v not in [d[0] for d in disp]]
        if r["class"] == "codegen":
            allb = r["bits"]
            r["subsets"] = [allb, [b for b in allb if b != "methods"], ["types"], ["functions", "vars"]] + ([] if clean else [[]])
        if r["class"] == "map":
            r["keys"] = ["root", "root::x"] if r["shape"] == "two_values" else ["C", "stdcall", "C-unwind"]
            # a regex with '=' inside that matches a function of the header (REGEX=ABI is cut at the last '=')
            r["extra"] = [] if r["shape"] == "two_values" else ["pfn|k=v"]
        if r["class"] == "optstr":
            r.setdefault("kind", "string")
            if r["field"] == "wasm_import_module_name":
                r["kind"] = "wasm"
        rows.append(r)
    seq = list(seqrows)
    if clean:
        seq = [f for f in seq if f != "rustfmt_configuration_file"]
    return {"rows": rows, "strs": strs if not seq_strs else seq_strs,
            "dash": [s for s in strs if len(s) > 1 and s.startswith("-")],
            "eq": [s for s in strs if "=" in s], "colons": [s for s in strs if "::" in s],
            "tstrs": [x for x in (seq_strs or strs) if not clean or ("=" not in x and "::" not in x)],
            "wasm": [[x, '#[link(wasm_import_module = "%s")]' % x] for x in (seq_strs or strs)],
            "attrs": ATTRS, "tpairs": TPAIRS, "headers": headers, "clang": ["-DX=1", "-DY"], "abspaths": abspaths, "depfiles": [os.path.join(os.path.dirname(abspaths[0]), "out.d")],
            "latest": 82, "seqrows": seq}


# ---- cross-check against the source ---------------------------------------------------------------

def scan_options_rs():
    """fields of the options! invocation: name -> {type, default, methods, as_args}"""
    src = open(os.path.join(C.REPO, "bindgen", "options", "mod.rs")).read()
    body = src[src.index("\noptions! {"):]
    ms = list(re.finditer(r"^    (\w+):\s+([^\n]+?) \{\n", body, re.M))
    out = {}
    for i, m in enumerate(ms):
        blk = body[m.end():ms[i + 1].start() if i + 1 < len(ms) else len(body)]
        dm = re.search(r"^        default: (.*?),\n        methods", blk, re.M | re.S)
        am = re.search(r"^        as_args: (.*?)\n    \}", blk, re.M | re.S)
        a = " ".join(am.group(1).split()) if am else ""
        out[m.group(1)] = {"type": m.group(2).strip(), "default": " ".join(dm.group(1).split()) if dm else None,
                           "methods": re.findall(r"pub fn (\w+)", blk), "as_args": a,
                           "as_flags": re.findall(r'"(--[\w-]+)"', a), "order": i}
    return out


def scan_cli_rs():
    """long flags of the clap struct"""
    src = open(os.path.join(C.REPO, "bindgen", "options", "cli.rs")).read()
    st = src[src.index("struct BindgenCommand {"):src.index("/// Construct a new [`Builder`]")]
    flags = {}
    for m in re.finditer(r"#\[arg\((.*?)\)\]\s*\n\s*(\w+): ([^\n]+),", st, re.S):
        attrs, name, ty = m.group(1), m.group(2), m.group(3)
        if "long" not in attrs:
            continue
        lm = re.search(r'long = "([^"]+)"', attrs)
        flags["--" + (lm.group(1) if lm else name.replace("_", "-"))] = {"name": name, "type": ty.strip()}
    return flags


def cross_check(table):
    """Returns (problems, report). problems: rows/fields that do not line up (reported, never ignored)."""
    rows = {r["field"]: r for r in table["rows"]}
    src = scan_options_rs()
    cli = scan_cli_rs()
    problems = []
    for f in src:
        if f not in rows:
            problems.append("field %s of options! has no row in the field->method table" % f)
    for f in rows:
        if f not in src:
            problems.append("table row %s is not a field of options!" % f)
    if [r["field"] for r in table["rows"]] != sorted(src, key=lambda f: src[f]["order"]) and not problems:
        problems.append("table rows are not in the order of the options! invocation")
    known = set(table["methods"])
    unmapped = []
    for f, s in src.items():
        for m in s["methods"]:
            if m not in known:
                unmapped.append("%s::%s" % (f, m))
    flag_mismatch = []
    for f, r in rows.items():
        if r["class"] == "nocli" or f not in src:
            if f in src and src[f]["as_args"] not in ("ignore,", "ignore") and r["class"] == "nocli" and f != "parse_callbacks":
                problems.append("row %s is nocli but the code emits flags for it: %s" % (f, src[f]["as_args"][:60]))
            continue
        doc = [x for x in [r.get("flag"), r.get("negflag")] + r.get("flags", []) if x]
        emitted = src[f]["as_flags"]
        if r["class"] in ("headers", "clang_args"):
            continue
        if sorted(set(doc)) != sorted(set(emitted)):
            flag_mismatch.append({"field": f, "documented_cli_flag": doc, "as_args_emits": emitted})
        for x in doc:
            if x not in cli:
                problems.append("documented flag %s of %s is not an argument of the CLI" % (x, f))
    covered = set()
    for r in table["rows"]:
        covered.update(x for x in [r.get("flag"), r.get("negflag")] + r.get("flags", []) + r.get("extra_flags", []) if x)
    cli_only = sorted(set(cli) - covered)
    return problems, {"fields": len(src), "rows": len(rows), "methods_in_source": sum(len(s["methods"]) for s in src.values()),
                      "methods_without_row": unmapped, "as_args_vs_documented_flag": flag_mismatch,
                      "cli_flags": len(cli), "cli_flags_without_field": cli_only,
                      "nocli": {r["field"]: r["reason"] for r in table["rows"] if r["class"] == "nocli"}}
