"""Conformance binding of spec/back/CallConv.tla: for every (attribute, target) pair of a small grid the calling
convention clang gives the declaration is read from the LLVM IR (`declare <cc> ...`), the real bindgen runs for that
target, and the ABI string of the emitted declaration (a function and a function-pointer typedef) must be the one
that is call-compatible with it.  Emitting nothing is allowed (a panic there is a C12 matter and only noted);
emitting another ABI is the violation.  Disagreements with the model that do not touch the property are drift."""
import os
import re
import subprocess
from concurrent.futures import ThreadPoolExecutor

import common as C

BACK = os.path.join(C.SPEC, "back")

ATTRS = ["", "ms_abi", "sysv_abi", "stdcall", "fastcall", "thiscall", "vectorcall", "regcall", 'pcs("aapcs")',
         'pcs("aapcs-vfp")', "aarch64_vector_pcs", "preserve_most", "preserve_all"]
TARGETS = ["x86_64-unknown-linux-gnu", "x86_64-pc-windows-gnu", "x86_64-pc-windows-msvc", "i686-unknown-linux-gnu",
           "i686-pc-windows-msvc", "armv7-unknown-linux-gnueabihf", "aarch64-unknown-linux-gnu"]
LLVM_CC = {None: "Default", "ccc": "C", "x86_stdcallcc": "X86StdCall", "x86_fastcallcc": "X86FastCall",
           "x86_thiscallcc": "X86ThisCall", "x86_vectorcallcc": "X86VectorCall", "aarch64_vector_pcs": "AArch64VectorCall",
           "arm_aapcscc": "AAPCS", "win64cc": "X86_64Win64", "x86_64_sysvcc": "X86_64SysV", "x86_regcallcc": "X86RegCall",
           "arm_aapcs_vfpcc": "AAPCS_VFP", "preserve_mostcc": "PreserveMost", "preserve_allcc": "PreserveAll"}


def run(res, tier):
    r = C.tlc(os.path.join(BACK, "CallConv.tla"), cfg="MC_CallConv.cfg", workers=1, timeout=300, name="c04-cc")
    if not C.tlc_ok(r):
        raise C.ToolError("CallConv model failed: " + r["out"][-1200:])
    r2 = C.tlc(os.path.join(BACK, "CallConv.tla"), cfg="MC_CallConv_x_sysvIsC.cfg", workers=1, timeout=300, name="c04-cc-sens")
    if "Invariant Sound is violated" not in r2["out"]:
        raise C.ToolError("sensitivity config MC_CallConv_x_sysvIsC did not fail")
    model = {c["cc"]: c for c in C.tlc_prints(r["out"], "CC") if "raw" not in c}
    if len(model) < 10:
        raise C.ToolError("CallConv printed %d conventions" % len(model))
    w = C.workdir("c04-callconv")
    grid = [(a, t) for a in ATTRS for t in TARGETS]

    def one(k_at):
        k, (attr, target) = k_at
        a = "__attribute__((%s)) " % attr if attr else ""
        hp = os.path.join(w, "cc%03d.h" % k)
        with open(hp, "w") as f:
            f.write("long %sprobe_fn(long a, double b, long c);\ntypedef long (%s*probe_cb)(long, double, long);\n"
                    "struct uses_cb { probe_cb cb; };\n" % (a, a))
        cf = os.path.join(w, "cc%03d.c" % k)
        with open(cf, "w") as f:
            f.write('#include "%s"\nlong call_it(void) { return probe_fn(1, 2.0, 3); }\n' % hp)
        ll = os.path.join(w, "cc%03d.ll" % k)
        pc = subprocess.run(["clang", "-S", "-emit-llvm", "-Werror=attributes", "-Werror=ignored-attributes", "--target=" + target,
                             "-ffreestanding", "-o", ll, cf], stdout=subprocess.PIPE, stderr=subprocess.PIPE, text=True)
        if pc.returncode != 0:
            return None          # the attribute does not exist on that target
        m = re.search(r"^declare\s+(?:dso_local\s+)?(?:(\w+)\s+)?(?:\w+\s+)*?[\w]+\s+@probe_fn", open(ll).read(), re.M)
        if not m:
            return None
        line = m.group(0)
        cc = next((c for c in LLVM_CC if c and re.search(r"\b%s\b" % c, line)), None)
        p = subprocess.run([C.BINDGEN, "--formatter=none", "--no-layout-tests", hp, "--", "--target=" + target],
                           stdout=subprocess.PIPE, stderr=subprocess.PIPE, stdin=subprocess.DEVNULL, text=True, timeout=120)
        out = {"attr": attr, "target": target, "cc": LLVM_CC[cc], "rc": p.returncode, "fn": None, "fp": None,
               "panic": "panicked" in p.stderr}
        if p.returncode == 0:
            m1 = re.search(r'extern\s+"([\w-]+)"\s*\{[^}]*?\bprobe_fn\b', p.stdout)
            m2 = re.search(r'extern\s+"([\w-]+)"\s+fn', p.stdout)
            out["fn"] = m1.group(1) if m1 else None
            out["fp"] = m2.group(1) if m2 else None
        return out

    with ThreadPoolExecutor(max_workers=8) as ex:
        outs = [o for o in ex.map(one, enumerate(grid)) if o]
    seen, panics = {}, {}
    for o in outs:
        mc = model.get(o["cc"])
        if mc is None:
            raise C.ToolError("convention %s is not in the model" % o["cc"])
        seen.setdefault(o["cc"], 0)
        seen[o["cc"]] += 1
        for site in ("fn", "fp"):
            got = o[site]
            if got is None:
                continue          # nothing declared (gated ABI, unsupported convention, panic): allowed by C04
            if got != mc["compatible"]:
                res.violation("calling-convention:%s:%s:declared-%s" % (site, o["cc"], got),
                              {"attribute": o["attr"], "target": o["target"], "clang_convention": o["cc"],
                               "declared": got, "compatible": mc["compatible"]})
            elif mc["emitted"] == "unknown":
                res.drift.append("calling convention %s: the code now emits extern \"%s\", the model says it gives up" % (o["cc"], got))
        if o["panic"]:
            panics.setdefault(o["cc"], []).append(o["target"])
    for cc_, ts in sorted(panics.items()):
        res.notes.append("bindgen panics on a function of convention %s (targets %s): a C12 matter, nothing is declared" %
                         (cc_, ", ".join(sorted(set(ts)))))
    res.add(calling_convention_cases=len(outs), calling_conventions_realised=sorted(seen))
    res.sample_case({"stage": "calling-conventions", "realised": seen})
