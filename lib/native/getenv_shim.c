/* LD_PRELOAD interposer used by check C17: logs "<pid> <name>" for every getenv() of the process
   (Rust's std::env::var goes through libc getenv) to the file named by $VERIF_GETENV_LOG. */
#define _GNU_SOURCE
#include <dlfcn.h>
#include <fcntl.h>
#include <stdio.h>
#include <string.h>
#include <unistd.h>

static char *(*real_getenv)(const char *) = 0;

static void note(const char *name) {
  const char *log = real_getenv("VERIF_GETENV_LOG");
  char buf[700];
  int fd, n;
  if (!log) return;
  fd = open(log, O_WRONLY | O_APPEND | O_CREAT, 0644);
  if (fd < 0) return;
  n = snprintf(buf, sizeof buf, "%d %s\n", (int)getpid(), name);
  if (n > 0) { ssize_t r = write(fd, buf, (size_t)n); (void)r; }
  close(fd);
}

char *getenv(const char *name) {
  if (!real_getenv) real_getenv = (char *(*)(const char *))dlsym(RTLD_NEXT, "getenv");
  if (strcmp(name, "VERIF_GETENV_LOG")) note(name);
  return real_getenv(name);
}
