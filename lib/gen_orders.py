"""R2 of C07: declaration orders enumerated by TLC (Gen_Order.tla), rendered to headers, run through
the real bindgen; per-name inventories must be equal across orders and every run is trace-validated."""
import json
import os
import random

import common as C

DERIVES = ["--with-derive-hash", "--with-derive-partialeq", "--with-derive-partialord", "--with-derive-eq",
           "--with-derive-ord", "--with-derive-default", "--impl-debug", "--impl-partialeq"]

# Each family: decls {name: (definition text, forward text or None, needs, uses)}, flags, lang.
FAMILIES = {
    "chain": {
        "lang": "c++", "flags": [],
        "decls": {
            "A": ("struct A { virtual void m(); int x; };", "struct A;", [], []),
            "B": ("struct B : A { float f; };", "struct B;", ["A"], []),
            "C": ("struct C : B { int arr[40]; A* pa; };", "struct C;", ["B"], ["A"]),
            "D": ("struct D { C c; B* pb; };", "struct D;", ["C"], ["B"]),
            "CT": ("typedef C CT;", None, [], ["C"]),
            "E": ("struct E { CT* ct; D* d; ~E(); };", "struct E;", [], ["CT", "D"]),
        }},
    "diamond": {
        "lang": "c++", "flags": [],
        "decls": {
            "Base": ("struct Base { ~Base(); double d; };", "struct Base;", [], []),
            "L": ("struct L : Base { int l; };", "struct L;", ["Base"], []),
            "R": ("struct R : Base { virtual void v(); };", "struct R;", ["Base"], []),
            "Bot": ("struct Bot : L, R { char c; };", "struct Bot;", ["L", "R"], []),
            "Holder": ("struct Holder { Bot* b; L l; };", "struct Holder;", ["L"], ["Bot"]),
        }},
    "mutual": {
        "lang": "c++", "flags": [],
        "decls": {
            "P": ("struct P { struct Q* q; float f; };", "struct P;", [], []),
            "Q": ("struct Q { struct P* p; int a[40]; };", "struct Q;", [], []),
            "R2": ("struct R2 { P p; Q q; };", "struct R2;", ["P", "Q"], []),
            "S2": ("struct S2 { R2* r; S2* next; void (*cb)(P*, Q*); };", "struct S2;", [], ["R2", "P", "Q"]),
            "T2": ("typedef S2 T2;", None, [], ["S2"]),
        }},
    "typedefs": {
        "lang": "c", "flags": [],
        "decls": {
            "S_t": ("typedef struct S S_t;", None, [], []),
            "S_tt": ("typedef S_t S_tt;", None, [], ["S_t"]),
            "S": ("struct S { double d; int i; };", "struct S;", [], []),
            "U": ("struct U { S_tt s; S_t *p; };", "struct U;", ["S", "S_tt"], ["S_t"]),
            "V": ("struct V { struct U u[3]; S_tt *pp; };", "struct V;", ["U"], ["S_tt"]),
            "F": ("typedef float F;", None, [], []),
            "W": ("struct W { F f; struct V *v; };", "struct W;", ["F"], []),
        }},
    "templates": {
        "lang": "c++", "flags": [],
        "decls": {
            "Wr": ("template<class T> struct Wr { T t; };", "template<class T> struct Wr;", [], []),
            "Vw": ("template<class T> struct Vw { Wr<T>* w; int n; };", "template<class T> struct Vw;", [], ["Wr"]),
            "Pair": ("template<class T, class U> struct Pair { T a; int b; };",
                     "template<class T, class U> struct Pair;", [], []),
            "X": ("struct X { Wr<int> wi; Vw<float> vf; };", "struct X;", ["Wr", "Vw"], []),
            "Y": ("struct Y { Pair<int, float> p; Wr<double> wd; };", "struct Y;", ["Pair", "Wr"], []),
            "Z": ("template<class T> struct Z { T arr[3]; Wr<T> w; };", "template<class T> struct Z;", ["Wr"], []),
        }},
    "blockopaque": {
        "lang": "c++", "flags": ["--blocklist-type", "B1", "--opaque-type", "O1", "--raw-line",
                                 "#[repr(C)] #[derive(Copy, Clone)] pub struct B1 { pub x: i32 }"],
        "decls": {
            "B1": ("struct B1 { int x; };", "struct B1;", [], []),
            "O1": ("struct O1 { float f; virtual void g(); };", "struct O1;", [], []),
            "H": ("struct H { B1 b; O1 o; int z; };", "struct H;", ["B1", "O1"], []),
            "K": ("struct K { H h; B1* pb; O1* po; };", "struct K;", ["H"], ["B1", "O1"]),
            "KT": ("typedef K KT;", None, [], ["K"]),
        }},
    "allowcut": {
        "lang": "c++", "flags": ["--allowlist-type", "Mid"],
        "decls": {
            "Low": ("struct Low { float f; };", "struct Low;", [], []),
            "Mid": ("struct Mid { Low l; struct Top* t; };", "struct Mid;", ["Low"], []),
            "Top": ("struct Top { Mid m; virtual ~Top(); };", "struct Top;", ["Mid"], []),
            "Un": ("struct Un { int unrelated; Top* t; };", "struct Un;", [], ["Top"]),
        }},
}


def orders_of(name, fam, maxfwd, limit, rnd):
    """All valid orders (TLC), sampled down to `limit`."""
    d = C.workdir("c07-order-" + name)
    fj = os.path.join(d, "family.json")
    decls = fam["decls"]
    with open(fj, "w") as f:
        json.dump({"decls": sorted(decls), "needs": {k: v[2] for k, v in decls.items()},
                   "uses": {k: v[3] for k, v in decls.items()},
                   "fwdable": [k for k, v in decls.items() if v[1]], "maxfwd": maxfwd}, f)
    r = C.tlc(os.path.join(C.SPEC, "core", "Gen_Order.tla"), cfg="Gen_Order.cfg", env={"FAMILY": fj},
              workers=4, timeout=1200, name="c07-gen-" + name)
    if not C.tlc_ok(r):
        raise C.ToolError("Gen_Order failed on family %s: %s" % (name, r["out"][-1200:]))
    orders = C.tlc_prints(r["out"], "ORDER")
    total = len(orders)
    if limit and total > limit:
        # deterministic sample, always keeping the lexicographically first and last
        orders.sort(key=json.dumps)
        keep = [orders[0], orders[-1]] + rnd.sample(orders[1:-1], limit - 2)
        orders = keep
    return orders, total, r


def render(fam, order):
    lines = []
    for kind, d in order:
        text = fam["decls"][d][0] if kind == "def" else fam["decls"][d][1]
        lines.append(text)
    return "\n".join(lines) + "\n"


def named_inventory(inv):
    """name -> comparable facts (derive list, generics, field list with types, repr, impls)."""
    out = {}
    for it in inv.get("items", []):
        k = it.get("kind")
        if k in ("struct", "union", "enum"):
            out[(it["mod"], it["name"])] = {
                "kind": k, "derives": sorted(it.get("derives", [])), "generics": it.get("generics", []),
                "fields": [f[:2] for f in it.get("fields", [])], "repr": it.get("repr", [])}
        elif k == "type":
            out[(it["mod"], it["name"])] = {"kind": k, "ty": it.get("ty"), "generics": it.get("generics", [])}
        elif k == "impl" and it.get("trait"):
            out.setdefault(("impl", it["name"]), []).append(it["trait"])
    for k, v in out.items():
        if isinstance(v, list):
            v.sort()
    return out


def run(res, tier, validate, report):
    rnd = random.Random(C.seed() * 1000003 + 7)
    limit = 400 if tier == "thorough" else 40
    maxfwd = 3 if tier == "thorough" else 2
    total_orders = used = 0
    gen_states = gen_trans = 0
    for name, fam in sorted(FAMILIES.items()):
        orders, total, r = orders_of(name, fam, maxfwd, limit, rnd)
        total_orders += total
        gen_states += r["distinct"]
        gen_trans += r["generated"]
        d = C.workdir("c07-r2-" + name)
        cases = []
        ext = ".hpp" if fam["lang"] == "c++" else ".h"
        for i, o in enumerate(orders):
            hp = os.path.join(d, "o%04d%s" % (i, ext))
            with open(hp, "w") as f:
                f.write(render(fam, o))
            args = ["bindgen", "--formatter=none", "--disable-header-comment", hp] + DERIVES + fam["flags"]
            cases.append({"id": "%s-o%04d" % (name, i), "args": args, "callbacks": None, "order": o})
        dd, out = C.run_cases_logged(cases, "c07-r2run-" + name)
        used += len(cases)
        # every run is a trace to validate against the analyses spec
        viol, drift, counts, tr = validate(res, dd, [c["id"] for c in cases], "r2-" + name)
        report(res, viol)
        res.add(traces_validated_against_impl=counts.get("cases", 0), lookups_checked=counts.get("lookups", 0))
        invs = C.inventory([os.path.join(dd, c["id"] + ".rs") for c in cases])
        base = None
        for c in cases:
            o = out.get(c["id"], {})
            if o.get("outcome") != "ok":
                # the renderer only produces headers clang accepts; anything else is a generator bug
                raise C.ToolError("generated order rejected: %s %s %s" % (c["id"], o.get("outcome"), o.get("msg", "")[:300]))
            inv = named_inventory(invs.get(os.path.join(dd, c["id"] + ".rs"), {}))
            if base is None:
                base, base_case = inv, c
                continue
            if inv != base:
                diff = sorted(str(k) for k in set(inv) | set(base) if inv.get(k) != base.get(k))
                res.violation("order-dependent:%s:%s" % (name, ",".join(diff)[:120]),
                              {"family": name, "order_a": base_case["order"], "order_b": c["order"],
                               
                               "a": {str(k): v for k, v in base.items() if str(k) in diff},
                               "b": {str(k): v for k, v in inv.items() if str(k) in diff},
                               "header_b": render(fam, c["order"])})
        res.sample_case({"family": name, "orders_enumerated": total, "orders_run": len(cases),
                         "example_order": orders[min(1, len(orders) - 1)]})
    res.add(declaration_orders_enumerated=total_orders, declaration_orders_run=used,
            states=gen_states, transitions=gen_trans)
