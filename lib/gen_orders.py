"""R2 of C07: declaration orders enumerated by TLC (Gen_Order.tla), rendered to headers, run through
the real bindgen; per-name inventories must be equal across orders and every run is trace-validated."""
import json
import os
import random
import subprocess

import common as C

DERIVES = ["--with-derive-hash", "--with-derive-partialeq", "--with-derive-partialord", "--with-derive-eq",
           "--with-derive-ord", "--with-derive-default", "--impl-debug", "--impl-partialeq"]

# Each family: decls {name: (definition text, forward text or None, needs, uses)}, flags, lang.
FAMILIES = {
    "chain": {
        "lang": "c++", "flags": [],
        "decls": {
            "A": ("struct A { virtual void m(); int x; };", "struct A;", [], []),
            "B": ("struct B : A { float f; };", "struct B;", ["A"], []),
            "C": ("struct C : B { int arr[40]; A* pa; };", "struct C;", ["B"], ["A"]),
            "D": ("struct D { C c; B* pb; };", "struct D;", ["C"], ["B"]),
            "CT": ("typedef C CT;", None, [], ["C"]),
            "E": ("struct E { CT* ct; D* d; ~E(); };", "struct E;", [], ["CT", "D"]),
        }},
    "diamond": {
        "lang": "c++", "flags": [],
        "decls": {
            "Base": ("struct Base { ~Base(); double d; };", "struct Base;", [], []),
            "L": ("struct L : Base { int l; };", "struct L;", ["Base"], []),
            "R": ("struct R : Base { virtual void v(); };", "struct R;", ["Base"], []),
            "Bot": ("struct Bot : L, R { char c; };", "struct Bot;", ["L", "R"], []),
            "Holder": ("struct Holder { Bot* b; L l; };", "struct Holder;", ["L"], ["Bot"]),
            # arrays of objects with destructors / floats / vtables: the facts an array passes on (or not)
            "Arr": ("struct Arr { Base items[2]; R rs[3]; L* pl; };", "struct Arr;", ["Base", "R"], ["L"]),
            "HArr": ("struct HArr { Arr a; Arr* next; };", "struct HArr;", ["Arr"], []),
        }},
    # --no-recursive-allowlist: types that are used but not allowlisted are not emitted and cannot re-queue their
    # users; what their users may derive must still not depend on which user is declared first
    "norecursive": {
        "lang": "c", "flags": ["--no-recursive-allowlist", "--allowlist-type", "Widget|Gadget|Holder|Gizmo"],
        "decls": {
            "Inner": ("struct Inner { void (*cb)(int,int,int,int,int,int,int,int,int,int,int,int,int); float f; };", "struct Inner;", [], []),
            "Big": ("struct Big { int a[40]; };", "struct Big;", [], []),
            "Widget": ("struct Widget { struct Inner a; int x; };", "struct Widget;", ["Inner"], []),
            "Gadget": ("struct Gadget { struct Inner b; char y; };", "struct Gadget;", ["Inner"], []),
            "Gizmo": ("struct Gizmo { struct Big big; struct Inner *pi; };", "struct Gizmo;", ["Big"], ["Inner"]),
            "Holder": ("struct Holder { struct Widget w; struct Gadget g; struct Gizmo *z; };", "struct Holder;", ["Widget", "Gadget"], ["Gizmo"]),
        }},
    "mutual": {
        "lang": "c++", "flags": [],
        "decls": {
            "P": ("struct P { struct Q* q; float f; };", "struct P;", [], []),
            "Q": ("struct Q { struct P* p; int a[40]; };", "struct Q;", [], []),
            "R2": ("struct R2 { P p; Q q; };", "struct R2;", ["P", "Q"], []),
            "S2": ("struct S2 { R2* r; S2* next; void (*cb)(P*, Q*); };", "struct S2;", [], ["R2", "P", "Q"]),
            "T2": ("typedef S2 T2;", None, [], ["S2"]),
        }},
    "typedefs": {
        "lang": "c", "flags": [],
        "decls": {
            "S_t": ("typedef struct S S_t;", None, [], []),
            "S_tt": ("typedef S_t S_tt;", None, [], ["S_t"]),
            "S": ("struct S { double d; int i; };", "struct S;", [], []),
            "U": ("struct U { S_tt s; S_t *p; };", "struct U;", ["S", "S_tt"], ["S_t"]),
            "V": ("struct V { struct U u[3]; S_tt *pp; };", "struct V;", ["U"], ["S_tt"]),
            "F": ("typedef float F;", None, [], []),
            "W": ("struct W { F f; struct V *v; };", "struct W;", ["F"], []),
            # a SIMD vector over a typedef'd float: float-ness travels through the vector to its users
            "VF": ("typedef F VF __attribute__((vector_size(16)));", None, ["F"], []),
            "HV": ("struct HV { VF lanes; int id; };", "struct HV;", ["VF"], []),
            "HHV": ("struct HHV { struct HV h[2]; struct W *w; };", "struct HHV;", ["HV"], ["W"]),
        }},
    # a struct that is forward declared and typedef'd before its definition and gets its float / array facts only
    # through a member of an earlier struct: the fact reaches the users of the typedef on a re-visit, not on the first sweep
    "fwdtypedef": {
        "lang": "c++", "flags": [],
        "decls": {
            "Y": ("struct Y { float f; int big[40]; };", "struct Y;", [], []),
            "X": ("struct X { Y y; };", "struct X;", ["Y"], []),
            "XT": ("typedef X XT;", None, [], ["X"]),
            "XTT": ("typedef XT XTT;", None, [], ["XT"]),
            "D": ("struct D { XT x; };", "struct D;", ["X", "XT"], []),
            "DD": ("struct DD { D d[2]; XTT inner; XT* p; };", "struct DD;", ["D", "X", "XTT"], []),
        }},
    "templates": {
        "lang": "c++", "flags": [],
        "decls": {
            "Wr": ("template<class T> struct Wr { T t; };", "template<class T> struct Wr;", [], []),
            "Vw": ("template<class T> struct Vw { Wr<T>* w; int n; };", "template<class T> struct Vw;", [], ["Wr"]),
            "Pair": ("template<class T, class U> struct Pair { T a; int b; };",
                     "template<class T, class U> struct Pair;", [], []),
            "X": ("struct X { Wr<int> wi; Vw<float> vf; };", "struct X;", ["Wr", "Vw"], []),
            "Y": ("struct Y { Pair<int, float> p; Wr<double> wd; };", "struct Y;", ["Pair", "Wr"], []),
            "Z": ("template<class T> struct Z { T arr[3]; Wr<T> w; };", "template<class T> struct Z;", ["Wr"], []),
        }},
    "blockopaque": {
        "lang": "c++", "flags": ["--blocklist-type", "B1", "--opaque-type", "O1", "--raw-line",
                                 "#[repr(C)] #[derive(Copy, Clone)] pub struct B1 { pub x: i32 }"],
        "decls": {
            "B1": ("struct B1 { int x; };", "struct B1;", [], []),
            "O1": ("struct O1 { float f; virtual void g(); };", "struct O1;", [], []),
            "H": ("struct H { B1 b; O1 o; int z; };", "struct H;", ["B1", "O1"], []),
            "K": ("struct K { H h; B1* pb; O1* po; };", "struct K;", ["H"], ["B1", "O1"]),
            "KT": ("typedef K KT;", None, [], ["K"]),
        }},
    "allowcut": {
        "lang": "c++", "flags": ["--allowlist-type", "Mid"],
        "decls": {
            "Low": ("struct Low { float f; };", "struct Low;", [], []),
            "Mid": ("struct Mid { Low l; struct Top* t; };", "struct Mid;", ["Low"], []),
            "Top": ("struct Top { Mid m; virtual ~Top(); };", "struct Top;", ["Mid"], []),
            "Un": ("struct Un { int unrelated; Top* t; };", "struct Un;", [], ["Top"]),
        }},
}


def orders_of(name, fam, maxfwd, limit, rnd):
    """All valid orders (TLC), sampled down to `limit`."""
    d = C.workdir("c07-order-" + name)
    fj = os.path.join(d, "family.json")
    decls = fam["decls"]
    with open(fj, "w") as f:
        json.dump({"decls": sorted(decls), "needs": {k: v[2] for k, v in decls.items()},
                   "uses": {k: v[3] for k, v in decls.items()},
                   "fwdable": [k for k, v in decls.items() if v[1]], "maxfwd": maxfwd}, f)
    r = C.tlc(os.path.join(C.SPEC, "core", "Gen_Order.tla"), cfg="Gen_Order.cfg", env={"FAMILY": fj},
              workers=4, timeout=1200, name="c07-gen-" + name)
    if not C.tlc_ok(r):
        raise C.ToolError("Gen_Order failed on family %s: %s" % (name, r["out"][-1200:]))
    orders = C.tlc_prints(r["out"], "ORDER")
    total = len(orders)
    if limit and total > limit:
        # deterministic sample, always keeping the lexicographically first and last
        orders.sort(key=json.dumps)
        keep = [orders[0], orders[-1]] + rnd.sample(orders[1:-1], limit - 2)
        orders = keep
    return orders, total, r


def render(fam, order):
    lines = []
    for kind, d in order:
        text = fam["decls"][d][0] if kind == "def" else fam["decls"][d][1]
        lines.append(text)
    return "\n".join(lines) + "\n"


def named_inventory(inv):
    """name -> comparable facts (derive list, generics, field list with types, repr, impls)."""
    out = {}
    for it in inv.get("items", []):
        k = it.get("kind")
        if k in ("struct", "union", "enum"):
            out[(it["mod"], it["name"])] = {
                "kind": k, "derives": sorted(it.get("derives", [])), "generics": it.get("generics", []),
                "fields": [f[:2] for f in it.get("fields", [])], "repr": it.get("repr", [])}
        elif k == "type":
            out[(it["mod"], it["name"])] = {"kind": k, "ty": it.get("ty"), "generics": it.get("generics", [])}
        elif k == "impl" and it.get("trait"):
            out.setdefault(("impl", it["name"]), []).append(it["trait"])
    for k, v in out.items():
        if isinstance(v, list):
            v.sort()
    return out


def tmpl_family(t):
    """Gen_Tmpl structure (list of {k, j, m}) -> a family in the FAMILIES format."""
    K = len(t)

    def byval(i, seen=None):
        seen = seen or set()
        if i in seen:
            return seen
        seen.add(i)
        o = t[i - 1]
        if o["k"] in ("val", "named"):
            byval(o["j"], seen)
        elif o["k"] == "nest":
            byval(o["j"], seen)
            byval(o["m"], seen)
        return seen
    decls = {"Named": ("struct Named { float f; int i; };", "struct Named;", [], [])}
    for i in range(1, K + 1):
        o = t[i - 1]
        needs, uses = [], []
        if o["k"] == "param":
            m = "A a;"
        elif o["k"] == "int":
            m = "int x;"
        elif o["k"] == "arr":
            m = "A arr[3];"
        elif o["k"] == "ptr":
            m = "T%d<A> *p;" % o["j"]
            uses = ["T%d" % o["j"]]
        elif o["k"] == "val":
            m = "T%d<A> v;" % o["j"]
            uses = ["T%d" % o["j"]]
        elif o["k"] == "nest":
            m = "T%d<T%d<A> > n;" % (o["j"], o["m"])
            uses = sorted({"T%d" % o["j"], "T%d" % o["m"]})
        else:
            m = "T%d<Named> c;" % o["j"]
            needs = sorted({"T%d" % x for x in byval(o["j"])} | {"Named"})
        decls["T%d" % i] = ("template<class A> struct T%d { %s int tag; };" % (i, m), "template<class A> struct T%d;" % i,
                            needs, [u for u in uses if u != "T%d" % i])
    for i in range(1, K + 1):
        need = sorted({"T%d" % x for x in byval(i)} | {"Named"})
        # a pointer member's pointee template must be declared when the user instantiates
        extra = sorted({"T%d" % t[x - 1]["j"] for x in byval(i) if t[x - 1]["k"] == "ptr"} - set(need))
        decls["U%d" % i] = ("struct U%d { T%d<Named> a; T%d<int> b; T%d<Named> *p; };" % (i, i, i, i), "struct U%d;" % i,
                            need, extra)
    return {"lang": "c++", "flags": [], "decls": decls, "tmpl": t}


def order_shape(fam, order):
    """For template programs: does some template use a nested instantiation T_j<T_m<A>> before T_m (or T_j)
    is defined, i.e. while it is only forward-declared?"""
    t = fam.get("tmpl")
    if not t:
        return "fixed-family"
    pos = {}
    for k, (kind, d) in enumerate(order):
        if kind == "def":
            pos[d] = k
    found = set()
    for i, o in enumerate(t, 1):
        me = pos.get("T%d" % i, 0)
        if o["k"] == "nest" and (pos.get("T%d" % o["m"], 0) > me or pos.get("T%d" % o["j"], 0) > me):
            found.add("nested")
        if o["k"] in ("val", "ptr") and pos.get("T%d" % o["j"], 0) > me:
            found.add("plain")
    if "nested" in found:
        return "nested-instantiation-of-forward-declared-template"
    if "plain" in found:
        return "instantiation-of-forward-declared-template"
    return "all-templates-defined-before-use"


def tmpl_programs(res, tier, rnd):
    r = C.tlc(os.path.join(C.SPEC, "core", "Gen_Tmpl.tla"), cfg="Gen_Tmpl.cfg", workers=4, timeout=900, name="c07-gentmpl")
    if not C.tlc_ok(r):
        raise C.ToolError("Gen_Tmpl failed: " + r["out"][-1200:])
    ts = C.tlc_prints(r["out"], "TMPL")
    res.add(states=r["distinct"], transitions=r["generated"], template_programs_enumerated=len(ts))
    ts.sort(key=json.dumps)
    # stratified by structural class: what matters to a work-list analysis is a node that is reached along
    # several dependency paths of different length (see tmpl_class): half of the programs are of the
    # "reconvergent" class, the rest covers nested+shared / nested / shared / flat
    cls = {}
    for t in ts:
        cls.setdefault(tmpl_class(t), []).append(t)
    n = 96 if tier == "thorough" else 24
    pick = []
    share = {"reconvergent": (2 * n) // 3, "nested+shared": n // 8, "nested": n // 12, "shared": n // 12}
    for c, k in share.items():
        pick += rnd.sample(cls.get(c, []), min(k, len(cls.get(c, []))))
    rest = [t for t in ts if t not in pick]
    pick += rnd.sample(rest, n - len(pick))
    res.add(template_program_classes={c: len(v) for c, v in sorted(cls.items())})
    return [("tmpl%03d" % k, tmpl_family(t)) for k, t in enumerate(pick)]


def tmpl_class(t):
    insts = {}          # template -> set of templates that instantiate it
    for i, o in enumerate(t, 1):
        for x in ([o["j"]] if o["k"] in ("val", "ptr", "named", "nest") else []) + ([o["m"]] if o["k"] == "nest" else []):
            insts.setdefault(x, set()).add(i)
    nested = [(i, o) for i, o in enumerate(t, 1) if o["k"] == "nest"]
    shared = any(len(v) >= 2 for v in insts.values())
    # re-convergent dependency paths of different length: in T_i { T_j<T_m<A>> } the inner template T_m itself
    # instantiates the outer template T_j, so the nested instantiation depends on T_j directly and through its
    # argument; and some third template instantiates T_j too (it can settle T_j's result early or late)
    # (only instantiations that pass the template parameter on count here: `T_j<Named>` has a concrete argument)
    pinsts = {}
    for i, o in enumerate(t, 1):
        for x in ([o["j"]] if o["k"] in ("val", "ptr", "nest") else []) + ([o["m"]] if o["k"] == "nest" else []):
            pinsts.setdefault(x, set()).add(i)
    for i, o in nested:
        if o["j"] != o["m"] and o["m"] in pinsts.get(o["j"], ()) and pinsts.get(o["j"], set()) - {i, o["m"]}:
            return "reconvergent"
    if nested and any(len(insts.get(o["j"], ())) >= 2 for _, o in nested):
        return "nested+shared"
    if nested:
        return "nested"
    return "shared" if shared else "flat"


def perm_orders(fam, limit=24, fwd=False):
    """Every order of the template definitions in which each template is defined before it is used (with
    fwd=True: any order that respects by-value needs, forward declarations put in front of the first use
    of a template that is not yet defined); Named first, the users last."""
    import itertools
    decls = fam["decls"]
    tmpls = sorted(d for d in decls if d.startswith("T"))
    users = sorted(d for d in decls if d.startswith("U"))
    out = []
    for perm in itertools.permutations(tmpls):
        order, defined, declared, ok = [["def", "Named"]], {"Named"}, {"Named"}, True
        for d in perm:
            if any(x not in defined for x in decls[d][2]):
                ok = False
                break
            for u in decls[d][3]:
                if u not in declared:
                    if not fwd:
                        ok = False
                        break
                    order.append(["fwd", u])
                    declared.add(u)
            if not ok:
                break
            order.append(["def", d])
            defined.add(d)
            declared.add(d)
        if ok:
            out.append(order + [["def", u] for u in users])
    return out[:limit]


def clang_accepts(path, lang):
    p = subprocess.run(["clang", "-fsyntax-only", "-w", "-x", lang, path], stdout=subprocess.PIPE, stderr=subprocess.PIPE)
    return p.returncode == 0


def multi_orders(fams, n_per, depth, seed):
    """Random valid orders of many families in ONE TLC simulation run: {family index: [orders]}"""
    d = C.workdir("c07-multi")
    fj = os.path.join(d, "families.json")
    with open(fj, "w") as f:
        json.dump([{"decls": sorted(fam["decls"]), "needs": {k: v[2] for k, v in fam["decls"].items()},
                    "uses": {k: v[3] for k, v in fam["decls"].items()},
                    "fwdable": [k for k, v in fam["decls"].items() if v[1]], "maxfwd": 2} for _, fam in fams], f)
    r = C.tlc(os.path.join(C.SPEC, "core", "Gen_OrderMulti.tla"), cfg="Gen_OrderMulti.cfg", env={"FAMILY": fj},
              workers=1, simulate=n_per * len(fams) * 3, depth=depth, timeout=900, name="c07-multi",
              extra=["-seed", str(seed)])
    out = {}
    for o in C.tlc_prints(r["out"], "ORDER"):
        lst = out.setdefault(o["f"], [])
        if o["order"] not in lst and len(lst) < n_per:
            lst.append(o["order"])
    if len(out) < len(fams):
        raise C.ToolError("Gen_OrderMulti produced orders for %d of %d programs: %s" % (len(out), len(fams), r["out"][-600:]))
    return out, r


def run_family(res, name, fam, orders):
    """Render one program under the given orders -> generation jobs."""
    d = C.workdir("c07-r2-" + name)
    cases = []
    ext = ".hpp" if fam["lang"] == "c++" else ".h"
    for i, o in enumerate(orders):
        hp = os.path.join(d, "o%04d%s" % (i, ext))
        with open(hp, "w") as f:
            f.write(render(fam, o))
        if not clang_accepts(hp, "c++"):
            res.notes.append("generated order not accepted by clang, skipped: %s #%d" % (name, i))
            continue
        args = ["bindgen", "--formatter=none", "--disable-header-comment", hp] + DERIVES + fam["flags"]
        cases.append({"id": "%s-o%04d" % (name, i), "args": args, "callbacks": None, "order": o})
    return cases


def run(res, tier, validate, report):
    rnd = random.Random(C.seed() * 1000003 + 7)
    limit = 400 if tier == "thorough" else 40
    maxfwd = 3 if tier == "thorough" else 2
    total_orders = used = 0
    gen_states = gen_trans = 0
    fams = sorted(FAMILIES.items())
    for name, fam in fams:
        orders, total, r = orders_of(name, fam, maxfwd, limit, rnd)
        total_orders += total
        gen_states += r["distinct"]
        gen_trans += r["generated"]
        d = C.workdir("c07-r2-" + name)
        cases = []
        ext = ".hpp" if fam["lang"] == "c++" else ".h"
        for i, o in enumerate(orders):
            hp = os.path.join(d, "o%04d%s" % (i, ext))
            with open(hp, "w") as f:
                f.write(render(fam, o))
            args = ["bindgen", "--formatter=none", "--disable-header-comment", hp] + DERIVES + fam["flags"]
            cases.append({"id": "%s-o%04d" % (name, i), "args": args, "callbacks": None, "order": o})
        dd, out = C.run_cases_logged(cases, "c07-r2run-" + name)
        used += len(cases)
        # every run is a trace to validate against the analyses spec
        viol, drift, counts, tr = validate(res, dd, [c["id"] for c in cases], "r2-" + name)
        report(res, viol)
        res.add(traces_validated_against_impl=counts.get("cases", 0), lookups_checked=counts.get("lookups", 0))
        invs = C.inventory([os.path.join(dd, c["id"] + ".rs") for c in cases])
        base = None
        for c in cases:
            o = out.get(c["id"], {})
            if o.get("outcome") != "ok":
                # the renderer only produces headers clang accepts; anything else is a generator bug
                raise C.ToolError("generated order rejected: %s %s %s" % (c["id"], o.get("outcome"), o.get("msg", "")[:300]))
            inv = named_inventory(invs.get(os.path.join(dd, c["id"] + ".rs"), {}))
            if base is None:
                base, base_case = inv, c
                continue
            if inv != base:
                diff = sorted(str(k) for k in set(inv) | set(base) if inv.get(k) != base.get(k))
                shapes = sorted({order_shape(fam, base_case["order"]), order_shape(fam, c["order"])})
                res.violation("order-dependent:%s:%s" % (name, "+".join(shapes)),
                              {"family": name, "order_a": base_case["order"], "order_b": c["order"],
                               
                               "a": {str(k): v for k, v in base.items() if str(k) in diff},
                               "b": {str(k): v for k, v in inv.items() if str(k) in diff},
                               "header_b": render(fam, c["order"])})
        res.sample_case({"family": name, "orders_enumerated": total, "orders_run": len(cases),
                         "example_order": orders[min(1, len(orders) - 1)]})
    # ---- TLC-generated template programs: one simulation run for the orders, one batch, one trace ----------
    tm = tmpl_programs(res, tier, rnd)
    orders, r = multi_orders(tm, 10 if tier == "thorough" else 5, 16, C.seed() + 3)
    norders = sum(len(v) for v in orders.values())
    gen_states += max(r["distinct"], norders)
    gen_trans += max(r["generated"], norders)
    allcases, per = [], {}
    for k, (name, fam) in enumerate(tm, 1):
        os_ = list(orders.get(k, []))
        if tmpl_class(fam["tmpl"]) in ("reconvergent", "nested+shared"):
            # the class where the relative order of independent templates decides who is popped first:
            # every order of the definitions, not a sample
            po = perm_orders(fam)
            if len(po) < 4:      # pointers to later templates: no (or few) define-before-use orders
                po += [o for o in perm_orders(fam, limit=24, fwd=True) if o not in po][:6 - len(po)]
            os_ = os_[:2] + [o for o in po if o not in os_[:2]]
        cases = run_family(res, name, fam, os_)
        per[name] = (fam, cases)
        allcases += cases
    dd, out = C.run_cases_logged(allcases, "c07-r2run-tmpl")
    used += len(allcases)
    total_orders += len(allcases)
    viol, drift, counts, tr = validate(res, dd, [c["id"] for c in allcases], "r2-tmpl")
    report(res, viol)
    res.add(traces_validated_against_impl=counts.get("cases", 0), lookups_checked=counts.get("lookups", 0))
    invs = C.inventory([os.path.join(dd, c["id"] + ".rs") for c in allcases])
    for name, (fam, cases) in sorted(per.items()):
        base = None
        # orders of the same shape first (define-before-use orders are compared among themselves, so that a
        # difference there is not attributed to the recorded forward-declaration finding), shapes in a fixed order
        cases = sorted(cases, key=lambda c: (order_shape(fam, c["order"]), c["id"]))
        for c in cases:
            o = out.get(c["id"], {})
            if o.get("outcome") != "ok":
                res.notes.append("template program order not generated (%s): %s" % (o.get("outcome"), c["id"]))
                continue
            inv = named_inventory(invs.get(os.path.join(dd, c["id"] + ".rs"), {}))
            if base is None:
                base, base_case = inv, c
                continue
            if inv != base:
                diff = sorted(str(k) for k in set(inv) | set(base) if inv.get(k) != base.get(k))
                shapes = sorted({order_shape(fam, base_case["order"]), order_shape(fam, c["order"])})
                res.violation("order-dependent:tmpl:%s" % "+".join(shapes),
                              {"family": name, "order_a": base_case["order"], "order_b": c["order"],
                               "a": {str(k): v for k, v in base.items() if str(k) in diff},
                               "b": {str(k): v for k, v in inv.items() if str(k) in diff},
                               "header_a": render(fam, base_case["order"]), "header_b": render(fam, c["order"])})
    res.sample_case({"template_program": tm[0][1]["tmpl"], "orders_run": len(per[tm[0][0]][1])})
    res.add(declaration_orders_enumerated=total_orders, declaration_orders_run=used,
            states=gen_states, transitions=gen_trans, template_programs_run=len(tm))
