#!/bin/bash
# usage: [VERIF_SEED=n] lib/runall.sh [tier] [checks...]   - runs the registered commands one after the other, prints a summary
exec < /dev/null
cd "$(dirname "$0")/.."
TIER=${1:-quick}; shift
CHECKS=${*:-C01 C02 C03 C04 C05 C06 C07 C08 C09 C10 C11 C12 C13 C14 C15 C16 C17 C18}
OUT=runall-out/seed${VERIF_SEED:-0}-$TIER; mkdir -p $OUT
./bin/setup > $OUT/setup.out 2>&1 || { echo "setup failed"; tail -5 $OUT/setup.out; exit 2; }
for c in $CHECKS; do
  s=$(date +%s)
  ./bin/check $c --tier $TIER > $OUT/$c.out 2>&1; rc=$?
  e=$(date +%s)
  echo "$c seed=${VERIF_SEED:-0} tier=$TIER rc=$rc secs=$((e-s)) violations=$(grep -c '^VIOLATION' $OUT/$c.out)"
  if [ $rc -ne 0 ]; then grep -E "^(violation|TOOL-ERROR|VIOLATION)" $OUT/$c.out | cut -c1-700 | head -8; cp replays/$c-$TIER.json $OUT/ 2>/dev/null; fi
done
