"""Rendering of Gen_Layout declarations and the clang / rustc / linked probes (C02, C06, C10)."""
import json
import os
import subprocess

import common as C

PRELUDE = """typedef long int_fast16_t;   /* what glibc's <stdint.h> says on LP64; no sysroot needed for other targets */
typedef float v4f_t __attribute__((vector_size(16)));
struct nested_t { int a; char b; };
struct wide_t { double x; int y; char z; double q; };
enum en_t { E0, E1 };
"""
CTYPE = {"c": "signed char %s", "s": "short %s", "i": "int %s", "d": "double %s", "p": "void *%s",
         "l": "long double %s", "a": "char %s[3]", "n": "struct nested_t %s", "e": "enum en_t %s",
         "z": "int %s[0]", "w": "struct wide_t %s", "f": "int_fast16_t %s", "v": "v4f_t %s"}


def tok(k):
    return (k * 7 + 3) % 100 + 1


def c_decl(name, d):
    attrs = ""
    if d["packed"]:
        attrs += " __attribute__((packed))"
    if d["aligned"]:
        attrs += " __attribute__((aligned(%d)))" % d["aligned"]
    lines = []
    if d["pack"]:
        lines.append("#pragma pack(push, %d)" % d["pack"])
    lines.append("%s%s %s {" % (d["kind"], attrs, name))
    for j, code in enumerate(d["codes"]):
        m = CTYPE[code] % ("f%d" % j)
        if d["malign"] and d["mfield"] == j + 1:
            m += " __attribute__((aligned(%d)))" % d["malign"]
        lines.append("  %s;" % m)
    lines.append("};")
    if d["pack"]:
        lines.append("#pragma pack(pop)")
    return "\n".join(lines)


def c_fill_check(name, d):
    """C functions: fill_<name>(p) stores a token per member; check_<name>(p) returns a mask of
    members that do not hold their token. Unions: first member only."""
    kw = d["kind"]
    fill, chk = [], []
    for j, code in enumerate(d["codes"]):
        if kw == "union" and j > 0:
            break
        v = tok(j)
        f = "p->f%d" % j
        if code in "csief":
            fill.append("%s = %d;" % (f, v))
            chk.append("if (%s != %d) m |= 1u << %d;" % (f, v, j))
        elif code == "d":
            fill.append("%s = %d.5;" % (f, v))
            chk.append("if (%s != %d.5) m |= 1u << %d;" % (f, v, j))
        elif code == "p":
            fill.append("%s = (void*)(unsigned long)%d;" % (f, v))
            chk.append("if (%s != (void*)(unsigned long)%d) m |= 1u << %d;" % (f, v, j))
        elif code == "a":
            fill.append("%s[0] = %d; %s[1] = %d; %s[2] = %d;" % (f, v, f, v + 1, f, v + 2))
            chk.append("if (%s[0] != %d || %s[1] != %d || %s[2] != %d) m |= 1u << %d;" % (f, v, f, v + 1, f, v + 2, j))
        elif code == "n":
            fill.append("%s.a = %d; %s.b = %d;" % (f, v, f, v + 1))
            chk.append("if (%s.a != %d || %s.b != %d) m |= 1u << %d;" % (f, v, f, v + 1, j))
        elif code == "w":
            fill.append("%s.x = %d.25; %s.y = %d; %s.z = %d;" % (f, v, f, v + 1, f, v + 2))
            chk.append("if (%s.x != %d.25 || %s.y != %d || %s.z != %d) m |= 1u << %d;" % (f, v, f, v + 1, f, v + 2, j))
    return ("void fill_%s(%s %s *p) { %s }\nunsigned check_%s(const %s %s *p) { unsigned m = 0; %s return m; }\n"
            % (name, kw, name, " ".join(fill), name, kw, name, " ".join(chk)))


def rust_io(name, d, mod):
    """Rust statements: read each member of an object filled by C (-> mismatch mask), then build an
    object through the bindings and let C check it."""
    un = d["kind"] == "union"
    rd, wr = [], []
    for j, code in enumerate(d["codes"]):
        if un and j > 0:
            break
        v = tok(j)
        f = "f%d" % j
        get = ("unsafe { o.%s }" % f) if un else ("{ o.%s }" % f)
        if code in "csief":
            rd.append("if (%s) as i64 != %d { m |= 1 << %d; }" % (get, v, j))
            wr.append("o.%s = %d as _;" % (f, v))
        elif code == "d":
            rd.append("if (%s) != %d.5f64 { m |= 1 << %d; }" % (get, v, j))
            wr.append("o.%s = %d.5f64;" % (f, v))
        elif code == "p":
            rd.append("if (%s) as usize != %d { m |= 1 << %d; }" % (get, v, j))
            wr.append("o.%s = %d as usize as *mut ::std::os::raw::c_void;" % (f, v))
        elif code == "a":
            rd.append("{ let t = %s; if t[0] as i64 != %d || t[1] as i64 != %d || t[2] as i64 != %d { m |= 1 << %d; } }" % (get, v, v + 1, v + 2, j))
            wr.append("o.%s = [%d as _, %d as _, %d as _];" % (f, v, v + 1, v + 2))
        elif code == "n":
            rd.append("{ let t = %s; if {t.a} as i64 != %d || {t.b} as i64 != %d { m |= 1 << %d; } }" % (get, v, v + 1, j))
            wr.append("{ let mut t: %s::nested_t = unsafe { ::std::mem::zeroed() }; t.a = %d as _; t.b = %d as _; o.%s = t; }" % (mod, v, v + 1, f))
        elif code == "w":
            rd.append("{ let t = %s; if {t.x} != %d.25f64 || {t.y} as i64 != %d || {t.z} as i64 != %d { m |= 1 << %d; } }" % (get, v, v + 1, v + 2, j))
            wr.append("{ let mut t: %s::wide_t = unsafe { ::std::mem::zeroed() }; t.x = %d.25f64; t.y = %d as _; t.z = %d as _; o.%s = t; }" % (mod, v, v + 1, v + 2, f))
    return rd, wr


def run_clang_probe(w, header, names, decls, extra_flags=()):
    """sizeof/_Alignof/offsetof of every declaration -> {name: {size, align, offsets}}"""
    src = os.path.join(w, "cprobe.c")
    with open(src, "w") as f:
        f.write('#include <stdio.h>\n#include <stddef.h>\n#include "%s"\nint main(void) {\n' % header)
        for n, d in zip(names, decls):
            offs = ",".join('(long)offsetof(%s %s, f%d)' % (d["kind"], n, j) for j in range(len(d["codes"])))
            fmt = ",".join(["%ld"] * len(d["codes"]))
            f.write('printf("{\\"n\\":\\"%s\\",\\"size\\":%%ld,\\"align\\":%%ld,\\"offsets\\":[%s]}\\n", (long)sizeof(%s %s), (long)_Alignof(%s %s)%s);\n'
                    % (n, fmt, d["kind"], n, d["kind"], n, ("," + offs) if offs else ""))
        f.write("return 0; }\n")
    exe = os.path.join(w, "cprobe")
    p = subprocess.run(["clang", "-w", "-o", exe, src] + list(extra_flags), stdout=subprocess.PIPE,
                       stderr=subprocess.STDOUT, text=True)
    if p.returncode != 0:
        raise C.ToolError("clang probe failed: " + p.stdout[-1500:])
    q = subprocess.run([exe], stdout=subprocess.PIPE, text=True)
    out = {}
    for line in q.stdout.splitlines():
        v = json.loads(line)
        out[v["n"]] = v
    return out


def run_rust_probe(w, bindings_text, names, decls, cobj=None, tag="rprobe"):
    """size_of/align_of/offset_of! (+ value round trip when cobj is given) through the bindings.
    Returns ({name: {...}}, error text or None)."""
    src = os.path.join(w, tag + ".rs")
    with open(src, "w") as f:
        f.write("#![allow(warnings)]\npub mod b {\n%s\n}\n" % bindings_text)
        if cobj:
            f.write('extern "C" {\n')
            for n in names:
                f.write("fn fill_%s(p: *mut b::%s); fn check_%s(p: *const b::%s) -> u32;\n" % (n, n, n, n))
            f.write("}\n")
        f.write("fn main() {\n")
        for n, d in zip(names, decls):
            offs = ",".join("::std::mem::offset_of!(b::%s, f%d)" % (n, j) for j in range(len(d["codes"])))
            f.write("{ let offs: Vec<usize> = vec![%s];" % offs)
            if cobj:
                rd, wr = rust_io(n, d, "b")
                f.write(" let mut o: b::%s = unsafe { ::std::mem::zeroed() }; unsafe { fill_%s(&mut o) }; let mut m: u32 = 0; %s"
                        % (n, n, " ".join(rd)))
                f.write(" let rd = m; let mut o: b::%s = unsafe { ::std::mem::zeroed() }; %s let wr = unsafe { check_%s(&o) };"
                        % (n, " ".join(wr), n))
            else:
                f.write(" let rd = 0u32; let wr = 0u32;")
            f.write(' println!("{{\\"n\\":\\"%s\\",\\"size\\":{},\\"align\\":{},\\"offsets\\":{:?},\\"rd\\":{},\\"wr\\":{}}}", '
                    "::std::mem::size_of::<b::%s>(), ::std::mem::align_of::<b::%s>(), offs, rd, wr); }\n" % (n, n, n))
        f.write("}\n")
    exe = os.path.join(w, tag)
    cmd = ["rustc", "--edition", "2021", "-o", exe, src]
    if cobj:
        cmd += ["-C", "link-arg=" + cobj]
    p = subprocess.run(cmd, stdout=subprocess.PIPE, stderr=subprocess.STDOUT, text=True)
    if p.returncode != 0:
        return {}, p.stdout
    q = subprocess.run([exe], stdout=subprocess.PIPE, stderr=subprocess.PIPE, text=True)
    out = {}
    for line in q.stdout.splitlines():
        try:
            v = json.loads(line)
            out[v["n"]] = v
        except Exception:
            pass
    if q.returncode != 0:
        return out, "probe exited with %d: %s" % (q.returncode, q.stderr[-500:])
    return out, None
