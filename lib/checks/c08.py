"""C08 - traits derived exactly when the rules allow; hand-written impls act like derives.

model : MC_Derive.tla - fix-point derivability (IRRules, what the code computes) = derivability by
        direct recursion (DeriveRules) on every small graph, every trait; MC_Analyses derive configs
T     : Trace_Analyses.tla `comp` events: the derive set / manual-impl decisions of every composite of
        the corpus and of generated programs = DeriveRules!DeriveSet on the real graph
R     : TLC-enumerated option sets (Gen_DeriveOpts) x shape families -> real CLI -> (a) derives in the
        emitted text = spec prediction, (b) rustc: all outputs compile, positive trait-bound probes for
        every predicted trait incl. hand-written impls, negative probes for predicted-absent traits,
        (c) executed: default() is all-zero bytes incl. padding, eq() reflexive / detects a changed
        member byte, fmt() does not panic.
"""
import json
import os
import re
import subprocess

import common as C

LEVEL = "model_checking"
CORE = os.path.join(C.SPEC, "core")
DER = os.path.join(C.SPEC, "derive")
EVENTS = {"reset", "ir", "vouch", "an_done", "lookup", "gen_end", "phase", "comp"}

SHAPES = {
    "plain": ("c", "struct plain { int a; char b; short c; };\nstruct holder { struct plain p; struct plain arr[2]; };\n"),
    "floats": ("c", "struct f1 { float f; int i; };\nstruct f2 { struct f1 in; double d[3]; };\ntypedef struct f2 f2_t;\nstruct f3 { f2_t t; };\n"),
    # wide floating types: bound as u128 where they are 16 bytes, as f64 where `long double` is 8 bytes (msvc)
    "wide-floats": ("c", "struct w1 { long double ld; int i; };\nstruct w2 { struct w1 in; long double arr[2]; };\nstruct w3 { __float128 q; };\n"),
    "wide-floats-msvc": ("c", "struct w1 { long double ld; int i; };\nstruct w2 { struct w1 in; long double arr[2]; };\n"),
    # SIMD vectors: of builtins and of typedef'd elements (the element decides float-ness)
    "vectors": ("c", "typedef float float32_t;\ntypedef float32_t float32x4_t __attribute__((vector_size(16)));\n"
                     "typedef int int32x4_t __attribute__((vector_size(16)));\ntypedef short lane_t;\ntypedef lane_t lanes8_t __attribute__((vector_size(16)));\n"
                     "struct Particle { float32x4_t pos; int id; };\nstruct Control { int32x4_t mask; lanes8_t lanes; };\nstruct Both { struct Particle p; struct Control c; };\n"),
    "ptrs": ("c", "struct p1 { int *p; };\nstruct p2 { struct p1 in; void (*cb)(int); };\n"),
    "bigarr": ("c", "struct b1 { int a[33]; };\nstruct b2 { int a[32]; };\nstruct b3 { struct b1 in; char c; };\nstruct b4 { float f[40]; };\n"),
    "nested-arrays": ("c", "struct n1 { int rows[2][40]; };\ntypedef unsigned char block_t[48];\nstruct n2 { block_t b[3]; int small[2][3]; };\n"
                           "struct cbs { void (*f)(int,int,int,int,int,int,int,int,int,int,int,int,int); };\nstruct n3 { struct cbs arr[2]; };\nstruct n4 { float m[3][33]; };\n"),
    "fn-typedefs": ("c", "typedef void big_fn(int,int,int,int,int,int,int,int,int,int,int,int,int);\ntypedef int small_fn(int);\n"
                         "struct via_td { big_fn *cb; };\nstruct small_td { small_fn *cb; int x; };\nstruct inline_fp { void (*cb)(int,int,int,int,int,int,int,int,int,int,int,int,int); };\n"
                         "typedef big_fn *big_fn_ptr;\nstruct via_ptr_td { big_fn_ptr p; big_fn_ptr arr[2]; };\n"),
    "two-units": ("c", "struct tu { unsigned a:7; char sep; unsigned long long b0:64; unsigned long long b1:64; unsigned long long b2:64; unsigned long long b3:64; unsigned long long b4:8; };\n"),
    "incomplete": ("c", "struct inc { int n; char tail[]; };\nstruct zero { int n; int z[0]; };\n"),
    "fnptr13": ("c", "typedef void (*big_fn)(int,int,int,int,int,int,int,int,int,int,int,int,int);\nstruct fp { big_fn f; };\nstruct fp12 { void (*g)(int,int,int,int,int,int,int,int,int,int,int,int); };\n"
                     # the limit counts the named parameters: a variadic tail is not one
                     "struct fpv12 { int (*t)(int,int,int,int,int,int,int,int,int,int,int,int, ...); };\n"
                     "struct fpv13 { int (*t)(int,int,int,int,int,int,int,int,int,int,int,int,int, ...); };\n"
                     "struct hfpv { struct fpv12 a; struct fpv12 arr[2]; };\n"),
    "unions": ("c", "union u1 { int i; float f; };\nstruct hu { union u1 u; int tag; };\nunion u2 { struct hu h; char c[64]; };\n"),
    "packed": ("c", "struct __attribute__((packed)) pk { char c; int i; };\nstruct __attribute__((packed)) pkarr { char c; int a[40]; };\nstruct pkh { struct pk p; };\n"),
    "bitfields": ("c", "struct bf { unsigned a:3; unsigned b:5; int c; };\nstruct bfbig { unsigned long long x:40; unsigned long long y:40; char arr[40]; };\n"),
    "enums": ("c", "enum e1 { A, B };\nstruct he { enum e1 e; int i; };\n"),
    "aligned": ("c", "struct __attribute__((aligned(64))) al { int i; };\nstruct hal { struct al a; };\n"),
    "cxx": ("c++", "struct vt { virtual void m(); int i; };\nstruct dt { ~dt(); int i; };\nstruct hvt { vt v; };\nstruct hdt { dt d; };\ntemplate<class T> struct tp { T t; T arr[3]; };\nstruct utp { tp<int> a; tp<float> b; };\nstruct fwd;\nstruct ufwd { fwd* p; };\n"),
    # facts that reach a class only through its bases (float, destructor, vtable, large array)
    "cxx-bases": ("c++", "struct fb { float f; };\nstruct fd : fb { int i; };\nstruct fdd : fd { char c; };\nstruct hfdd { fdd m; fdd arr[2]; };\n"
                         "struct db { ~db(); int i; };\nstruct dd : db { int j; };\nstruct hdd { dd m; };\n"
                         "struct vb { virtual void m(); };\nstruct vd : vb { int k; };\n"
                         "struct ab { int a[40]; };\nstruct ad : ab { int l; };\nstruct had { ad m; };\n"),
    # an opaque union is still emitted as a Rust union (Copy, Clone only): what contains it by value must not derive more
    "opaque-union": ("c", "union value { int i; float f; unsigned char raw[8]; };\nstruct holder { union value v; int tag; };\nstruct harr { union value vs[2]; };\n"),
    "noderive": ("c", "struct nd { int i; };\nstruct hnd { struct nd n; };\n"),
    "blocked": ("c", "struct blk { int i; };\nstruct hblk { struct blk b; int j; };\nstruct pblk { struct blk *b; };\n"),
}
EXTRA_FLAGS = {
    "noderive": ["--no-copy", "nd", "--no-debug", "nd", "--no-default", "nd", "--no-hash", "nd", "--no-partialeq", "nd"],
    "wide-floats-msvc": ["--", "--target=x86_64-pc-windows-msvc"],
    "opaque-union": ["--opaque-type", "value"],
    "blocked": ["--blocklist-type", "blk", "--raw-line", "#[repr(C)] #[derive(Debug, Copy, Clone)] pub struct blk { pub i: i32 }"],
}
OPT_FLAGS = {
    "derive_copy": ("", "--no-derive-copy"), "derive_debug": ("", "--no-derive-debug"),
    "derive_default": ("--with-derive-default", ""), "derive_hash": ("--with-derive-hash", ""),
    "derive_partialeq": ("--with-derive-partialeq", ""), "derive_partialord": ("--with-derive-partialord", ""),
    "derive_eq": ("--with-derive-eq", ""), "derive_ord": ("--with-derive-ord", ""),
    "impl_debug": ("--impl-debug", ""), "impl_partialeq": ("--impl-partialeq", ""),
    "bindgen_union": ("--default-non-copy-union-style=bindgen_wrapper", "--default-non-copy-union-style=manually_drop"),
}
TRAIT_PATH = {"Copy": "Copy", "Clone": "Clone", "Debug": "::std::fmt::Debug", "Default": "Default",
              "Hash": "::std::hash::Hash", "PartialEq": "PartialEq", "Eq": "Eq", "PartialOrd": "PartialOrd",
              "Ord": "Ord"}


def model(res, tier):
    st = tr = 0
    cfgs = [("MC_Derive.tla", DER, "MC_Derive.cfg")]
    for mod, d, cfg in cfgs:
        cfgp = cfg
        if tier == "thorough":
            cfgp = os.path.join(C.workdir("c08-cfg"), "MC_Derive_3.cfg")
            with open(os.path.join(d, cfg)) as f:
                t = f.read().replace("N = 2", "N = 3")
            with open(cfgp, "w") as f:
                f.write(t)
        r = C.tlc(os.path.join(d, mod), cfg=cfgp, workers=12, timeout=3000, name="c08-" + cfg)
        if not C.tlc_ok(r):
            raise C.ToolError("model %s failed: %s" % (cfg, r["out"][-1500:]))
        st += r["distinct"]
        tr += r["generated"]
    r = C.tlc(os.path.join(DER, "MC_Derive.tla"), cfg="MC_Derive_tiers_fail.cfg", workers=4, timeout=600,
              name="c08-sens")
    if "is violated" not in r["out"]:
        raise C.ToolError("sensitivity config MC_Derive_tiers_fail did not fail")
    res.add(states=st, transitions=tr, sensitivity_configs_failing_as_expected=1)


def validate(res, d, ids, name):
    trace = os.path.join(C.workdir("c08-trace-" + name), "trace.ndjson")
    n = C.build_trace(d, ids, EVENTS, trace)
    if n == 0:
        return {}
    r = C.tlc(os.path.join(CORE, "Trace_Analyses.tla"), cfg="Trace_Analyses.cfg", env={"TRACE": trace},
              workers=1, dfs=True, timeout=3000, name="c08-tv-" + name)
    os.remove(trace)
    if not C.tlc_ok(r):
        raise C.ToolError("trace validation did not complete (%s): %s" % (name, r["out"][-1500:]))
    dv = (C.tlc_prints(r["out"], "DVIOL") or [[]])[0]
    counts = (C.tlc_prints(r["out"], "COUNTS") or [{}])[0]
    for v in dv:
        res.violation("%s:%s:%s" % (v["kind"], v.get("trait"), v.get("case")), v)
    res.add(traces_validated_against_impl=counts.get("cases", 0), composites_checked=counts.get("comps", 0),
            trace_states=r["distinct"])
    return counts


def option_sets(res, tier):
    """TLC enumerates option vectors: pairwise-covering in quick, all 2^11 sampled in thorough."""
    r = C.tlc(os.path.join(DER, "Gen_DeriveOpts.tla"), cfg="Gen_DeriveOpts.cfg", workers=4, timeout=600,
              name="c08-genopts")
    if not C.tlc_ok(r):
        raise C.ToolError("Gen_DeriveOpts failed: " + r["out"][-1200:])
    sets = C.tlc_prints(r["out"], "OPTS")
    res.add(states=r["distinct"], transitions=r["generated"])
    import random
    rnd = random.Random(C.seed() + 17)
    sets.sort(key=json.dumps)
    n = 60 if tier == "thorough" else 14
    # greedy pairwise cover first, then random fill
    chosen, covered = [], set()
    names = sorted(OPT_FLAGS)

    def pairs(s):
        return {(a, s[a], b, s[b]) for i, a in enumerate(names) for b in names[i + 1:]}
    pool = list(sets)
    rnd.shuffle(pool)
    while pool and len(chosen) < n:
        best = max(pool[:200], key=lambda s: len(pairs(s) - covered))
        if not (pairs(best) - covered) and len(chosen) >= 8:
            break
        chosen.append(best)
        covered |= pairs(best)
        pool.remove(best)
    while len(chosen) < n and pool:
        chosen.append(pool.pop())
    return chosen, len(sets)


def flags_of(opt):
    out = []
    for k, (on, off) in OPT_FLAGS.items():
        f = on if opt[k] else off
        if f:
            out.append(f)
    return out


def derive_line(item):
    return sorted(item.get("derives", []))


def run(res, tier):
    res.assumptions += [
        "documented rules = spec/derive/DeriveRules.tla (direct recursion) + the option gates; the corpus agrees on all composites",
        "a float hidden inside an opaque blob does not forbid Hash (the blob is an integer array)",
        "trait presence is judged by rustc (trait-bound probes); behaviour of hand-written impls by execution on the host",
    ]
    C.build()
    model(res, tier)

    # ---- T: corpus ---------------------------------------------------------------------------
    cases = C.corpus_cases()
    sel = C.sample(cases, None if tier == "thorough" else 200, "c08-t")
    d, out = C.run_cases_logged(sel, "c08-corpus")
    validate(res, d, [c["id"] for c in sel], "corpus")

    # ---- R: shapes x option sets ----------------------------------------------------------------
    opts, nall = option_sets(res, tier)
    w = C.workdir("c08-shapes")
    jobs = []
    meta = {}
    for sname, (lang, text) in sorted(SHAPES.items()):
        hp = os.path.join(w, sname + (".hpp" if lang == "c++" else ".h"))
        with open(hp, "w") as f:
            f.write(text)
        for i, o in enumerate(opts):
            jid = "%s-o%02d" % (sname, i)
            args = ["bindgen", "--formatter=none", "--disable-header-comment", "--no-layout-tests", hp] + \
                flags_of(o) + EXTRA_FLAGS.get(sname, [])
            jobs.append({"id": jid, "args": args, "callbacks": None})
            meta[jid] = (sname, o)
    dd, out2 = C.run_cases_logged(jobs, "c08-run")
    validate(res, dd, [j["id"] for j in jobs], "shapes")
    # (a) the emitted text carries exactly the derives of the decision event
    invs = C.inventory([os.path.join(dd, j["id"] + ".rs") for j in jobs])
    probes = []
    for j in jobs:
        jid = j["id"]
        if out2.get(jid, {}).get("outcome") != "ok":
            raise C.ToolError("shape run failed: %s %s" % (jid, out2.get(jid)))
        comps = {}
        with open(os.path.join(dd, jid + ".ndjson")) as f:
            for line in f:
                if line.startswith('{"ev":"comp"'):
                    e = json.loads(line)
                    comps[e["name"]] = e
        inv = invs.get(os.path.join(dd, jid + ".rs"), {})
        impls = {}
        for it in inv.get("items", []):
            if it.get("kind") == "impl" and it.get("trait"):
                impls.setdefault(it["name"].split("<")[0], set()).add(it["trait"].split("::")[-1])
        for it in inv.get("items", []):
            if it.get("kind") in ("struct", "union") and it["name"] in comps:
                e = comps[it["name"]]
                if sorted(e["derives"]) != derive_line(it):
                    res.violation("emitted-derives-differ-from-decision:%s" % meta[jid][0],
                                  {"case": jid, "item": it["name"], "text": derive_line(it), "decision": e["derives"]})
                have = set(e["derives"]) | impls.get(it["name"], set())
                generic = bool(it.get("generics"))
                probes.append((jid, it["name"], have, generic, e))
    # (b) rustc: everything compiles; trait-bound probes
    texts, pnames = [], []
    for j in jobs:
        with open(os.path.join(dd, j["id"] + ".rs")) as f:
            body = f.read()
        mine = [p for p in probes if p[0] == j["id"] and not p[3]]
        probe_src = ["pub fn __needs<T: ?Sized>() {}"]
        k = 0
        for (_, name, have, generic, e) in mine:
            for t in sorted(have):
                if t in TRAIT_PATH:
                    probe_src.append("pub fn __p%d() { fn needs<T: %s>() {} needs::<%s>(); }" % (k, TRAIT_PATH[t], name))
                    k += 1
        texts.append(body + "\n" + "\n".join(probe_src))
        pnames.append(j["id"])
    from checks.c09 import rustc_batch
    bad, msg = rustc_batch(texts, w, "probes")
    for k in bad:
        # classify by the compiler's own diagnosis so that distinct failures get distinct keys
        _, m1 = rustc_batch([texts[k]], w, "single")
        codes = sorted(set(re.findall(r"error\[(E\d+)\]", m1)))
        what = ""
        mm = re.search(r"`(\w+(?:::\w+)*)` doesn't implement `(\w+)`", m1) or \
            re.search(r"the trait bound `[^`]*: ([\w:]+)` is not satisfied", m1) or \
            re.search(r"(reference to field of packed struct is unaligned)", m1) or \
            re.search(r"binary operation `(..?)` cannot be applied", m1)
        if mm:
            what = mm.group(mm.lastindex).split("::")[-1].replace(" ", "-")
        o = meta[pnames[k]][1]
        res.violation("typecheck:%s:%s:%s:copy=%s:impl_debug=%s" % (meta[pnames[k]][0], "+".join(codes), what,
                                                                   o["derive_copy"], o["impl_debug"]),
                      {"case": pnames[k], "options": meta[pnames[k]][1], "flags": flags_of(meta[pnames[k]][1]),
                       "header": SHAPES[meta[pnames[k]][0]][1], "rustc": m1[:3000]})
    res.add(traces_validated_against_impl=len(jobs), option_sets_enumerated=nall, option_sets_run=len(opts),
            shape_runs=len(jobs), trait_probes=sum(len(p[2]) for p in probes), outputs_compiled=len(texts))
    res.sample_case({"shape": "bigarr", "options": opts[0], "flags": flags_of(opts[0])})
    # (c) executed behaviour of hand-written impls
    import behave
    behave.run(res, tier, jobs, dd, invs, meta, w, skip={pnames[k] for k in bad})
    res.cov["exhaustive"] = False
