"""C12 - generation always ends with bindings or an error value, never a panic.

model : spec/front/Outcome.tla (+OutcomeRules.tla): fact vector -> the unique terminal result in the code's
        order, inside the set the property allows, total, never Panic/Hang; spec/front/ParseStack.tla: the
        currently_parsed_types discipline (no declaration twice, bounded, empty at the end), failing without
        the guard.
R     : Gen_Outcome.cfg enumerates the fault vectors with the predicted result; each realisable vector is
        materialised (path faults x edition/target pairs x accept/reject header x option sets x codegen
        fault) and executed through the library driver (catch_unwind) and the CLI (timeout).
        Gen_ParseStack.cfg enumerates reference graphs (self references, cycles); rendered as C / C++ and run.
T     : seeded token-/line-level mutants of the repository headers and of generated programs, deep
        nestings up to depth 200, each classified by `clang -fsyntax-only` with the same arguments, run in
        the library driver (batches; a dying batch is re-run job by job) and a sample in the CLI; every
        observed (facts, outcome) pair is validated by TLC against Trace_Outcome.tla.
"""
import concurrent.futures as cf
import json
import os
import random
import re
import shutil
import signal
import subprocess
import time

import c12_gen as G
import common as C

LEVEL = "model_checking"
FRONT = os.path.join(C.SPEC, "front")
SENS = [("MC_Outcome.tla", "MC_Outcome_sens_code.cfg"), ("MC_Outcome.tla", "MC_Outcome_sens_noEditionCheck.cfg"),
        ("MC_Outcome.tla", "MC_Outcome_sens_noPathCheck.cfg"), ("MC_Outcome.tla", "MC_Outcome_sens_nightly0Panics.cfg"), ("MC_Outcome.tla", "MC_Outcome_sens_swallowCodegen.cfg"),
        ("MC_ParseStack.tla", "MC_ParseStack_sens_noGuard.cfg")]

GOOD_H = "struct S { int a; char b[3]; };\nenum E { E_A, E_B = 4 };\nstatic inline int twice(int x) { return 2 * x; }\nint f(struct S *s);\n#define K 3\n"
BAD_H = "struct S { int a; char b[3];\nenum E { E_A, E_B = };\nint f(struct S *s;\n"
OPTION_SETS = [[], ["--no-layout-tests", "--no-derive-debug", "--no-doc-comments"],
               ["--with-derive-hash", "--with-derive-partialeq", "--impl-debug", "--rustified-enum", ".*",
                "--generate-inline-functions"],
               ["--default-enum-style", "moduleconsts", "--use-core", "--ctypes-prefix", "cty", "--allowlist-type", "S",
                "--no-recursive-allowlist", "--merge-extern-blocks", "--sort-semantically"]]
EDITION = {"none": [[], ["--rust-target", "1.64"], ["--rust-target", "nightly"], ["--rust-target", "1.82.0-beta.1"]],
           "available": [["--rust-edition", "2021", "--rust-target", "1.70"], ["--rust-edition", "2018", "--rust-target", "1.51"],
                         ["--rust-edition", "2024", "--rust-target", "1.85"], ["--rust-edition", "2024", "--rust-target", "nightly"],
                         ["--rust-edition", "2021", "--rust-target", "1.56"], ["--rust-edition", "2021"]],
           "unavailable": [["--rust-edition", "2024", "--rust-target", "1.84"], ["--rust-edition", "2021", "--rust-target", "1.55"],
                           ["--rust-edition", "2024", "--rust-target", "1.70"], ["--rust-edition", "2021", "--rust-target", "1.51"],
                           ["--rust-edition", "2024", "--rust-target", "1.85.0-nightly"],
                           ["--rust-edition", "2024"]]}      # the CLI's default target is 1.82
INVALID_FLAGS = [["--rust-target", "1.20"], ["--no-such-flag"], ["--default-enum-style", "bogus"], ["--rust-edition", "2019"],
                 ["--rust-target", "2.0"], ["--rust-target", "1.x"]]
CLANG_ARG_FAULTS = [["-std=bogus"], ["-x", "nonsense"], ["--target=foo-bar-baz"], ["-march=bogus"], ["-"],
                    ["-Xclang", "-bogus"]]
TIMEOUT = 60          # per invocation; run() lowers it in the quick tier
NOBODY = ["setpriv", "--reuid=65534", "--regid=65534", "--clear-groups"]


def can_drop_privileges():
    if os.geteuid() != 0 or not shutil.which("setpriv"):
        return False
    p = subprocess.run(NOBODY + [C.BINDGEN, "--version"], stdout=subprocess.PIPE, stderr=subprocess.PIPE)
    return p.returncode == 0


# ---------------------------------------------------------------------------
# model
# ---------------------------------------------------------------------------

def model(res):
    st = tr = 0
    for mod, cfg in (("MC_Outcome.tla", "MC_Outcome.cfg"), ("MC_ParseStack.tla", "MC_ParseStack.cfg")):
        r = C.tlc(os.path.join(FRONT, mod), cfg=cfg, workers=4, timeout=900, name="c12-" + cfg)
        if not C.tlc_ok(r):
            raise C.ToolError("model %s failed: %s" % (cfg, r["out"][-1500:]))
        st += r["distinct"]
        tr += r["generated"]
    for mod, cfg in SENS:
        r = C.tlc(os.path.join(FRONT, mod), cfg=cfg, workers=2, timeout=300, name="c12-" + cfg)
        if "is violated" not in r["out"]:
            raise C.ToolError("sensitivity config %s did not fail" % cfg)
    res.add(states=st, transitions=tr, model_configs=2, sensitivity_configs_failing_as_expected=len(SENS))


def gen(mod, cfg, tag):
    r = C.tlc(os.path.join(FRONT, mod), cfg=cfg, workers=4, timeout=900, name="c12-" + cfg)
    out = C.tlc_prints(r["out"], tag)
    if not C.tlc_ok(r) or not out:
        raise C.ToolError("generator %s failed: %s" % (cfg, r["out"][-1200:]))
    return out, r


# ---------------------------------------------------------------------------
# running the real code
# ---------------------------------------------------------------------------

def norm_loc(loc, msg=""):
    """panic location + message -> line-independent key part `<file>:<normalised message>`.
    Line numbers move with every unrelated edit of the file, so they stay in the detail only. The message
    (first line) is normalised: quoted strings -> Q, paths -> P, numbers -> N, words joined by '-',
    at most 60 characters."""
    loc = loc.strip()
    m = re.match(r"(.*?):\d+(:\d+)?:?$", loc)
    fil = m.group(1) if m else loc
    for pre in (C.REPO.rstrip("/") + "/", "/repo/"):
        if fil.startswith(pre):
            fil = fil[len(pre):]
            break
    fil = re.sub(r"^/rustc/[0-9a-f]+/library/", "rust-std/", fil)
    fil = re.sub(r"^.*/registry/src/[^/]+/", "dep/", fil)
    first = (msg.strip().split("\n") or [""])[0]
    first = re.sub(r'"(?:\\.|[^"\\])*"?', " Q ", first)
    first = re.sub(r"'(?:\\.|[^'\\])*'", " Q ", first)
    first = re.sub(r"(?:/[\w.+-]+){2,}", " P ", first)
    first = re.sub(r"\d+", "N", first)
    slug = "-".join(re.findall(r"[A-Za-z_][A-Za-z0-9_]*", first)).lower()[:60].rstrip("-")
    return fil + ":" + (slug or "no-message")


def _spawn(jobs, threads, name, timeout, prefix=(), stall=None):
    """One `bvdrive run` process; returns ({id: result}, how, stderr tail) with how in ok|died:<rc>|timeout.
    stall: give up when no job finishes for that many seconds (a hanging job)."""
    import select
    d = C.workdir(name, clean=False)
    tag = "%d-%d" % (os.getpid(), random.getrandbits(40))
    jf = os.path.join(d, "jobs-%s.json" % tag)
    ef = os.path.join(d, "stderr-%s.txt" % tag)
    with open(jf, "w") as f:
        json.dump({"threads": threads, "jobs": [{k: v for k, v in j.items() if k not in ("prefix", "risky")} for j in jobs]}, f)
    for j in jobs:      # a re-run starts its hook log afresh
        if j.get("log") and os.path.exists(j["log"]):
            os.remove(j["log"])
    env = dict(os.environ)
    for k in ("BINDGEN_VERIF_LOG", "TARGET", "BINDGEN_EXTRA_CLANG_ARGS", "RUST_BACKTRACE"):
        env.pop(k, None)
    with open(ef, "wb") as efh:
        p = subprocess.Popen(list(prefix) + [C.BVDRIVE, "run", jf], stdout=subprocess.PIPE, stderr=efh,
                             stdin=subprocess.DEVNULL, env=env, cwd=d)
        fd = p.stdout.fileno()
        buf, start, last, how = b"", time.time(), time.time(), None
        while True:
            r, _, _ = select.select([fd], [], [], 0.5)
            if r:
                chunk = os.read(fd, 1 << 16)
                if not chunk:
                    break
                buf += chunk
                last = time.time()
            elif p.poll() is not None:
                continue_reading = os.read(fd, 1 << 20)
                buf += continue_reading
                if not continue_reading:
                    break
            now = time.time()
            if now - start > timeout or (stall and now - last > stall):
                p.kill()
                how = "timeout"
                break
        p.wait()
    if how is None:
        how = "ok" if p.returncode == 0 else "died:%d" % p.returncode
    res = {}
    for line in buf.decode("utf-8", "replace").splitlines():
        try:
            r = json.loads(line)
            res[r["id"]] = r
        except Exception:
            pass
    se = open(ef, errors="replace").read()[-1500:]
    os.remove(jf)
    os.remove(ef)
    return res, how, se


def drive(jobs, name, threads=12, batch=130):
    """Run jobs in the library driver. A batch that dies / hangs is data: its unfinished jobs are re-run one
    process each, which identifies the culprits exactly."""
    results = {}
    retry = []
    retry += [j for j in jobs if j.get("prefix")]          # jobs run as another user: one process each
    jobs = [j for j in jobs if not j.get("prefix")]
    risky = [j for j in jobs if j.get("risky")]            # families known to abort the process: small batches
    jobs = [j for j in jobs if not j.get("risky")]
    parts = [jobs[i:i + batch] for i in range(0, len(jobs), batch)] + [risky[i:i + 10] for i in range(0, len(risky), 10)]

    def one(part):
        return part, _spawn(part, 5, name, timeout=180 + 2 * len(part), stall=TIMEOUT + 5)
    with cf.ThreadPoolExecutor(3) as ex:
        for part, (r, how, se) in ex.map(one, parts):
            results.update(r)
            if how != "ok":
                retry += [j for j in part if j["id"] not in r]

    def solo(j):
        r, how, se = _spawn([j], 1, name, timeout=TIMEOUT, prefix=j.get("prefix", ()))
        if j["id"] in r:
            return j["id"], r[j["id"]]
        if how == "timeout":
            return j["id"], {"id": j["id"], "outcome": "hang", "msg": "no result within %ds" % TIMEOUT}
        return j["id"], {"id": j["id"], "outcome": "signal", "msg": "%s %s" % (how, se[-400:])}

    if retry:
        with cf.ThreadPoolExecutor(8) as ex:
            for k, v in ex.map(solo, retry):
                results[k] = v
    return results, len(retry)


def lib_obs(r):
    """-> (outcome, key) from a driver result."""
    o = r.get("outcome", "signal")
    msg = r.get("msg", "")
    if o == "panic":
        loc = norm_loc(msg.rsplit(" @ ", 1)[-1], msg.rsplit(" @ ", 1)[0]) if " @ " in msg else "unknown"
        return "panic", "panic:" + loc
    if o == "hang":
        return "hang", "hang"
    if o == "signal" or o.startswith("crash"):
        m = re.search(r"died:(-?\d+)", msg)
        sig = ""
        if m and int(m.group(1)) < 0:
            try:
                sig = signal.Signals(-int(m.group(1))).name
            except Exception:
                sig = m.group(1)
        if "overflowed its stack" in msg:
            sig = "stack-overflow"
        return "signal", "signal:" + (sig or "exit")
    if o in ("write_err", "err:Other"):
        return "signal", "unexpected:" + o
    return o, ""


CLI_ERR = [("does not exist", "err:NotExist"), ("is a folder", "err:FolderAsHeader"),
           ("insufficient permissions", "err:InsufficientPermissions"), ("clang diagnosed error", "err:ClangDiagnostic"),
           ("codegen error", "err:Codegen"), ("is not available on Rust", "err:UnsupportedEdition")]


def run_cli(args, cwd, prefix=()):
    """-> (outcome, key, detail)"""
    env = dict(os.environ)
    for k in ("BINDGEN_VERIF_LOG", "TARGET", "BINDGEN_EXTRA_CLANG_ARGS", "RUST_BACKTRACE"):
        env.pop(k, None)
    try:
        p = subprocess.run(list(prefix) + [C.BINDGEN] + args, cwd=cwd, stdout=subprocess.PIPE, stderr=subprocess.PIPE, env=env,
                           stdin=subprocess.DEVNULL,
                           timeout=TIMEOUT, errors="replace", text=True)
    except subprocess.TimeoutExpired:
        return "hang", "hang", "timeout %ds" % TIMEOUT
    err = p.stderr
    if "panicked at" in err:
        m = re.search(r"panicked at ([^\s]+?:\d+)(?::\d+)?:?[ \t]*\n?([^\n]*)", err)
        return "panic", "panic:" + (norm_loc(m.group(1), m.group(2)) if m else "unknown"), err[-600:]
    if "overflowed its stack" in err:
        return "signal", "signal:stack-overflow", err[-300:]
    if p.returncode < 0:
        try:
            s = signal.Signals(-p.returncode).name
        except Exception:
            s = str(p.returncode)
        return "signal", "signal:" + s, err[-300:]
    if p.returncode == 0:
        return "ok", "", ""
    m = re.search(r"Unable to generate bindings: (.*)", err, re.S)
    if m:
        for pat, o in CLI_ERR:
            if pat in m.group(1)[:400]:
                if p.stdout.strip():
                    return o, "bindings-with-error", p.stdout[:200]
                return o, "", m.group(1)[:200]
        return "signal", "unexpected:unknown-error-text", err[-300:]
    return "flags_err", "", err[-200:]


def clang_verdict(clang_args, path, cwd, prefix=()):
    p = subprocess.run(list(prefix) + ["clang", "-fsyntax-only"] + clang_args + [path], cwd=cwd, stdout=subprocess.DEVNULL,
                       stdin=subprocess.DEVNULL,
                       stderr=subprocess.PIPE, text=True, errors="replace", timeout=300)
    if p.returncode not in (0, 1):
        return "crash:%d" % p.returncode
    return "accept" if p.returncode == 0 else "reject"


def clang_args_of(args):
    return args[args.index("--") + 1:] if "--" in args else []


# ---------------------------------------------------------------------------
# (i) fault vectors
# ---------------------------------------------------------------------------

def vectors(res, base, rnd):
    vecs, r = gen("MC_Outcome.tla", "Gen_Outcome.cfg", "VEC")
    res.add(states=r["distinct"], transitions=r["generated"])
    d = os.path.join(base, "vec")
    os.makedirs(d, exist_ok=True)
    cases, unreal = [], 0
    dropper = can_drop_privileges()
    if dropper:
        # positive control: a world-readable file in the scratch directory must be readable for the unprivileged
        # user, otherwise (restrictive umask, a parent directory such as /root that cannot be traversed) every
        # path looks missing to it and the fact path=denied cannot be realised here
        os.chmod(d, 0o755)
        ctl = os.path.join(d, "control.h")
        with open(ctl, "w") as fh:
            fh.write("int control;\n")
        os.chmod(ctl, 0o644)
        if subprocess.run(NOBODY + ["cat", ctl], stdout=subprocess.PIPE, stderr=subprocess.PIPE).returncode != 0:
            dropper = False
            res.notes.append("the scratch directory cannot be reached by an unprivileged user (umask / parent directory)")
    if not dropper:
        res.notes.append("cannot run as an unprivileged user here: the fact path=denied (read bits set, access denied) is not realised")
    for i, v in enumerate(sorted(vecs, key=json.dumps)):
        f = v["facts"]
        if f["path"] in ("missing", "dir", "denied") and f["clang"] == "accept":
            unreal += 1          # clang cannot accept what it cannot read
            continue
        if f["path"] == "denied" and not dropper:
            unreal += 1          # needs a user for whom mode bits and access differ
            continue
        if f["path"] == "denied" and f["codegen"] == "fail":
            unreal += 1
            continue
        if f["flags"] != "ok" and f["edition"] != "none":
            unreal += 1          # one --rust-target per command line: the edition pair cannot be given as well
            continue
        # path kinds that can also be reached through a symbolic link are materialised both ways
        for sym in ([False, True] if f["path"] in ("ok", "dir", "missing") else [False]):
            cd = os.path.join(d, "v%03d%s" % (i, "s" if sym else ""))
            os.makedirs(cd, exist_ok=True)
            os.chmod(cd, 0o755)
            text = BAD_H if f["clang"] == "reject" else GOOD_H
            hp = os.path.join(cd, "in.h")
            if f["path"] == "ok":
                if sym:             # a symbolic link to a readable header is a readable header
                    open(hp + ".real", "w").write(text)
                    os.symlink(hp + ".real", hp)
                else:
                    open(hp, "w").write(text)
            elif f["path"] == "dir":
                if sym:             # a symbolic link to a directory is a directory
                    os.makedirs(hp + ".d", exist_ok=True)
                    os.symlink(hp + ".d", hp)
                else:
                    os.makedirs(hp, exist_ok=True)
            elif f["path"] == "missing" and sym:
                os.symlink(hp + ".nowhere", hp)      # a dangling symbolic link does not exist
            elif f["path"] == "unreadable":
                open(hp, "w").write(text)
                os.chmod(hp, [0o000, 0o200, 0o111, 0o333][i % 4])
            elif f["path"] == "denied":
                open(hp, "w").write(text)
                os.chown(hp, 65534, 0)
                os.chmod(hp, [0o040, 0o004, 0o044][i % 3])     # owner class has no read bit: access denied to the owner
            args = ["bindgen", "--formatter=none"]
            if f["flags"] == "invalid":
                args += INVALID_FLAGS[i % len(INVALID_FLAGS)]
            elif f["flags"] == "nightly0":
                args += ["--rust-target", ["1.0-nightly", "1.0.0-nightly", "1.0.5-nightly"][i % 3]]
            args += EDITION[f["edition"]][i % len(EDITION[f["edition"]])] if f["flags"] == "ok" else []
            args += OPTION_SETS[i % len(OPTION_SETS)]
            if f["codegen"] == "fail":
                blocker = os.path.join(cd, "blocker")
                open(blocker, "w").write("not a directory\n")
                args += ["--experimental", "--wrap-static-fns", "--wrap-static-fns-path", os.path.join(blocker, "sub", "wrappers")]
            args.append(hp)
            if f["clang"] == "refuse":
                args += ["--"] + CLANG_ARG_FAULTS[i % len(CLANG_ARG_FAULTS)]
            cases.append({"id": "vec-%03d%s" % (i, "s" if sym else ""), "args": args, "facts": dict(f), "predicted": v["outcome"], "dir": cd,
                          "header": hp, "shape": "fault-vector", "text": text,
                          "prefix": NOBODY if f["path"] == "denied" else (),
                          "lib": f["flags"] == "ok"})      # clap exits the process on a rejected flag value: CLI only
    return cases, len(vecs), unreal


# ---------------------------------------------------------------------------
# (ii) mutants, programs, nestings, reference graphs
# ---------------------------------------------------------------------------

def absolutise(args):
    """corpus flag lines use paths relative to /repo/bindgen-tests; make them absolute so that the runs can
    use a scratch cwd (nothing is ever written under /repo)."""
    out, i = [], 0
    seen_dd = False
    while i < len(args):
        a = args[i]
        if a == "--":
            seen_dd = True
        if seen_dd and a.startswith("-I") and len(a) > 2 and not a[2:].startswith("/"):
            a = "-I" + os.path.join(C.TESTS_CWD, a[2:])
        elif seen_dd and a in ("-include", "-I", "-isystem") and i + 1 < len(args) and not args[i + 1].startswith("/"):
            out.append(a)
            i += 1
            a = os.path.join(C.TESTS_CWD, args[i])
        out.append(a)
        i += 1
    return out


def corpus_bases(base):
    out = []
    for c in C.corpus_cases():
        args = absolutise(c["args"])
        if "--clang-macro-fallback" in args:
            args.insert(1, "--clang-macro-fallback-build-dir")
            args.insert(2, os.path.join(base, "fallback"))
        if "--" not in args:
            args.append("--")
        args.append("-I" + C.HEADERS)
        out.append({"id": c["id"], "args": args, "header": c["header"], "callbacks": c["callbacks"],
                    "text": open(c["header"], errors="replace").read()})
    os.makedirs(os.path.join(base, "fallback"), exist_ok=True)
    return out


def with_header(args, old, new):
    return [new if a == old else a for a in args]


def build_inputs(base, rnd, tier):
    thorough = tier == "thorough"
    d = os.path.join(base, "in")
    os.makedirs(d, exist_ok=True)
    bases = corpus_bases(base)
    cases = []
    nbase = len(bases) if thorough else 150
    per = 24 if thorough else 11
    pick = bases if thorough else [bases[i] for i in sorted(rnd.sample(range(len(bases)), nbase))]
    facts0 = {"flags": "ok", "edition": "none", "path": "ok", "codegen": "ok"}
    # the unmutated corpus (thorough: all; quick: the sampled bases)
    for b in pick:
        cases.append({"id": "orig-" + b["id"], "args": b["args"], "callbacks": b["callbacks"], "header": b["header"],
                      "text": b["text"], "shape": "corpus", "facts": dict(facts0)})
    for b in pick:
        ext = os.path.splitext(b["header"])[1]
        if b["callbacks"]:
            continue      # the suite's test-only callbacks assert on the names they are given: not bindgen's code
        for k in range(per):
            op = G.OPS[(k + rnd.randrange(len(G.OPS))) % len(G.OPS)] if k >= len(G.OPS) else G.OPS[k % len(G.OPS)]
            donor = rnd.choice(bases)
            t = b["text"]
            for _ in range(rnd.choice([1, 1, 1, 2, 3])):
                t2 = G.mutate(t, op, rnd, donor=donor["text"])
                if t2 is not None:
                    t = t2
                op2 = rnd.choice(G.OPS)
                op = op2 if rnd.random() < 0.5 else op
            if t == b["text"]:
                continue
            hp = os.path.join(d, "m-%s-%02d%s" % (os.path.splitext(b["id"])[0], k, ext))
            with open(hp, "w") as f:
                f.write(t)
            cases.append({"id": os.path.basename(hp), "args": with_header(b["args"], b["header"], hp),
                          "callbacks": b["callbacks"], "header": hp, "text": t,
                          "shape": "mutant:%s" % G.OPS[k % len(G.OPS)], "facts": dict(facts0), "base": b["id"]})
    # generated programs and their mutants
    nprog = 300 if thorough else 45
    progs = []
    for i in range(nprog):
        cpp = i % 2 == 1
        t = G.program(rnd, cpp)
        progs.append((i, cpp, t))
    for i, cpp, t in progs:
        ext = ".hpp" if cpp else ".h"
        flags = [[], ["--with-derive-hash", "--with-derive-partialeq", "--impl-debug"], ["--enable-cxx-namespaces"] if cpp else ["--no-layout-tests"],
                 ["--default-enum-style", "rust", "--generate-inline-functions"]][i % 4]
        std = ["--", "-std=c++14"] if cpp else ["--"]
        variants = [("prog", t)]
        for k in range(10 if thorough else 6):
            op = rnd.choice(G.OPS)
            m = G.mutate(t, op, rnd, donor=rnd.choice(progs)[2])
            if m and m != t:
                variants.append(("prog-mutant:" + op, m))
        for k, (shape, text) in enumerate(variants):
            hp = os.path.join(d, "g-%03d-%02d%s" % (i, k, ext))
            with open(hp, "w") as f:
                f.write(text)
            cases.append({"id": os.path.basename(hp), "args": ["bindgen", "--formatter=none"] + flags + [hp] + std,
                          "callbacks": None, "header": hp, "text": text, "shape": shape, "facts": dict(facts0)})
    # deep nestings
    depths = [1, 2, 3, 8, 16, 32, 64, 100, 128, 150, 200] if thorough else [1, 2, 16, 64, 128, 200]
    for dep in depths:
        for shape, ext, text in G.nestings(dep):
            hp = os.path.join(d, "n-%s-%03d%s" % (shape, dep, ext))
            with open(hp, "w") as f:
                f.write(text)
            std = ["--", "-std=c++14"] if ext == ".hpp" else ["--"]
            cases.append({"id": os.path.basename(hp), "args": ["bindgen", "--formatter=none", hp] + std, "callbacks": None,
                          "header": hp, "text": text, "shape": "nesting:%s@%d" % (shape, dep), "facts": dict(facts0),
                          "deep": True})
    # shape families of the other checks (names, layout corners, C++ inheritance with and without tail-padding
    # reuse, templates) under option sets that switch on rarely used code paths
    from checks import c01 as _c01, c08 as _c08
    import gen_orders as _go
    fams = {}
    for n, (lang, text) in _c01.NAME_FAMILIES.items():
        fams["fam-" + n] = (lang, text)
    for n, (lang, text) in _c08.SHAPES.items():
        fams["shape-" + n] = (lang, text)
    for n, fam in _go.FAMILIES.items():
        order = [("def", x) for x in __import__("checks.c11", fromlist=["topo"]).topo(fam)]
        fams["graph-" + n] = (fam["lang"], _go.render(fam, order))
    fams["cxx-layout"] = ("c++", "struct Base { Base(); int a; char b; };\nstruct Derived : Base { char c; };\n"
                                 "struct V { virtual ~V(); int x; };\nstruct W : V { char c; };\nstruct X : W { short s; };\n"
                                 "struct Empty {};\nstruct E2 : Empty { int i; };\nstruct E3 : Empty, E2 {};\n"
                                 "struct VB : virtual Base { int q; };\nstruct P1 { double d; char c; };\nstruct P2 : P1 { char c2; };\n"
                                 "struct __attribute__((packed)) PK : P1 { char z; };\nunion UU { Derived d; char raw[3]; };\n")
    # headers clang rejects only through warnings that are errors by default (narrowing in a braced initialiser,
    # `register` in C++17, ...): rejected is rejected, whatever diagnostic group says so
    for k, text in enumerate(["const int narrow_k{2.5};\n", "struct N { int a; char c; };\nconst N n{1.5, 300};\n",
                              "const unsigned char uc{300};\n", "enum E : char { Big = 1000 };\n",
                              "int f(void) { return 0; }\nconst int z = f();\nconstexpr int cz = f();\n"]):
        fams["default-error-%d" % k] = ("c++", text)
    optsets = [[], ["--explicit-padding"], ["--with-derive-default", "--with-derive-hash", "--with-derive-partialeq", "--impl-debug", "--impl-partialeq"],
               ["--enable-cxx-namespaces", "--no-layout-tests", "--explicit-padding"], ["--disable-untagged-union", "--explicit-padding"],
               ["--rust-target", "1.64", "--use-core"]]
    for fname, (lang, text) in sorted(fams.items()):
        ext = ".hpp" if lang == "c++" else ".h"
        hp = os.path.join(d, "f-%s%s" % (fname, ext))
        with open(hp, "w") as f:
            f.write(text)
        std = ["--", "-std=c++14"] if lang == "c++" else ["--"]
        for k, o in enumerate(optsets if thorough else optsets[:4]):
            cases.append({"id": "f-%s-%d%s" % (fname, k, ext), "args": ["bindgen", "--formatter=none"] + o + [hp] + std,
                          "callbacks": None, "header": hp, "text": text, "shape": "family:%s" % fname, "facts": dict(facts0)})
    # every edge literal in every constant-evaluating context; annotations in odd places
    for i, (shape, ext, text) in enumerate(G.literal_contexts() + G.annotations() + G.witnesses()):
        hp = os.path.join(d, "l-%04d%s" % (i, ext))
        with open(hp, "w") as f:
            f.write(text)
        std = ["--", "-std=c++14"] if ext == ".hpp" else ["--"]
        cases.append({"id": os.path.basename(hp), "args": ["bindgen", "--formatter=none", hp] + std, "callbacks": None,
                      "header": hp, "text": text, "shape": shape, "facts": dict(facts0)})
    return cases


def graph_cases(res, base, rnd, tier):
    """Reference graphs of ParseStack rendered as C (pointer references, tagged structs) and as C++ templates."""
    graphs, r = gen("MC_ParseStack.tla", "Gen_ParseStack.cfg", "GRAPH")
    res.add(states=r["distinct"], transitions=r["generated"], reference_graphs_enumerated=len(graphs))
    graphs = sorted(graphs, key=json.dumps)
    n = len(graphs) if tier == "thorough" else 160
    sel = graphs if n >= len(graphs) else [graphs[i] for i in sorted(rnd.sample(range(len(graphs)), n))]
    d = os.path.join(base, "graphs")
    os.makedirs(d, exist_ok=True)
    cases = []
    facts0 = {"flags": "ok", "edition": "none", "path": "ok", "codegen": "ok"}
    for i, g in enumerate(sel):
        refs = g["refs"]
        cpp = i % 2 == 1
        if isinstance(refs, dict):
            refs = [refs[str(k + 1)] for k in range(len(refs))]
        lines = []
        if cpp:
            lines += ["template<class T> struct D%d;" % (k + 1) for k in range(len(refs))]
            for k, rs in enumerate(refs):
                fs = " ".join("D%d<T>* r%d; D%d<D%d<T> >* n%d;" % (t, j, t, k + 1, j) for j, t in enumerate(rs))
                lines.append("template<class T> struct D%d { T v; %s typedef D%d<T> Self; Self* self; };" % (k + 1, fs, k + 1))
            lines.append("D1<int> root; D%d<D1<char> > other;" % len(refs))
        else:
            for k, rs in enumerate(refs):
                fs = " ".join("struct D%d *r%d; struct D%d (*f%d)(struct D%d *);" % (t, j, t, j, k + 1) for j, t in enumerate(rs))
                lines.append("struct D%d { int v; %s };" % (k + 1, fs))
            lines.append("typedef struct D1 D1_t; typedef D1_t *D1_p;")
        text = "\n".join(lines) + "\n"
        hp = os.path.join(d, "r-%04d%s" % (i, ".hpp" if cpp else ".h"))
        with open(hp, "w") as f:
            f.write(text)
        cases.append({"id": os.path.basename(hp), "args": ["bindgen", "--formatter=none", hp, "--"] + (["-std=c++14"] if cpp else []),
                      "callbacks": None, "header": hp, "text": text, "shape": "refgraph", "facts": dict(facts0),
                      "graph": refs})
    return cases


# ---------------------------------------------------------------------------
# trace validation
# ---------------------------------------------------------------------------

def validate(obs, name):
    d = C.workdir("c12-trace-" + name)
    tp = os.path.join(d, "trace.ndjson")
    with open(tp, "w") as f:
        for o in obs:
            f.write(json.dumps({"case": o["case"], "ch": o["ch"], "facts": o["facts"], "outcome": o["outcome"],
                                "key": o["key"]}) + "\n")
    r = C.tlc(os.path.join(FRONT, "Trace_Outcome.tla"), cfg="Trace_Outcome.cfg", env={"TRACE": tp}, workers=1,
              dfs=True, timeout=1500, name="c12-tv-" + name)
    if not C.tlc_ok(r):
        raise C.ToolError("trace validation did not complete (%s): %s" %
                          (name, C.tlc_prints(r["out"], "REJECTED") or r["out"][-1200:]))
    viol = C.tlc_prints(r["out"], "VIOL")
    drift = C.tlc_prints(r["out"], "DRIFT")
    counts = C.tlc_prints(r["out"], "COUNTS")
    return (viol[0] if viol else []), (drift[0] if drift else []), (counts[0] if counts else {}), r


def reduce_witness(c, rawkey, base, budget=90):
    """Greedy line-level reduction (ddmin) of a header that makes the CLI fail with `rawkey`."""
    ext = os.path.splitext(c["header"])[1]
    hp = os.path.join(base, "reduce-%d%s" % (os.getpid(), ext))
    args = with_header(c["args"], c["header"], hp)[1:]
    left = [budget]

    def still(ls):
        left[0] -= 1
        with open(hp, "w") as f:
            f.write("\n".join(ls) + "\n")
        return run_cli(args, base, prefix=c.get("prefix", ()))[1] == rawkey

    lines = c["text"].split("\n")
    if not still(lines):
        return None
    n = 2
    while len(lines) >= 2 and left[0] > 0:
        chunk = max(1, len(lines) // n)
        removed = False
        for i in range(0, len(lines), chunk):
            cand = lines[:i] + lines[i + chunk:]
            if left[0] <= 0:
                break
            if cand and still(cand):
                lines, removed = cand, True
                n = max(n - 1, 2)
                break
        if not removed:
            if chunk == 1:
                break
            n = min(len(lines), n * 2)
    try:
        os.remove(hp)
    except OSError:
        pass
    return "\n".join(lines) + "\n"


PS_EVENTS = ("reset", "parse_push", "parse_pop", "gen_end")


def validate_parse_stack(logdir, ids, name, events=None):
    """Trace_ParseStack.tla over the hook logs of `ids` (or over a given event list).
    -> (violations, counts, tlc result, events of the first run that pushed something)."""
    d = C.workdir("c12-trace-ps-" + name)
    tp = os.path.join(d, "trace.ndjson")
    sample = []
    with open(tp, "w") as o:
        if events is not None:
            for e in events:
                o.write(json.dumps(e) + "\n")
        else:
            for i in ids:
                p = os.path.join(logdir, i + ".ndjson")
                if not os.path.exists(p):
                    continue
                mine = []
                with open(p, errors="replace") as f:
                    for line in f:
                        if line.startswith('{"ev":"') and line[7:line.index('"', 7)] in PS_EVENTS:
                            o.write(line)
                            if not sample:
                                mine.append(json.loads(line))
                if not sample and any(e["ev"] == "parse_pop" for e in mine) and mine[-1]["ev"] == "gen_end":
                    sample = mine
    r = C.tlc(os.path.join(FRONT, "Trace_ParseStack.tla"), cfg="Trace_ParseStack.cfg", env={"TRACE": tp}, workers=1,
              dfs=True, timeout=1500, name="c12-tvps-" + name)
    if not C.tlc_ok(r):
        raise C.ToolError("Trace_ParseStack did not complete (%s): %s" % (name, r["out"][-1200:]))
    v = C.tlc_prints(r["out"], "VIOL")
    c = C.tlc_prints(r["out"], "COUNTS")
    os.remove(tp)
    return (v[0] if v else []), (c[0] if c else {}), r, sample


def fail_shape(c):
    """What kind of input made the process hang / die (for keys of failures without a panic location)."""
    m = re.search(r"rustbindgen\s+(\w+)", c["text"])
    if m:
        return "annotation-" + m.group(1)
    if c["shape"].startswith(("mutant:", "prog-mutant:")):
        return c["shape"].split(":")[0] + ":" + c.get("base", "generated-program")
    return re.sub(r"@\d+$", "", c["shape"])


def vkey(v, c):
    """Violation key: identifies the failing call site / shape so that known findings can be matched."""
    got = v["got"]
    if got == "panic" or v["key"].startswith("panic:"):
        # call site + how it was reached: a recorded panic site reached through a new kind of input (say a
        # path fault instead of an invalid clang argument) is a different violation
        return "%s:clang=%s,path=%s" % (v["key"] or "panic:unknown", v["facts"]["clang"], v["facts"]["path"])
    if got in ("hang", "signal"):
        return "%s:%s" % (v["key"] or got, fail_shape(c))
    if v["key"]:
        return v["key"]
    f = v["facts"]
    return "wrong-result:%s:clang=%s,path=%s,edition=%s,codegen=%s,flags=%s" % (
        got, f["clang"], f["path"], f["edition"], f["codegen"], f["flags"])


# ---------------------------------------------------------------------------
# main
# ---------------------------------------------------------------------------

def run(res, tier):
    res.assumptions += [
        "clang's verdict on a header = exit status of `clang -fsyntax-only` with the clang arguments bindgen is given "
        "(same clang 14 as libclang); a disagreement between the two is reported separately, never silently dropped",
        "'unreadable' means no read permission bit in the file mode (what bindgen checks); the checks run as root, "
        "for whom such a file is still readable by the OS",
        "mutants are sampled (seeded), not enumerated by the specification",
    ]
    global TIMEOUT
    TIMEOUT = 60 if tier == "thorough" else 20
    C.build()
    model(res)
    rnd = random.Random(C.seed() * 104729 + 12)
    base = C.workdir("c12")
    t0 = time.time()

    vec_cases, nvec, unreal = vectors(res, base, rnd)
    in_cases = build_inputs(base, rnd, tier)
    gr_cases = graph_cases(res, base, rnd, tier)
    cases = vec_cases + in_cases + gr_cases
    byid = {c["id"]: c for c in cases}
    if len(byid) != len(cases):
        raise C.ToolError("duplicate case ids")

    # ---- classify with clang (the fact `clang` is measured, never assumed) --------------------
    def classify(c):
        if c["shape"] == "fault-vector" and c["facts"]["path"] in ("missing", "dir"):
            return c["facts"]["clang"]
        return clang_verdict(clang_args_of(c["args"]), c["header"], base, prefix=c.get("prefix", ()))
    with cf.ThreadPoolExecutor(14) as ex:
        verdicts = list(ex.map(classify, cases))
    clang_crashes = 0
    for c, v in zip(cases, verdicts):
        if v.startswith("crash"):
            clang_crashes += 1          # clang itself crashed on the input: no oracle, not run
            c["skip"] = True
            continue
        if c["shape"] == "fault-vector":
            want = c["facts"]["clang"]
            if c["facts"]["path"] == "unreadable":
                want = "accept" if c["text"] == GOOD_H and want != "refuse" else want     # root reads it anyway
            if (v == "accept") != (want == "accept"):
                raise C.ToolError("fault vector %s: header meant to be %s is %s by clang" % (c["id"], want, v))
            c["facts"]["clang"] = want if v != "accept" else "accept"
            continue
        c["facts"]["clang"] = v
    cases = [c for c in cases if not c.get("skip")]
    res.notes.append("inputs built and classified in %.0fs" % (time.time() - t0))

    # ---- library driver ------------------------------------------------------------------------
    t1 = time.time()
    logdir = os.path.join(base, "logs")
    os.makedirs(logdir, exist_ok=True)

    def logged(c):     # runs whose parse_push / parse_pop events are validated against ParseStack
        return c["shape"] in ("refgraph", "corpus", "prog") or c.get("deep")
    jobs = [{"id": c["id"], "args": c["args"], "callbacks": c.get("callbacks"), "prefix": list(c.get("prefix", ())),
             "log": os.path.join(logdir, c["id"] + ".ndjson") if logged(c) else None, "detail": 1 if logged(c) else 0,
             "risky": c["shape"].startswith(("literal-in-", "annotation-", "witness-")) or c["shape"].endswith("literal-subst")}
            for c in cases if c.get("lib", True)]
    out, retried = drive(jobs, "c12-drive")
    obs = []
    for c in cases:
        if not c.get("lib", True):
            continue
        o, key = lib_obs(out.get(c["id"], {"outcome": "signal", "msg": "no result"}))
        obs.append({"case": c["id"], "ch": "lib", "facts": c["facts"], "outcome": o, "key": key,
                    "msg": out.get(c["id"], {}).get("msg", "")[:300]})
    res.notes.append("library driver: %d runs in %.0fs (%d re-run in isolation)" % (len(jobs), time.time() - t1, retried))

    # ---- CLI: every fault vector, every deep nesting, a sample of the rest ------------------------
    t2 = time.time()
    rest = [c for c in cases if c["shape"] not in ("fault-vector",) and not c.get("deep") and not c.get("callbacks")]
    ncli = 1500 if tier == "thorough" else 170
    cli_sel = [c for c in cases if c["shape"] == "fault-vector" or c.get("deep")] + \
              [rest[i] for i in sorted(rnd.sample(range(len(rest)), min(ncli, len(rest))))]
    # what killed / hung the driver is looked at in the CLI as well: its panic hook prints the location
    died = set(o["case"] for o in obs if o["outcome"] in ("signal", "hang"))
    cli_sel += [c for c in cases if c["id"] in died and c not in cli_sel and not c.get("callbacks")]

    def cli(c):
        return run_cli(c["args"][1:], base, prefix=c.get("prefix", ()))
    with cf.ThreadPoolExecutor(12) as ex:
        cli_out = list(ex.map(cli, cli_sel))
    for c, (o, key, detail) in zip(cli_sel, cli_out):
        obs.append({"case": c["id"], "ch": "cli", "facts": c["facts"], "outcome": o, "key": key, "msg": detail[:300]})
        if c["id"] in died and key.startswith("panic:"):
            for lo in obs:
                if lo["case"] == c["id"] and lo["ch"] == "lib":
                    lo["key"] = key        # an aborting panic (raised inside a libclang callback): same call site
    res.notes.append("CLI: %d runs in %.0fs" % (len(cli_sel), time.time() - t2))

    # ---- a hang is only believed when it reproduces alone with a generous limit ------------------
    # (machine load must never turn into a violation: the short limit above only selects candidates)
    hung = [o for o in obs if o["outcome"] == "hang"]
    if hung:
        ok_ms = sorted(out[c]["ms"] for c in out if out[c].get("outcome") == "ok" and out[c].get("ms") is not None) or [100]
        long_limit = max(300 if tier == "thorough" else 90, int(50 * ok_ms[len(ok_ms) // 2] / 1000.0))
        saved = TIMEOUT
        TIMEOUT = long_limit
        confirmed = 0
        for o in hung[:40]:
            c = byid[o["case"]]
            if o["ch"] == "cli":
                o2, key2, detail2 = run_cli(c["args"][1:], base, prefix=c.get("prefix", ()))
            else:
                j = {"id": c["id"], "args": c["args"], "callbacks": c.get("callbacks"), "prefix": list(c.get("prefix", ()))}
                r1, how, se = _spawn([j], 1, "c12-confirm", timeout=long_limit, prefix=j.get("prefix", ()))
                if c["id"] in r1:
                    o2, key2 = lib_obs(r1[c["id"]])
                    detail2 = r1[c["id"]].get("msg", "")
                elif how == "timeout":
                    o2, key2, detail2 = "hang", "hang", "no result within %ds, alone" % long_limit
                else:
                    o2, key2, detail2 = "signal", "signal:exit", "%s %s" % (how, se[-300:])
            if o2 == "hang":
                confirmed += 1
                o["msg"] = "confirmed alone with a limit of %ds" % long_limit
            else:
                o["outcome"], o["key"], o["msg"] = o2, key2, (detail2 or "")[:300]
        for o in hung[40:]:
            o["outcome"], o["key"] = "ok", ""      # beyond the budget for confirmation: not judged
            o["skip"] = True
        TIMEOUT = saved
        res.notes.append("hang candidates: %d, confirmed alone within %ds: %d" % (len(hung), long_limit, confirmed))
        obs = [o for o in obs if not o.get("skip")]

    # ---- T: TLC validates every observation against Outcome -------------------------------------
    with open(os.path.join(base, "observations.ndjson"), "w") as f:
        for o in obs:
            f.write(json.dumps(o) + "\n")
    viol, drift, counts, r = validate(obs, "all")
    if len(viol) >= 400:
        res.notes.append("more than 400 rejected observations; only the first 400 were reported by TLC")
    res.add(states=r["distinct"], transitions=r["generated"])
    seen = {}
    nreduced = 0
    for v in viol:
        c = byid[v["case"]]
        k = vkey(v, c)
        w = seen.get(k)
        if w is None or len(c["text"]) < len(w[1]["text"]):
            seen[k] = (v, c)
        seen.setdefault("#" + k, [0])[0] += 1
    for k, (v, c) in sorted((k, x) for k, x in seen.items() if not k.startswith("#")):
        msg = next((o["msg"] for o in obs if o["case"] == v["case"] and o["ch"] == v["ch"]), "")
        detail = {"case": v["case"], "channel": v["ch"], "got": v["got"], "allowed": v["allowed"],
                  "facts": v["facts"], "shape": c["shape"], "args": [a if a != c["header"] else "<header>" for a in c["args"]],
                  "header_text": c["text"][:4000], "msg": msg, "occurrences": seen["#" + k][0]}
        new = res.violation(k, detail)
        if new and nreduced < 6 and c["shape"] != "fault-vector" and v["got"] in ("panic", "signal") \
                and (v["key"].startswith("panic:") or v["key"].startswith("signal:")) and not c.get("callbacks"):
            nreduced += 1
            detail["minimised_header"] = reduce_witness(c, v["key"], base)
    for dr in drift[:20]:
        res.drift.append("%(ch)s %(case)s: result %(got)s is allowed, the model of the code's order predicts %(model)s" % dr)

    # predicted outcome of the fault vectors (model of the code) vs observed: counted
    pred_ok = sum(1 for o in obs if o["case"] in byid and byid[o["case"]]["shape"] == "fault-vector"
                  and o["outcome"] == byid[o["case"]].get("predicted"))

    # lib vs CLI agreement (shape)
    lib_by = {o["case"]: o["outcome"] for o in obs if o["ch"] == "lib"}
    for o in obs:
        if o["ch"] == "cli" and o["case"] in lib_by and lib_by[o["case"]] != o["outcome"] and \
                not (lib_by[o["case"]] == "signal" and o["outcome"] == "panic"):     # a panic that aborts the process
            res.drift.append("library driver and CLI differ on %s: %s vs %s" % (o["case"], lib_by[o["case"]], o["outcome"]))

    # as root a mode-000 header is readable by the OS; the code answers from the mode bits
    if os.geteuid() == 0:
        n = sum(1 for o in obs if o["facts"]["path"] == "unreadable" and o["facts"]["clang"] == "accept"
                and o["outcome"] == "err:InsufficientPermissions")
        if n:
            res.notes.append("running as root: %d runs on headers without read permission bits returned InsufficientPermissions "
                             "although the OS would let this process read them (clang -fsyntax-only accepts them); the "
                             "code decides from the mode bits, as the model does" % n)

    # ---- T: parse_push / parse_pop events of the logged runs are a behaviour of ParseStack ------------
    ids = [c["id"] for c in cases if logged(c) and c.get("lib", True)]
    pv, pc, ptr, sample_events = validate_parse_stack(logdir, ids, "all")
    for v in pv:
        c = byid.get(v["case"])
        res.violation("parse-stack:%s:%s" % (v["kind"], fail_shape(c) if c else "?"),
                      {"case": v["case"], "item": v["item"], "depth": v["depth"], "event_index": v["at"],
                       "header_text": c["text"][:3000] if c else ""})
    if pc.get("pushes", 0) == 0:
        raise C.ToolError("no parse_push events in the hook logs (hooks missing or detail not honoured)")
    res.add(states=ptr["distinct"], transitions=ptr["generated"], parse_stack_runs_validated=pc.get("cases", 0),
            parse_stack_pushes=pc.get("pushes", 0), parse_stack_max_depth=pc.get("maxdepth", 0))
    # tampered logs: a push repeated while the item is on the stack, a pop dropped
    ev = sample_events
    ip = next(i for i, e in enumerate(ev) if e["ev"] == "parse_push")
    t_dup = ev[:ip + 1] + [dict(ev[ip], depth=ev[ip]["depth"] + 1)] + ev[ip + 1:]
    iq = next(i for i, e in enumerate(ev) if e["ev"] == "parse_pop")
    t_drop = ev[:iq] + ev[iq + 1:]
    for what, tev in (("repeated push", t_dup), ("dropped pop", t_drop)):
        tvv, _, _, _ = validate_parse_stack(None, None, "tamper", events=tev)
        if not tvv:
            raise C.ToolError("tampered parse-stack log (%s) was accepted" % what)
    res.add(tampered_parse_stack_logs_rejected=2)
    shutil.rmtree(logdir, ignore_errors=True)

    # ---- non-vacuity: tampered observations must be rejected by TLC ---------------------------------
    good = [o for o in obs if o["outcome"] == "ok"][:3] + [o for o in obs if o["outcome"] == "err:ClangDiagnostic"][:3]
    tampered = []
    for o in good:
        t = dict(o, case=o["case"], key="tamper")
        t["outcome"] = "err:ClangDiagnostic" if o["outcome"] == "ok" else "ok"
        tampered.append(t)
    tampered.append(dict(good[0], outcome="panic", key="panic:tamper"))
    tampered.append(dict(good[0], outcome="hang", key="hang"))
    tv, _, tc, _ = validate(tampered, "tamper")
    if len(tv) != len(tampered):
        raise C.ToolError("tampered observations: %d of %d rejected" % (len(tv), len(tampered)))
    res.add(tampered_observations_rejected=len(tv))

    shapes = {}
    for c in cases:
        s = re.sub(r"@\d+$", "", c["shape"])
        shapes[s] = shapes.get(s, 0) + 1
    outcomes = {}
    for o in obs:
        k = "%s/%s/%s" % (o["ch"], o["facts"]["clang"], o["outcome"])
        outcomes[k] = outcomes.get(k, 0) + 1
    res.add(traces_validated_against_impl=counts.get("events", 0) + pc.get("cases", 0), observations_accepted=counts.get("accepted", 0),
            observations_rejected=counts.get("rejected", 0), library_runs=len(jobs), cli_runs=len(cli_sel),
            fault_vectors_enumerated=nvec, fault_vectors_unrealisable=unreal, fault_vectors_run=len(vec_cases),
            fault_vector_runs_matching_model=pred_ok, clang_accepted=sum(1 for c in cases if c["facts"]["clang"] == "accept"),
            clang_rejected=sum(1 for c in cases if c["facts"]["clang"] == "reject"), clang_crashed_inputs_skipped=clang_crashes,
            jobs_rerun_in_isolation=retried, input_shapes=shapes, outcome_histogram=outcomes,
            distinct_violation_keys=sorted(k for k in seen if not k.startswith("#")))
    for c in (vec_cases[:2] + in_cases[200:202] + gr_cases[:1]):
        res.sample_case({"case": c["id"], "shape": c["shape"], "facts": c["facts"],
                         "args": [a for a in c["args"][:12]], "observed": lib_by.get(c["id"])})
    res.cov["exhaustive"] = False
    # scratch hygiene: the mutant files are small, the driver outputs are not kept
    shutil.rmtree(os.path.join(base, "fallback"), ignore_errors=True)
