"""C13 - builder configuration and command-line flags round-trip to identical bindings.

model : spec/front/Options.tla over the option universe read from `bvdrive roundtrip table`
        (the field->method table that drives the real bindgen::Builder; cross-checked against a scan of
        the options! invocation and of the clap struct).
        L1 (Ideal front end): laws hold for every single option x value, all pairs of booleans, setter
        sequences over the alphabet {plain, space, quotes, '=', leading dash, empty, '::'}   [must pass]
        L2 (front end as built) on the values a command line can carry                        [must pass]
        L2 on the full universe: counterexamples are predictions, replayed on the real code
        sensitivity: polarity / dropSecond / mapFirstOnly / firstHeaderPositional / defaults  [must fail]
R     : every behaviour printed by Gen_Options_* is applied to a real bindgen::Builder (bvdrive roundtrip):
        flags = b1.command_line_flags(); b2 = builder_from_flags(flags) in a child process;
        predicates flags == b2.command_line_flags(), generate(b1) == generate(b2) byte for byte;
        flag <-> documented method equivalence, defaults on both paths, CLI-only flags survive.
"""
import json
import os
import random
import re
import subprocess
import time

import common as C
import c13_universe as U

LEVEL = "model_checking"
SPEC = os.path.join(C.SPEC, "front", "Options.tla")
SENSITIVITY = ["polarity", "dropSecond", "mapFirstOnly", "firstHeaderPositional", "defaults"]
BITS = ["functions", "types", "vars", "methods", "constructors", "destructors"]

RT_HPP = r'''#pragma once
/** Documented struct. */
#define RT_SMALL 3
#define RT_NEG (-7)
#define RT_BIG 0x1ffffffffULL
#define RT_STR "str\0tail"
#define RT_FLT 1.5
#define RT_SIZEOF (RT_SMALL + sizeof(int))
typedef unsigned long rt_size_alias;
typedef __SIZE_TYPE__ size_t;
namespace outer { namespace inner {
  struct Nested { int in_ns; };
  inline namespace v1 { struct Versioned { char c; }; }
  int ns_fn(Nested *n);
} }
enum Plain { PLAIN_A, PLAIN_B = 5, PLAIN_C = PLAIN_B };
enum class Scoped : unsigned char { One = 1, Two = 2 };
enum Flags { FLAG_X = 1, FLAG_Y = 2, FLAG_Z = 4 };
/// A doc comment on a struct
struct Pod { int a; char b; double d; long double ld; float arr[3]; size_t sz; };
struct WithBits { unsigned a : 3; unsigned b : 5; int c : 9; char tail; };
struct Outer { struct InnerS { short s; } inner; union { int i; float f; }; struct { char x; char y; }; };
struct Flex { int len; unsigned char data[]; };
struct Fwd;
struct UsesFwd { Fwd *p; Pod pod; Plain e; Scoped s; };
typedef struct Pod PodAlias;
typedef PodAlias *PodPtr;
typedef int IntAlias;
class NonCopy { public: NonCopy(); NonCopy(const NonCopy&) = delete; ~NonCopy(); int v; };
union HasNonCopy { NonCopy nc; int i; };
union PlainUnion { int i; float f; char bytes[8]; };
class Base { public: virtual ~Base(); virtual int vmethod(int) = 0; virtual void other(); int base_field; };
class Derived : public Base { public: int vmethod(int) override; void other() override;
  static int counter; int pub_field;
 protected: int prot_field; void prot_method();
 private: int priv_field; void priv_method(); Derived(int) ; };
class Deleted { public: Deleted() = delete; void ok(); void gone() = delete; };
template <typename T> struct Box { T value; T *ptr; };
struct UsesBox { Box<int> bi; Box<Pod> bp; };
int takes_array(int arr[4], const char *s);
int takes_ref(Pod &p, const Pod &cp);
[[nodiscard]] int must_use_fn(void);
extern "C" { int c_fn(struct Pod *p, enum Plain e); extern int c_var; extern const char c_str[]; void variadic(int n, ...); }
static inline int static_inline_fn(int x) { return x + 1; }
inline int inline_fn(int x) { return x * 2; }
char16_t c16_fn(char16_t c);
typedef int (*fn_ptr_t)(int, char);
struct Callbacks { fn_ptr_t cb; void (*other)(void); };
__attribute__((stdcall)) void abi_fn(int);
/* targets of the K=V style options: --field-attr, --with-attribute-custom*, --with-derive-custom*, --override-abi */
struct Point { int x; int y; };
enum Color { RED, GREEN };
union PUnion { int i; float f; };
extern "C" void pfn(struct Point *p);
'''
RT2_HPP = '''#pragma once
#include "rt.hpp"
struct Second { Pod p; int second_field; };
int second_fn(Second *s);
'''
# values with a meaning on the header set, used for flag <-> method equivalence and the CLI-only flags
MEANINGFUL = {
    "blocklisted_types": "Pod", "blocklisted_functions": "c_fn", "blocklisted_items": "Plain", "blocklisted_files": ".*rt.hpp",
    "blocklisted_vars": "c_var", "opaque_types": "Pod", "allowlisted_types": "UsesFwd", "allowlisted_functions": "c_fn",
    "allowlisted_vars": "RT_.*", "allowlisted_files": ".*rt.hpp", "allowlisted_items": "Pod", "bitfield_enums": "Flags",
    "newtype_enums": "Plain", "newtype_global_enums": "Plain", "rustified_enums": "Plain",
    "rustified_non_exhaustive_enums": "Plain", "constified_enum_modules": "Plain", "constified_enums": "Scoped",
    "type_alias": "IntAlias", "new_type_alias": "IntAlias", "new_type_alias_deref": "IntAlias",
    "bindgen_wrapper_union": "HasNonCopy", "manually_drop_union": "HasNonCopy", "no_partialeq_types": "Pod",
    "no_copy_types": "Pod", "no_debug_types": "Pod", "no_default_types": "Pod", "no_hash_types": "Pod",
    "must_use_types": "Pod", "raw_lines": "// raw line", "extern_fn_block_attrs": "#[allow(dead_code)]",
    "ctypes_prefix": "libc", "anon_fields_prefix": "anon_", "wasm_import_module_name": "wasm_mod",
    "dynamic_library_name": "DynLib", "wrap_static_fns_suffix": "_w", "emit_ir_graphviz": "graph.dot",
    "wrap_static_fns_path": "extern_w", "clang_macro_fallback_build_dir": ".",
}
# CLI-only flags: [flag, value] and, where there is one, the documented library route (a ParseCallbacks
# object, applied by bvdrive through "cb_attribute"/"cb_derive"). VALUES contain '=', quotes and commas.
A1, A2, A3 = '#[doc = "p=q"]', '#[cfg(feature = "a=b")]', '#[cfg(any(feature = "a,b", test))]'
CLI_ONLY = [
    (["--prefix-link-name", "pre_"], None),
    (["--with-derive-custom", "Point=Hash,PartialOrd"], ["cb_derive", None, "Point", ["Hash", "PartialOrd"]]),
    (["--with-derive-custom-struct", "Po.*=Hash"], ["cb_derive", "struct", "Po.*", ["Hash"]]),
    (["--with-derive-custom-enum", "Color=PartialOrd"], ["cb_derive", "enum", "Color", ["PartialOrd"]]),
    (["--with-derive-custom-union", "PUnion=Debug"], ["cb_derive", "union", "PUnion", ["Debug"]]),
    (["--with-derive-custom", "Color|a=b=Hash"], ["cb_derive", None, "Color|a=b", ["Hash"]]),
    (["--with-attribute-custom", "Point=%s,%s" % (A1, A2)], ["cb_attribute", None, "Point", [A1, A2]]),
    (["--with-attribute-custom", "Point|k=v=%s" % A3], ["cb_attribute", None, "Point|k=v", [A3]]),
    (["--with-attribute-custom-struct", "Point=%s,%s" % (A2, A3)], ["cb_attribute", "struct", "Point", [A2, A3]]),
    (["--with-attribute-custom-enum", "Color=%s" % A1], ["cb_attribute", "enum", "Color", [A1]]),
    (["--with-attribute-custom-union", "PUnion=%s,%s" % (A1, A2)], ["cb_attribute", "union", "PUnion", [A1, A2]]),
    (["--no-rustfmt-bindings"], ["formatter", "none"]),
]


# ---- rendering model behaviours to real setter calls --------------------------------------------

def render_setter(rows, s):
    r = rows[s["field"]]
    cl, op, a = r["class"], s["op"], s["arg"]
    if cl == "bool":
        return [r["method"], a] if r["arg"] == "bool" else [r["method"]]
    if cl in ("list", "optstr", "str", "enum", "edition"):
        return [r["method"], a]
    if cl == "map":
        return ["module_raw_line", a[0], a[1]] if r["shape"] == "two_values" else ["override_abi", a[0], a[1]]
    if cl == "triples":
        return ["field_attribute", a[0], a[1], a[2]]
    if cl == "headers":
        return ["header", a]
    if cl == "clang_args":
        return ["clang_arg", a]
    if cl == "codegen":
        return ["with_codegen_config", [b for b in BITS if b in a]] if op == "set" else ["ignore_" + a]
    if cl == "target":
        return ["rust_target", "nightly" if a[0] == "nightly" else [a[1], a[2]]]
    if cl == "depfile":
        return ["depfile", a[0], a[1]]
    raise C.ToolError("cannot render setter %s" % s)


def render_flags(tokens):
    out = []
    for t in tokens:
        k = t[0]
        if k in ("flag", "val"):
            out.append(t[1])
        elif k == "kv":
            out.append("%s=%s" % (t[1], t[2]))
        elif k == "fa":
            out.append("%s::%s=%s" % (t[1], t[2], t[3]))
        elif k == "csv":
            out.append(",".join(b for b in BITS if b in t[1]))
        elif k == "tgt":
            out.append("nightly" if t[1] == "nightly" else "1.%d.%d" % (t[2], t[3]))
    return out


def flag_path(rows, s):
    """the documented flag spelling of one setter call, or None when there is none"""
    r = rows[s["field"]]
    cl, a = r["class"], s["arg"]
    if cl == "bool":
        if a == r["flag_value"]:
            return [r["flag"]]
        if r.get("negflag"):
            return [r["negflag"]]
        return None                      # the default value has no flag
    if cl in ("list", "optstr", "str", "edition"):
        return ["%s=%s" % (r["flag"], a)]
    if cl == "enum":
        return ["%s=%s" % (r["flag"], a)] if a != "bitfield_global" else None
    if cl == "map":
        return [r["flag"], a[0], a[1]] if r["shape"] == "two_values" else ["%s=%s=%s" % (r["flag"], a[1], a[0])]
    if cl == "triples":
        return ["%s=%s::%s=%s" % (r["flag"], a[0], a[1], a[2])]
    if cl == "codegen":
        if s["op"] == "ignore":
            return ["--ignore-" + a]
        return ["--generate=" + ",".join(b for b in BITS if b in a)] if a else None
    if cl == "target":
        return ["--rust-target=" + ("nightly" if a[0] == "nightly" else "1.%d.%d" % (a[1], a[2]))]
    if cl == "depfile":
        return ["--depfile=" + a[1]]
    return None


# ---- running -------------------------------------------------------------------------------------

def batch(jobs, name, threads=12):
    d = C.workdir("c13-" + name)
    jf, of = os.path.join(d, "jobs.json"), os.path.join(d, "out.ndjson")
    json.dump({"threads": threads, "jobs": jobs}, open(jf, "w"))
    env = dict(os.environ)
    env.pop("BINDGEN_VERIF_LOG", None)
    env["RUST_BACKTRACE"] = "0"
    env["BVDRIVE_EXE"] = C.BVDRIVE
    t0 = time.time()
    try:
        p = subprocess.run([C.BVDRIVE, "roundtrip", "batch", jf, of], cwd=d, stdout=subprocess.DEVNULL,
                           stderr=subprocess.DEVNULL, timeout=3000, env=env)
    except subprocess.TimeoutExpired:
        raise C.ToolError("roundtrip batch %s timed out" % name)
    C.log("c13: batch %s: %d jobs in %.1fs" % (name, len(jobs), time.time() - t0))
    out = {}
    if os.path.exists(of):
        for line in open(of):
            try:
                v = json.loads(line)
                out[v["id"]] = v
            except Exception:
                pass
    for j in jobs:
        if j["id"] not in out:
            # the driver itself died: the code under test aborted the process (data)
            out[j["id"]] = {"id": j["id"], "a": {"status": "crash:%s" % p.returncode, "msg": ""}}
    return out


def run_jobs(jobs, name):
    """jobs touching clang_macro_fallback share scratch files in the cwd: run them one at a time"""
    par = [j for j in jobs if not j.get("serial")]
    ser = [j for j in jobs if j.get("serial")]
    out = batch(par, name) if par else {}
    if ser:
        out.update(batch(ser, name + "-serial", threads=1))
    return out


VALUED = set()       # flags that take a value (from the table)


def classify_exit(msg, flags1):
    """(stable key, offending flag) of a clap rejection of bindgen's own flag list"""
    m = re.search(r"unexpected argument '([^']*)' found", msg)
    if m:
        a = m.group(1)
        idx = [i for i, f in enumerate(flags1) if f == a] or [i for i, f in enumerate(flags1) if f.startswith(a)]
        if not idx:
            return "unexpected-argument", a
        i = idx[0]
        if i == 0:
            return "leading-dash-header", ""
        if flags1[i - 1] in VALUED:
            return "leading-dash-value", flags1[i - 1]
        if i >= 2 and flags1[i - 2] == "--module-raw-line":
            return "leading-dash-value", "--module-raw-line"
        return "unknown-flag:" + a, a
    m = re.search(r"invalid value '.*' for '(--[\w-]+)", msg)
    if m:
        return "invalid-value:%s" % m.group(1), m.group(1)
    m = re.search(r"a value is required for '(--[\w-]+)", msg)
    if m:
        return "missing-value:" + m.group(1), m.group(1)
    return "other", ""


def judge(job, ob):
    """property predicates of one round trip -> [(key, detail)]"""
    a, b = ob.get("a", {}), ob.get("b")
    wit = {"setters": job.get("setters"), "flags0": job.get("flags0"), "flags1": a.get("flags")}
    if a.get("status") != "ok":
        if job.get("flags0") is not None and a.get("status", "").startswith("exit"):
            return []                    # the command line rejected the input itself: nothing to round-trip
        if a.get("status") == "apply_err":
            raise C.ToolError("generator produced an inapplicable setter: %s %s" % (a.get("msg"), job.get("setters")))
        # a panic of command_line_flags()/generate() on the builder path is C12's subject; no round trip to judge
        return []
    if b is None:
        return []
    st = b.get("status", "")
    if st.startswith("exit") or st == "flags_err":
        key, flag = classify_exit(b.get("msg", ""), a["flags"])
        return [("reparse-rejected:" + key, dict(wit, child=st, stderr=b.get("msg", "")[:300], offending_flag=flag))]
    if st == "panic":
        return [("reparse-panic", dict(wit, msg=b.get("msg")))]
    if st != "ok":
        raise C.ToolError("round-trip child failed: %s" % b)
    out = []
    if not ob.get("flags_equal"):
        fa, fb = a["flags"], b["flags"]
        names = sorted({x for x in set(fa) ^ set(fb) if x.startswith("--")}) or ["values-or-order"]
        out.append(("flags-differ:" + ",".join(names)[:80], dict(wit, flags2=fb)))
    if not ob.get("gen_equal"):
        out.append(("bindings-differ", dict(wit, gen=[a.get("gen"), b.get("gen")], first_diff=ob.get("first_diff"))))
    return out


def fields_of(job):
    return sorted({s[0] for s in job.get("setters", [])[1:]}) if job.get("setters") else ["(flags)"]


# ---- model ---------------------------------------------------------------------------------------

class Model:
    def __init__(self, res, table, d, headers, abspaths):
        self.res, self.table, self.d, self.headers, self.abspaths = res, table, d, headers, abspaths
        self.n = 0

    def uni(self, **kw):
        self.n += 1
        uf = os.path.join(self.d, "universe-%d.json" % self.n)
        json.dump(U.universe(self.table, self.headers, self.abspaths, **kw), open(uf, "w"))
        return uf

    def mc(self, cfg, uf, expect="ok", workers=8, tag="", **kw):
        r = C.tlc(SPEC, cfg=cfg, env={"OPTIONS": uf}, workers=workers, timeout=1500, name="c13-%s-%s" % (cfg, tag), **kw)
        viol = re.search(r"Invariant (\w+) is violated", r["out"])
        if expect == "ok":
            if not C.tlc_ok(r):
                raise C.ToolError("model %s failed (model error): %s" % (cfg, r["out"][-1500:]))
            self.res.tlc_stats(r)
        elif expect == "fail":
            if not viol:
                raise C.ToolError("sensitivity config %s did not fail: %s" % (cfg, r["out"][-600:]))
        else:  # "predict": either is fine, parse errors are not
            if not viol and not C.tlc_ok(r):
                raise C.ToolError("model %s broke: %s" % (cfg, r["out"][-1500:]))
        return r, viol

    def gen(self, cfg, uf, simulate=None, depth=None, tag=""):
        extra = ["-seed", str(C.seed() + 1)] if simulate else []
        r = C.tlc(SPEC, cfg=cfg, env={"OPTIONS": uf}, workers=2 if not simulate else 1, timeout=1500,
                  name="c13-%s-%s" % (cfg, tag), simulate=simulate, depth=depth, extra=extra)
        beh = C.tlc_prints(r["out"], "BEH")
        if not beh or any("raw" in b for b in beh):
            raise C.ToolError("%s printed no usable behaviours: %s" % (cfg, r["out"][-1200:]))
        if not simulate:
            if not C.tlc_ok(r):
                raise C.ToolError("%s failed: %s" % (cfg, r["out"][-1200:]))
            self.res.tlc_stats(r)
        return beh


def run(res, tier):
    thorough = tier == "thorough"
    res.assumptions += [
        "the field->method table of harness/bvdrive/src/roundtrip.rs states the documented method and flag of every field "
        "(cross-checked against scans of options! and of the clap struct; rows without a counterpart are reported)",
        "excluded as documented not round-trippable: the nocli rows (rustfmt_path, input_header_contents, parse_callbacks, "
        "fallback_clang_args, rust_features; reasons in the evidence), depfile's output module (the CLI's --output), "
        "relative rustfmt configuration paths (documented: absolute)",
        "a panic or error of generate() that is the same on both paths counts as equal outcomes (C12 decides panics)",
    ]
    C.build()
    rnd = random.Random(C.seed() * 7919 + 13)
    table = U.raw_table()
    rows = {r["field"]: r for r in table["rows"]}
    VALUED.update(r["flag"] for r in table["rows"] if r.get("flag") and r["class"] not in ("bool", "nocli"))
    problems, report = U.cross_check(table)
    for p in problems:
        res.drift.append("table/source cross-check: " + p)
    res.add(table_cross_check=report)
    for r in report["nocli"]:
        res.notes.append("excluded (documented not expressible on the CLI): %s - %s" % (r, report["nocli"][r]))
    for m in report["methods_without_row"]:
        res.notes.append("builder method without a table row (not exercised): " + m)

    d = C.workdir("c13")
    H, H2 = os.path.join(d, "rt.hpp"), os.path.join(d, "rt2.hpp")
    open(H, "w").write(RT_HPP)
    open(H2, "w").write(RT2_HPP)
    abspaths = [os.path.join(d, "rustfmt.toml")]
    open(abspaths[0], "w").write("max_width = 80\n")
    M = Model(res, table, d, [H, H2], abspaths)

    # ---- model checking (TLC runs are independent: run them side by side) ----------------------
    import concurrent.futures
    full, clean = M.uni(), M.uni(clean=True)
    seqcfg = "seq" if thorough else "seq3"
    tasks = [("MC_Options_L1_single.cfg", full, "ok", 2), ("MC_Options_L1_pairs.cfg", full, "ok", 2),
             ("MC_Options_L2_single.cfg", clean, "ok", 2), ("MC_Options_L2_pairs.cfg", clean, "ok", 2)]
    seq_unis, seq_clean = {}, {}
    for g, fields in U.SEQ_GROUPS.items():
        if thorough:
            small = ["foo", "-d"] if g == "maps" else ["foo", "-d", "k=v", ""]
        else:
            small = ["foo", "-d"] if g == "maps" else ["foo", "-d", ""]
        seq_unis[g] = M.uni(seqrows=fields, seq_strs=small)
        seq_clean[g] = M.uni(seqrows=fields, clean=True, seq_strs=[x for x in small if x != "-d"] + ["a b"])
        tasks.append(("MC_Options_L1_%s.cfg" % seqcfg, seq_unis[g], "ok", 4))
        tasks.append(("MC_Options_L2_%s.cfg" % seqcfg, seq_clean[g], "ok", 4))
    nmc = len(tasks)
    sens = M.uni(seqrows=["allowlisted_types", "module_lines", "input_headers"], seq_strs=["foo", "bar"])
    for mut in SENSITIVITY:
        tasks.append(("MC_Options_sens_%s.cfg" % mut, sens, "fail", 1))
    strict = [("MC_Options_L2_single.cfg", full), ("MC_Options_L2_pairs.cfg", full)] + [("MC_Options_L2_seq3.cfg", seq_unis[g]) for g in ("coupled", "maps")]
    for cfg, uf in strict:
        tasks.append((cfg, uf, "predict", 1))
    with concurrent.futures.ThreadPoolExecutor(max_workers=6) as ex:
        results = list(ex.map(lambda t: M.mc(t[0], t[1], expect=t[2], workers=t[3], tag=str(tasks.index(t))), tasks))
    C.log("c13: %d TLC model runs in %.1fs" % (len(tasks), time.time() - res.t0))
    predicted = []
    for t, (r, viol) in zip(tasks, results):
        if t[2] == "predict" and viol:
            hm = re.findall(r"hist = (.*)", r["out"])
            predicted.append({"config": t[0], "law": viol.group(1), "hist": hm[-1][:200] if hm else "?"})
    res.add(model_configs=nmc, sensitivity_configs_failing_as_expected=len(SENSITIVITY), strict_laws=predicted)

    # ---- behaviours ----------------------------------------------------------------------------
    nsim = 400 if thorough else 30
    nseqsim = 600 if thorough else 60
    gtasks = [("Gen_Options_single.cfg", full, None, None), ("Gen_Options_pairs.cfg", full, None, None)]
    for g in U.SEQ_GROUPS:
        gtasks.append(("Gen_Options_seq.cfg", seq_unis[g], nseqsim, 5))
        gtasks.append(("Gen_Options_seq.cfg", seq_clean[g], nseqsim, 5))
    for g in U.SEQ_GROUPS:                       # all ordered pairs of setters of a group, exhaustively
        gtasks.append(("Gen_Options_seq2.cfg", seq_unis[g], None, None))
    gtasks += [("Gen_Options_sim.cfg", full, nsim, 26), ("Gen_Options_sim.cfg", clean, nsim, 26)]
    with concurrent.futures.ThreadPoolExecutor(max_workers=6) as ex:
        gres = list(ex.map(lambda t: M.gen(t[0], t[1], simulate=t[2], depth=t[3], tag=str(gtasks.index(t))), gtasks))
    C.log("c13: generators done at %.1fs" % (time.time() - res.t0))
    singles, pairs = gres[0], gres[1]
    npairs = len(pairs)
    if not thorough:
        # every model-level counterexample is replayed; the rest is sampled
        pairs = [b for b in pairs if not b["rt"]["ok"]] + C.sample([b for b in pairs if b["rt"]["ok"]], 400, "c13-pairs")
    seqs = [x for b in gres[2:-2] for x in b if len(x["hist"]) >= 2]
    nseq_enum = len(seqs)
    bad, per = [], {}
    for b in seqs:
        if not b["rt"]["ok"] and (b["rt"]["why"] != "dash-value" or per.get(b["rt"]["why"], 0) < (200 if thorough else 20)):
            per[b["rt"]["why"]] = per.get(b["rt"]["why"], 0) + 1
            bad.append(b)
    seqs = bad + C.sample([b for b in seqs if b["rt"]["ok"]], 4000 if thorough else 280, "c13-seqs")
    sims = gres[-2] + gres[-1]
    seen, uniq = set(), []
    for kind, lst in (("single", singles), ("pair", pairs), ("seq", seqs), ("sim", sims)):
        for b in lst:
            k = json.dumps(b["hist"], sort_keys=True)
            if k in seen:
                continue
            seen.add(k)
            uniq.append((kind, b))
    jobs, meta = [], {}
    for i, (kind, b) in enumerate(uniq):
        setters = [["header", H]] + [render_setter(rows, s) for s in b["hist"]]
        j = {"id": "%s%05d" % (kind[0:2], i), "setters": setters, "gen": True,
             "serial": any(s["field"].startswith("clang_macro_fallback") for s in b["hist"])}
        jobs.append(j)
        meta[j["id"]] = (kind, b, j)
    obs = run_jobs(jobs, "main")

    agg = {}
    ndrift = confirmed = mispredicted = nshrunk = 0
    known_min = []
    kinds = {}
    for jid, (kind, b, j) in meta.items():
        ob = obs[jid]
        v = judge(j, ob)
        kinds[kind] = kinds.get(kind, 0) + 1
        # shape: the model's flag list vs. the real one
        a = ob.get("a", {})
        if a.get("status") == "ok":
            real = [f for f in a["flags"] if f != "--experimental"]
            want = render_flags(b["flags"])
            if real != want:
                ndrift += 1
                k = sorted(set(real) ^ set(want))
                msg = "command_line_flags differs from the modelled ToFlags: %s" % (k[:6] or "order only")
                if msg not in res.drift and len(res.drift) < 12:
                    res.drift.append(msg)
        if any(k == "bindings-differ" for k, _ in v):
            # attribute to the smallest sub-configuration that still differs: one already identified
            # (singles and pairs come first), else by shrinking (bounded effort)
            mine = {json.dumps(x) for x in j["setters"][1:]}
            hit = next((k for sub, k in known_min if sub <= mine), None)
            if hit:
                v = [(hit if k == "bindings-differ" else k, det) for k, det in v]
            elif len(mine) <= 2:
                known_min.append((mine, "bindings-differ:" + ",".join(fields_of(j))))
            elif nshrunk < 10:
                nshrunk += 1
                v = shrink(j, v, rows)
                for k, det in v:
                    if k.startswith("bindings-differ:") and det.get("setters"):
                        known_min.append(({json.dumps(x) for x in det["setters"][1:]}, k))
            else:
                v = [(k + ":unshrunk" if k == "bindings-differ" else k, det) for k, det in v]
        for key, det in v:
            key = key if not key.startswith("bindings-differ") or ":" in key else key + ":" + ",".join(fields_of(j))[:100]
            agg.setdefault(key, []).append(dict(det, kind=kind, predicted_by_model=b["rt"], fields=fields_of(j)))
        if not b["rt"]["ok"]:
            if v:
                confirmed += 1
            else:
                mispredicted += 1
                if len(res.drift) < 16:
                    res.drift.append("model predicts a round-trip failure (%s) that the real code does not show: %s"
                                     % (b["rt"]["why"], [x for x in j["setters"][1:]][:3]))
    # the K=V style singles must have an observable effect on the bindings (else generate(b1) == generate(b2)
    # could not see a value that is lost or cut at the wrong '=' on the way back)
    dflt_sha = next((obs[jid]["a"].get("sha") for jid, (kind, b, j) in meta.items()
                     if kind == "single" and j["setters"][1:] == [["layout_tests", True]]), None)
    inert = []
    for jid, (kind, b, j) in meta.items():
        st = j["setters"][1:]
        if kind == "single" and ((st[0][0] == "field_attribute" and st[0][1] == "Point") or
                                 (st[0][0] == "override_abi" and "pfn" in st[0][2] and st[0][1] != "C")):
            a = obs[jid].get("a", {})
            if a.get("gen") == "ok" and a.get("sha") == dflt_sha:
                inert.append(st[0])
    if dflt_sha is None or inert:
        raise C.ToolError("feature header does not make these options observable: %s" % inert[:4])
    res.add(behaviours={"single": len(singles), "pairs_enumerated": npairs, "pairs_run": len(pairs),
                        "sequences_generated": nseq_enum, "sequences_run": len(seqs), "configs_of_25": len(sims)}, replayed=kinds,
            model_predicted_failures_confirmed=confirmed, model_predicted_failures_not_reproduced=mispredicted,
            flag_list_shape_mismatches=ndrift)

    # ---- flag <-> documented method, defaults, CLI-only flags -------------------------------------
    fm_jobs, fm_meta = [], {}
    by_setters = {json.dumps(j["setters"]): j for j in jobs}
    k = 0
    for b in singles:
        s = b["hist"][0]
        r = rows[s["field"]]
        if r["class"] in ("headers", "clang_args"):
            continue
        s2 = dict(s)
        if r["class"] in ("list", "optstr", "str") and s["field"] in MEANINGFUL and s["arg"] == "foo":
            s2["arg"] = MEANINGFUL[s["field"]]
        fp = flag_path(rows, s2)
        if fp is None:
            continue
        k += 1
        jm = {"id": "fm%04dm" % k, "setters": [["header", H], render_setter(rows, s2)], "gen": True,
              "serial": s["field"].startswith("clang_macro_fallback")}
        jf = {"id": "fm%04df" % k, "flags0": [H] + fp + ["--experimental"], "gen": True, "serial": jm["serial"]}
        prev = by_setters.get(json.dumps(jm["setters"]))
        if prev:
            jm = prev                      # already run in the main batch
            fm_jobs += [jf]
        else:
            fm_jobs += [jm, jf]
        fm_meta[k] = (s2, fp, jm, jf)
    # the three codegen-selection flags together: Options.tla `Phase` (= apply_args: --generate first, then the
    # --ignore-* flags, wherever they stand on the command line) against the builder calls in that order
    cg_jobs, cg_meta = [], []
    for gi, G in enumerate((["functions", "types"], ["functions", "types", "methods"], ["types", "vars"], BITS)):
        for ii, ign in enumerate((["functions"], ["methods"], ["functions", "methods"])):
            jm = {"id": "cg%d%dm" % (gi, ii), "gen": True,
                  "setters": [["header", H], ["with_codegen_config", G]] + [["ignore_" + x] for x in ign]}
            cg_jobs.append(jm)
            gen = ["--generate=" + ",".join(G)]
            igf = ["--ignore-" + x for x in ign]
            for oi, fl in enumerate((gen + igf, igf + gen, igf[:1] + gen + igf[1:])):
                if oi == 2 and len(igf) < 2:
                    continue
                jf = {"id": "cg%d%df%d" % (gi, ii, oi), "flags0": [H] + fl, "gen": True}
                cg_jobs.append(jf)
                cg_meta.append((jm, jf, sorted(set(G) - set(ign))))
    dflt = [{"id": "dfltm", "setters": [["header", H]], "gen": True}, {"id": "dfltf", "flags0": [H], "gen": True}]
    cli_jobs = [{"id": "cli%02d" % i, "flags0": [H] + f, "gen": True} for i, (f, _) in enumerate(CLI_ONLY)]
    cli_methods = [{"id": "clm%02d" % i, "setters": [["header", H], m], "gen": True}
                   for i, (_, m) in enumerate(CLI_ONLY) if m]
    obs2 = run_jobs(fm_jobs + cg_jobs + dflt + cli_jobs + cli_methods, "flags")
    obs2.update(obs)
    ncg = 0
    for jm, jf, want in cg_meta:
        am, af = obs2[jm["id"]].get("a", {}), obs2[jf["id"]].get("a", {})
        if am.get("status") != "ok" or af.get("status") != "ok":
            raise C.ToolError("codegen flag combination did not run: %s %s / %s %s" % (jm["setters"][1:], am.get("status"), jf["flags0"][1:], af.get("status")))
        ncg += 1
        wit = {"methods": jm["setters"][1:], "flags0": jf["flags0"][1:], "model_codegen_config": want}
        if am["flags"] != af["flags"]:
            agg.setdefault("flag-method-differ:codegen-selection:flags", []).append(dict(wit, method_flags=am["flags"], flag_flags=af["flags"]))
        if (am.get("gen"), am.get("sha")) != (af.get("gen"), af.get("sha")):
            agg.setdefault("flag-method-differ:codegen-selection:bindings", []).append(dict(wit, gen=[am.get("gen"), af.get("gen")]))
        for key, det in judge(jf, obs2[jf["id"]]):
            agg.setdefault(key if ":" in key else key + ":codegen-selection", []).append(dict(det, kind="flag-path"))
    res.add(codegen_selection_flag_combinations=ncg)
    nfm = nrej = 0
    rejected = set()
    for k, (s2, fp, jm, jf) in fm_meta.items():
        om, of = obs2[jm["id"]], obs2[jf["id"]]
        am, af = om.get("a", {}), of.get("a", {})
        if am.get("status") != "ok":
            continue
        nfm += 1
        wit = {"method": jm["setters"][1], "flag": fp}
        if af.get("status") != "ok":
            # the command line validates its input more strictly than the method (empty paths, TYPE::FIELD=ATTR
            # syntax, values that look like flags): no effect to compare
            nrej += 1
            rejected.add(fp[0].split("=")[0])
            continue
        if am["flags"] != af["flags"]:
            agg.setdefault("flag-method-differ:%s:flags" % fp[0].split("=")[0], []).append(dict(wit, method_flags=am["flags"], flag_flags=af["flags"]))
        if (am.get("gen"), am.get("sha")) != (af.get("gen"), af.get("sha")):
            agg.setdefault("flag-method-differ:%s:bindings" % fp[0].split("=")[0], []).append(dict(wit, gen=[am.get("gen"), af.get("gen")]))
        for key, det in judge(jf, of):       # the flag path must round-trip as well
            agg.setdefault(key if ":" in key else key + ":" + fp[0].split("=")[0], []).append(dict(det, kind="flag-path"))
    dm, df = obs2["dfltm"], obs2["dfltf"]
    if dm["a"].get("status") != "ok" or df["a"].get("status") != "ok" or dm["a"]["flags"] != df["a"]["flags"] or \
            (dm["a"].get("gen"), dm["a"].get("sha")) != (df["a"].get("gen"), df["a"].get("sha")):
        agg.setdefault("defaults-differ", []).append({"builder": dm["a"], "from_flags": df["a"]})
    for j in dflt:
        for key, det in judge(j, obs2[j["id"]]):
            agg.setdefault("defaults:" + key, []).append(det)
    for j in cli_jobs:
        for key, det in judge(j, obs2[j["id"]]):
            name = j["flags0"][1]
            key = "flag-lost:" + name if key.startswith(("bindings-differ", "flags-differ")) else key
            agg.setdefault(key, []).append(dict(det, kind="cli-only"))
    for jm in cli_methods:                 # flag == documented library route (bindings; a callback has no flags)
        jf = next(j for j in cli_jobs if j["id"][3:] == jm["id"][3:])
        am, af = obs2[jm["id"]].get("a", {}), obs2[jf["id"]].get("a", {})
        name = jf["flags0"][1]
        if am.get("status") != "ok":
            raise C.ToolError("callback route failed: %s %s" % (jm["setters"], am))
        nfm += 1
        if af.get("status") != "ok":
            agg.setdefault("flag-rejected:" + name, []).append({"flags0": jf["flags0"], "status": af.get("status"),
                                                                "stderr": af.get("msg", "")[:300]})
        elif (am.get("gen"), am.get("sha")) != (af.get("gen"), af.get("sha")):
            agg.setdefault("flag-method-differ:%s:bindings" % name, []).append(
                {"flags0": jf["flags0"], "method": jm["setters"][1], "gen": [am.get("gen"), af.get("gen")]})
    res.add(flag_method_pairs_compared=nfm, cli_only_flags=len(cli_jobs), flag_path_values_rejected_by_cli=nrej)
    if rejected:
        res.notes.append("flag path: value rejected by the command line itself (not compared) for %s" % sorted(rejected))

    for key, dets in sorted(agg.items()):
        dets.sort(key=lambda x: len(json.dumps(x.get("setters") or x.get("flags0") or x.get("method") or "")))
        res.violation(key, {"count": len(dets), "first": dets[0],
                            "offending_flags": sorted({x["offending_flag"] for x in dets if x.get("offending_flag")}),
                            "fields": sorted({f for x in dets if len(x.get("fields", [])) <= 3 for f in x.get("fields", [])})[:80]})

    # ---- non-vacuity: tampered observations must be flagged by the same judge -------------------
    tam = 0
    okjob = next(j for j in jobs if obs[j["id"]].get("flags_equal") and obs[j["id"]].get("gen_equal"))
    o = json.loads(json.dumps(obs[okjob["id"]]))
    o["b"]["flags"] = o["b"]["flags"][:1] + o["b"]["flags"][2:]
    o["flags_equal"] = o["a"]["flags"] == o["b"]["flags"]
    if not any(k.startswith("flags-differ") for k, _ in judge(okjob, o)):
        raise C.ToolError("self-test: a dropped flag in flags' was not flagged")
    tam += 1
    o = json.loads(json.dumps(obs[okjob["id"]]))
    o["gen_equal"] = False
    if not any(k.startswith("bindings-differ") for k, _ in judge(okjob, o)):
        raise C.ToolError("self-test: differing bindings not flagged")
    tam += 1
    o = json.loads(json.dumps(obs[okjob["id"]]))
    o["b"] = {"status": "exit:2", "msg": "error: unexpected argument '--bogus' found"}
    if not any(k.startswith("reparse-rejected") for k, _ in judge(okjob, o)):
        raise C.ToolError("self-test: a clap exit was not flagged")
    tam += 1
    res.add(tampered_observations_flagged=tam,
            traces_validated_against_impl=len(jobs) + len(fm_jobs) + len(cg_jobs) + len(dflt) + len(cli_jobs))
    for want in ("single", "pair", "seq", "sim"):
        for jid, (kind, b, j) in meta.items():
            if kind == want:
                ob = obs[jid]
                res.sample_case({"kind": kind, "setters": j["setters"][1:6], "flags": (ob["a"].get("flags") or [])[1:12],
                                 "child": (ob.get("b") or {}).get("status"), "flags_equal": ob.get("flags_equal"),
                                 "bindings_equal": ob.get("gen_equal"), "model": b["rt"]})
                break
    res.cov["exhaustive"] = False


def shrink(job, viol, rows):
    """attribute a failing multi-option configuration to the smallest sub-configuration that still
    fails the same predicate (singles, then pairs)."""
    base, rest = job["setters"][0], job["setters"][1:]
    kinds = {k.split(":")[0] for k, _ in viol}
    cands = [[s] for s in rest]
    if len(rest) <= 12:
        cands += [[rest[i], rest[j]] for i in range(len(rest)) for j in range(i + 1, len(rest))]
    js = [{"id": "sh%04d" % i, "setters": [base] + c, "gen": True,
           "serial": any(str(s[0]).startswith("clang_macro_fallback") for s in c)} for i, c in enumerate(cands)]
    o = run_jobs(js, "shrink")
    for j in js:                       # in order: singles first
        v = judge(j, o[j["id"]])
        if v and {k.split(":")[0] for k, _ in v} & kinds:
            out = []
            for k, det in v:
                if k.startswith("bindings-differ") and ":" not in k:
                    k = k + ":" + ",".join(fields_of(j))
                out.append((k, dict(det, shrunk_from=len(rest))))
            return out
    return viol


def replay(res, path):
    C.build()
    VALUED.update(r["flag"] for r in U.raw_table()["rows"] if r.get("flag") and r["class"] not in ("bool", "nocli"))
    data = json.load(open(path))
    jobs = []
    for i, v in enumerate(data.get("violations", [])):
        f = v["detail"].get("first", {})
        if f.get("setters"):
            jobs.append({"id": "r%03d" % i, "setters": f["setters"], "gen": True, "key": v["key"]})
        elif f.get("flags0"):
            jobs.append({"id": "r%03d" % i, "flags0": f["flags0"], "gen": True, "key": v["key"]})
        elif f.get("flag"):
            hdr = f["method"] and [["header", os.path.join(C.WORK, "c13", "rt.hpp")]]
            jobs.append({"id": "r%03d" % i, "flags0": [os.path.join(C.WORK, "c13", "rt.hpp")] + f["flag"], "gen": True, "key": v["key"]})
    d = C.workdir("c13", clean=False)
    open(os.path.join(d, "rt.hpp"), "w").write(RT_HPP)
    open(os.path.join(d, "rt2.hpp"), "w").write(RT2_HPP)
    open(os.path.join(d, "rustfmt.toml"), "w").write("max_width = 80\n")
    o = batch(jobs, "replay")
    for j in jobs:
        v = judge(j, o[j["id"]])
        C.log("replay %s -> %s" % (j["key"], [k for k, _ in v]))
        for k, det in v:
            res.violation(j["key"], det)
    res.add(states=1, transitions=1, traces_validated_against_impl=len(jobs))
