"""C15 - formatter choice changes only whitespace; formatter failure is not fatal.

model : spec/back/Formatter.tla (parent / writer thread / child over two bounded pipes; every child
        script up to a length, spawn failures) + spec/back/WriteOut.tla (segments of the sink);
        deadlock freedom, termination under weak fairness, result class = f(child), never Err/Panic.
        Mutants that MUST fail: no writer thread, wait before drain, `?` instead of the fallback,
        separator always, prelude repeated on fallback; boundary: a child that never exits.
R     : Gen_Formatter prints every child script with the predicted result class; each is rendered as
        a fakefmt script and executed through the real `Bindings::write` (bvdrive fmtdrive: watchdog,
        catch_unwind) on a small and on a multi-megabyte header, with and without a rustfmt
        configuration file, plus absent / directory / non-executable formatter paths and the named
        fault scenarios of the property statement. Gen_WriteOut: header on/off x 0..2 raw lines.
R'    : the three real formatter settings compared token-wise on the repository corpus.
"""
import json
import os
import random
import resource
import statistics
import subprocess

import common as C

LEVEL = "model_checking"
BACK = os.path.join(C.SPEC, "back")
FAKEFMT = os.path.join(C.TARGET, "debug", "fakefmt")
RUSTFMT = "/root/.cargo/bin/rustfmt"
RAW = ["pub const C15_RAW_1: u8 = 1;", "pub const C15_RAW_2: u8 = 2;"]
THREADS = 12

# (module, cfg, what TLC must report)
SENSITIVITY = [
    ("Formatter.tla", "MC_Formatter_noThread.cfg", "Deadlock reached"),
    ("Formatter.tla", "MC_Formatter_waitBeforeDrain.cfg", "Deadlock reached"),
    ("Formatter.tla", "MC_Formatter_propagateErr.cfg", "Invariant NeverErrorPanic is violated"),
    ("Formatter.tla", "MC_Formatter_childNeverExits.cfg", "Deadlock reached"),   # boundary of the claim
    ("WriteOut.tla", "MC_WriteOut_sepAlways.cfg", "Invariant OnceInOrder is violated"),
    ("WriteOut.tla", "MC_WriteOut_preludeAgainOnFallback.cfg", "is violated"),
    # the order Trace_Formatter checks is the order of the machine, and the mutant breaks it
    ("Formatter.tla", "MC_Formatter_waitBeforeDrain_order.cfg", "Action property StepsFollowNextStep is violated"),
]

R4 = ["read"] * 4   # READALL on three chunks: three reads and the EOF
# Named fault scenarios of the property statement: (name, abstract script for the spec, fakefmt text
# with {r} = read chunk, {w} = write chunk, {half} = half of the source, expected body if trusted)
SCENARIOS = [
    ("exit1-wrote-nothing", ["exit1"], "EXIT 1", None),
    ("exit2-wrote-nothing", ["exit2"], "EXIT 2", None),
    ("exit101-wrote-nothing", ["exit101"], "EXIT 101", None),
    ("exit255-wrote-nothing", ["exit255"], "EXIT 255", None),
    ("sigkill-at-start", ["kill9"], "KILL 9", None),
    ("sigsegv-at-start", ["kill11"], "KILL 11", None),
    ("sigkill-after-half", ["read", "wv", "kill9"], "READ {half}\nECHO\nKILL 9", None),
    ("sigsegv-after-everything", R4 + ["wv", "kill11"], "READALL\nECHO\nKILL 11", None),
    ("exit1-wrote-half", ["read", "wv", "exit1"], "READ {half}\nECHO\nEXIT 1", None),
    ("exit1-wrote-everything", R4 + ["wv", "exit1"], "READALL\nECHO\nEXIT 1", None),
    ("exit2-wrote-everything", R4 + ["wv", "exit2"], "READALL\nECHO\nEXIT 2", None),
    ("exit101-wrote-everything", R4 + ["wv", "exit101"], "READALL\nECHO\nEXIT 101", None),
    ("exit255-wrote-everything", R4 + ["wv", "exit255"], "READALL\nECHO\nEXIT 255", None),
    ("invalid-utf8-exit0", ["wi", "exit0"], "WRITE {w} invalid-utf8\nEXIT 0", None),
    ("invalid-utf8-after-reading-exit0", R4 + ["wi", "exit0"], "READALL\nWRITE {w} invalid-utf8\nEXIT 0", None),
    ("invalid-utf8-after-valid-exit3", ["wv", "wi", "exit3"], "WRITE {w} valid\nWRITE 7 invalid-utf8\nEXIT 3", None),
    ("closes-stdin-immediately-exit1", ["cin", "exit1"], "CLOSEIN\nSLEEP 50\nEXIT 1", None),
    ("closes-stdin-immediately-exit0", ["cin", "exit0"], "CLOSEIN\nSLEEP 50\nEXIT 0", []),
    ("closes-stdin-then-writes-exit3", ["cin", "wv", "exit3"], "CLOSEIN\nWRITE {w} valid\nEXIT 3", [["mark", "w"]]),
    ("never-reads-sleeps-exit1", ["exit1"], "SLEEP 300\nEXIT 1", None),
    ("never-reads-writes-exit1", ["wv", "exit1"], "WRITE {w} valid\nSLEEP 100\nEXIT 1", None),
    ("never-reads-exit0", ["exit0"], "SLEEP 100\nEXIT 0", []),
    ("slow-reader-exit0", R4 + ["wv", "exit0"],
     "READ {r}\nSLEEP 150\nREAD {r}\nSLEEP 150\nREADALL\nECHO\nEXIT 0", [["echo"]]),
    ("slow-reader-exit1", R4 + ["wv", "exit1"],
     "READ {r}\nSLEEP 150\nREAD {r}\nSLEEP 150\nREADALL\nECHO\nEXIT 1", None),
    ("identity-exit0", R4 + ["wv", "exit0"], "READALL\nECHO\nEXIT 0", [["echo"]]),
    ("partial-success-exit3-complete-output", R4 + ["wv", "wv", "exit3"],
     "READALL\nWRITE 64 valid\nECHO\nEXIT 3", [["mark", 64], ["echo"]]),
    ("closes-stdout-early-exit0", ["cout", "read", "exit0"], "CLOSEOUT\nREAD {r}\nEXIT 0", []),
    ("closes-stdout-early-exit1", ["wv", "cout", "wv", "exit1"],
     "WRITE {w} valid\nCLOSEOUT\nWRITE {w} valid\nEXIT 1", None),
    ("closes-both-sleeps-exit2", ["cin", "cout", "exit2"], "CLOSEIN\nCLOSEOUT\nSLEEP 200\nEXIT 2", None),
]

OPS = {"read": "READ {r}", "wv": "WRITE {w} valid", "wi": "WRITE {w} invalid-utf8", "cin": "CLOSEIN",
       "cout": "CLOSEOUT", "kill9": "KILL 9", "kill11": "KILL 11"}


def concrete(script):
    return "\n".join(OPS[o] if o in OPS else "EXIT " + o[4:] for o in script)


# ---------------------------------------------------------------------------------------------
# model
# ---------------------------------------------------------------------------------------------

def tlc_run(module, cfg, name, env=None, workers=8, timeout=1500, coverage=False):
    return C.tlc(os.path.join(BACK, module), cfg="fmt/" + cfg, env=env, workers=workers, timeout=timeout,
                 deadlock=True, coverage=coverage, name="c15-" + name)


def model(res, tier):
    st = tr = 0
    runs = [("Formatter.tla", "MC_Formatter_quick.cfg", True),
            ("Formatter.tla", "MC_Formatter_live%s.cfg" % ("" if tier == "thorough" else "_q"), False),
            ("Formatter.tla", "MC_Formatter_noThread_fits.cfg", False), ("WriteOut.tla", "MC_WriteOut_code.cfg", False)]
    if tier == "thorough":
        runs.append(("Formatter.tla", "MC_Formatter_thorough.cfg", False))
    for mod, cfg, cov in runs:
        r = tlc_run(mod, cfg, cfg, coverage=cov, workers=10)
        if not C.tlc_ok(r):
            raise C.ToolError("model %s failed: %s" % (cfg, r["out"][-1500:]))
        if cov:
            zero = [a for a in C.coverage_zero_actions(r["out"]) if a not in ("P_SyncWrite",)]
            if zero:
                raise C.ToolError("vacuous model run, actions never taken: %s" % zero)
        st += r["distinct"]
        tr += r["generated"]
        res.cov.setdefault("model_runs", []).append({"cfg": cfg, "states": r["distinct"],
                                                     "transitions": r["generated"], "wall_s": round(r["wall"], 1)})
    res.add(states=st, transitions=tr, model_configs=len(runs))
    for mod, cfg, expect in SENSITIVITY:
        r = tlc_run(mod, cfg, cfg, workers=2, timeout=300)
        if expect not in r["out"]:
            raise C.ToolError("sensitivity config %s did not fail as required (%s): %s" % (cfg, expect, r["out"][-800:]))
    res.add(sensitivity_configs_failing_as_expected=len(SENSITIVITY))


def predictions(res, tier):
    """(script tuple, spawn, size) -> predicted record, from Gen_Formatter; size small = 1 source
    chunk, big = 3 chunks (more than either pipe capacity)."""
    d = C.workdir("c15-gen")
    extra = os.path.join(d, "extra.json")
    with open(extra, "w") as f:
        json.dump(sorted(set(tuple(s[1]) for s in SCENARIOS)), f)
    pred = {}
    for cfg in ("Gen_Formatter_%s.cfg" % tier, "Gen_Formatter_spawn.cfg"):
        r = tlc_run("Gen_Formatter.tla", cfg, cfg, env={"EXTRA": extra}, workers=10)
        if not C.tlc_ok(r):
            raise C.ToolError("generator %s failed: %s" % (cfg, r["out"][-1500:]))
        res.add(states=r["distinct"], transitions=r["generated"])
        for x in C.tlc_prints(r["out"], "SCRIPT"):
            if "raw" in x:
                raise C.ToolError("undecodable generator record: %s" % x["raw"][:200])
            key = (tuple(x["script"]), x["spawn"], "small" if x["s"] == 1 else "big")
            val = {"result": x["result"], "out": list(x["out"]), "wres": x["wres"]}
            if pred.setdefault(key, val) != val:
                # the spec says the result is a function of the child's behaviour alone
                raise C.ToolError("prediction is not a function of the script: %s %s vs %s" % (key, pred[key], val))
    return pred


# ---------------------------------------------------------------------------------------------
# driver
# ---------------------------------------------------------------------------------------------

def _limits():
    resource.setrlimit(resource.RLIMIT_CORE, (0, 0))   # fakefmt kills itself with SIGSEGV on purpose


class Tracer:
    """Collects the hook logs (`fmt`, `write_seg`, framed by `reset` / `run_end`) of the driver runs."""
    KEEP = ('{"ev":"reset"', '{"ev":"fmt"', '{"ev":"write_seg"', '{"ev":"run_end"')

    def __init__(self, name="trace"):
        self.path = os.path.join(C.workdir("c15-" + name), "trace.ndjson")
        self.pred, self.src, self.lines = {}, {}, 0

    def meta(self, g, v, j):
        args = g["args"]
        end = args.index("--") if "--" in args else len(args)
        raws = [args[i + 1] for i in range(end - 1) if args[i] == "--raw-line"]
        return {"formatter": v["formatter"], "header": bool(g["header"]),
                "raw_lens": [len(r.encode()) for r in raws], "src": self.src.get(j["id"], -1),
                "pred": self.pred.get(j["id"]) or ""}

    def collect(self, d):
        with open(self.path, "a") as o:
            for w in sorted(os.listdir(d)):
                p = os.path.join(d, w, "trace.ndjson")
                if not os.path.isfile(p):
                    continue
                with open(p, errors="replace") as f:
                    for line in f:
                        if line.startswith(self.KEEP):
                            o.write(line)
                            self.lines += 1
                os.remove(p)


def fmtdrive(groups, name, timeout_ms, threads=THREADS, wall=1500, tracer=None):
    """Run groups through `bvdrive fmtdrive`; returns ({job id: record}, {gid: group record})."""
    d = C.workdir("c15-" + name)
    jf = os.path.join(d, "jobs.json")
    if tracer:
        groups = [dict(g, variants=[dict(v, jobs=[dict(j, meta=tracer.meta(g, v, j)) for j in v["jobs"]])
                                    for v in g["variants"]]) for g in groups]
    with open(jf, "w") as f:
        json.dump({"threads": threads, "timeout_ms": int(timeout_ms), "fakefmt": FAKEFMT, "scratch": d,
                   "trace": bool(tracer), "groups": groups}, f)
    env = dict(os.environ)
    env.pop("BINDGEN_VERIF_LOG", None)
    env.pop("RUSTFMT", None)
    try:
        p = subprocess.run([C.BVDRIVE, "fmtdrive", jf], stdout=subprocess.PIPE, stderr=subprocess.DEVNULL,
                           text=True, timeout=wall, env=env, cwd=C.TESTS_CWD, preexec_fn=_limits)
    except subprocess.TimeoutExpired:
        raise C.ToolError("bvdrive fmtdrive timed out (%s)" % name)
    if tracer:
        tracer.collect(d)
    jobs, grp = {}, {}
    aborted = None
    for line in p.stdout.splitlines():
        try:
            r = json.loads(line)
        except Exception:
            continue
        if "aborted" in r:
            aborted = r
        elif "group" in r:
            grp[r["group"]] = r
        elif "id" in r:
            jobs[r["id"]] = r
    want = [j["id"] for g in groups for v in g["variants"] for j in v["jobs"]]
    missing = [i for i in want if i not in jobs]
    if missing and aborted:
        # the driver stopped after several hangs (each already reported as a job record)
        C.log("fmtdrive %s: %s, %d jobs not run" % (name, aborted["aborted"], len(missing)))
        for i in missing:
            jobs[i] = {"id": i, "result": "skipped", "msg": aborted["aborted"], "ms": 0}
    elif missing:
        if p.returncode == 0:
            raise C.ToolError("fmtdrive lost %d jobs (%s)" % (len(missing), name))
        for i in missing:   # the driver process died inside the code under test: data
            jobs[i] = {"id": i, "result": "crash", "msg": "driver exit status %d" % p.returncode, "ms": 0}
    return jobs, grp


def header_args(path, header=True, raws=RAW):
    a = ["bindgen", path]
    if not header:
        a.append("--disable-header-comment")
    for r in raws:
        a += ["--raw-line", r]
    return a


def group(gid, args, variants, raws=RAW, header=True, callbacks=None):
    return {"gid": gid, "args": args, "callbacks": callbacks, "raw_lines": list(raws), "header": header,
            "baseline_out": None, "variants": variants}


def variant(vid, jobs, formatter="rustfmt", rustfmt="fake", config=None):
    return {"vid": vid, "formatter": formatter, "rustfmt": rustfmt, "config_file": config, "jobs": jobs}


# ---------------------------------------------------------------------------------------------
# property predicates (violations) and shape predicates (drift)
# ---------------------------------------------------------------------------------------------

def judge(rec, cls, header=True, nraw=2, real=False):
    """cls: result class the spec predicts (None for a real formatter). Returns
    ([(kind, detail)] property failures, [text] shape differences)."""
    viol, drift = [], []
    if rec.get("result") == "skipped":
        return viol, drift
    if rec.get("result") != "ok":
        return [("write-" + str(rec.get("result")), rec.get("msg", ""))], drift
    if not rec.get("utf8"):
        return [("output-not-utf8", rec.get("tok_err", ""))], drift
    if rec.get("header_count") != (1 if header else 0):
        viol.append(("header-comment-count", rec.get("header_count")))
    if rec.get("raw_counts") != [1] * nraw or not rec.get("raw_order_ok"):
        viol.append(("raw-lines-once-in-order", [rec.get("raw_counts"), rec.get("raw_order_ok")]))
    if real:
        # the three formatter settings: same token sequence (modulo the recorded style rewrites)
        if not (rec.get("tok_eq_none") or rec.get("tok_eq_norm")):
            viol.append(("formatter-tokens", rec.get("tok_err") or rec.get("tok_diff")))
    elif cls != "Formatted":
        # the child signalled failure: unformatted, token-identical code
        if not rec.get("tok_eq_none"):
            viol.append(("fallback-tokens", rec.get("tok_err") or rec.get("tok_diff")))
        elif not rec.get("body_eq_source"):
            drift.append("fallback text is token-equal but not byte-equal to the Formatter::None text")
    else:
        # trusted child (outside the claim): the spec says the body is the child's output
        if rec.get("body_eq_expect") is False:
            drift.append("trusted child: body is not the child's output (spec predicts Formatted)")
    if not viol and not rec.get("starts_with_prelude"):
        drift.append("prelude bytes differ from the Formatter::None prelude")
    return viol, drift


class Tally:
    def __init__(self, res):
        self.res = res
        self.runs = 0
        self.classes = {}
        self.drifts = {}

    def apply(self, rec, cls, key, detail, **kw):
        self.runs += 1
        viol, drift = judge(rec, cls, **kw)
        for kind, why in viol:
            dd = dict(detail)
            dd.update({"why": why, "record": {k: v for k, v in rec.items() if k != "tok_diff"}})
            self.res.violation("%s:%s" % (kind, key), dd)
        for t in drift:
            self.drifts.setdefault(t, []).append(key)
        return not viol

    def flush(self):
        for t, keys in self.drifts.items():
            self.res.drift.append("%s (%d runs, e.g. %s)" % (t, len(keys), keys[0]))


# ---------------------------------------------------------------------------------------------
# R: scripted children
# ---------------------------------------------------------------------------------------------

def make_headers(d):
    small = os.path.join(d, "small.h")
    with open(small, "w") as f:
        f.write("/** A documented struct. */\nstruct S { int a; char b; double c[3]; };\ntypedef struct S S_t;\n"
                "enum E { E_A, E_B = 5 };\nunion U { int i; float f; };\nint foo(struct S *s, enum E e);\n"
                "extern const char *name;\n#define K 42\n")
    big = os.path.join(d, "big.h")
    with open(big, "w") as f:
        for i in range(4000):
            f.write("/** record %d */\nstruct R%d { int a%d; char b[%d]; double c; struct R%d *prev; };\n"
                    "int use_R%d(struct R%d *p, unsigned flags);\n" % (i, i, i, (i % 7) + 1, max(i - 1, 0), i, i))
    return {"small": small, "big": big}


def spawn_failures(d):
    absent = os.path.join(d, "no-such-dir", "rustfmt")
    adir = os.path.join(d, "a-directory")
    os.makedirs(adir, exist_ok=True)
    noexec = os.path.join(d, "not-executable")
    with open(noexec, "w") as f:
        f.write("#!/bin/sh\nexit 0\n")
    os.chmod(noexec, 0o644)
    return {"absent": absent, "dir": adir, "noexec": noexec}


def slices(items, n):
    n = max(1, min(n, len(items)))
    return [items[i::n] for i in range(n)]


def scripted(res, tier, pred, tally, tracer=None):
    d = C.workdir("c15-inputs")
    hdr = make_headers(d)
    bad = spawn_failures(d)
    cfg_present = os.path.join(d, "rustfmt.toml")
    with open(cfg_present, "w") as f:
        f.write("max_width = 60\nhard_tabs = true\n")
    cfg_absent = os.path.join(d, "no-such-rustfmt.toml")

    # calibration: source length and the median time of a fallback run, per size
    cal = [group("cal-" + sz, header_args(hdr[sz]),
                 [variant("fake", [{"id": "cal|%s|%d" % (sz, i), "script": "EXIT 1"} for i in range(7)])])
           for sz in ("small", "big")]
    jobs, grp = fmtdrive(cal, "calibrate", 120000)
    size = {}
    for sz in ("small", "big"):
        g = grp.get("cal-" + sz, {})
        if g.get("baseline") != "ok":
            raise C.ToolError("generated header %s does not generate: %s" % (sz, g))
        ms = [jobs["cal|%s|%d" % (sz, i)].get("ms", 0) for i in range(7)]
        if any(jobs["cal|%s|%d" % (sz, i)].get("result") != "ok" for i in range(7)):
            # the code under test fails on the simplest failing formatter: judged below as well
            pass
        src = g["len"] - g["prelude_len"]
        nchunks = 1 if sz == "small" else 3
        size[sz] = {"src": src, "r": -(-src // nchunks), "w": 1000 if sz == "small" else 200000,
                    "half": src // 2, "median_ms": statistics.median(ms),
                    "timeout": int(max(50 * statistics.median(ms), 20000))}
    if size["small"]["src"] >= 65536 or size["big"]["src"] < 2 * 1024 * 1024:
        raise C.ToolError("generated headers have the wrong size: %s" % size)
    res.add(source_bytes_small=size["small"]["src"], source_bytes_big=size["big"]["src"],
            hang_timeout_ms={k: v["timeout"] for k, v in size.items()},
            median_write_ms={k: v["median_ms"] for k, v in size.items()})

    scripts = sorted(k[0] for k in pred if k[1] == "ok" and k[2] == "small")
    rnd = random.Random("%d:c15" % C.seed())
    meta = {}   # job id -> (predicted class, key, detail)
    groups = []
    for sz in ("small", "big"):
        S = size[sz]
        fill = lambda t: t.replace("{r}", str(S["r"])).replace("{w}", str(S["w"])).replace("{half}", str(S["half"]))

        def expect_of(p, override):
            if p["result"] != "Formatted":
                return None
            if override is not None:
                return [[seg[0], S["w"] if seg[1] == "w" else seg[1]] if seg[0] == "mark" else [seg[0]]
                        for seg in override]
            return [["mark", S["w"]]] * len(p["out"])

        def jobs_for(vname, which, with_scen):
            out = []
            for sc in which:
                p = pred[(sc, "ok", sz)]
                jid = "%s|%s|%s" % (sz, vname, ".".join(sc))
                out.append({"id": jid, "script": fill(concrete(sc)), "expect_body": expect_of(p, None)})
                meta[jid] = (p["result"], "%s:%s:%s" % (sz, vname, ".".join(sc)),
                             {"size": sz, "config": vname, "script": list(sc), "predicted": p})
            if with_scen:
                for name, sc, text, exp in SCENARIOS:
                    p = pred[(tuple(sc), "ok", sz)]
                    jid = "%s|%s|@%s" % (sz, vname, name)
                    out.append({"id": jid, "script": fill(text), "expect_body": expect_of(p, exp), "tokens": True})
                    meta[jid] = (p["result"], "%s:%s:@%s" % (sz, vname, name),
                                 {"size": sz, "config": vname, "scenario": name, "script": list(sc),
                                  "fakefmt": fill(text), "predicted": p})
            return out

        nocfg = jobs_for("nocfg", scripts, True)
        if tier == "thorough" and sz == "small":
            sub = scripts
        else:
            sub = sorted(rnd.sample(scripts, min(len(scripts), 150 if sz == "small" else 40)))
        withcfg = jobs_for("cfg", sub, True)
        abscfg = jobs_for("cfgabsent", sorted(rnd.sample(scripts, min(len(scripts), 40))), True)
        s_cfg, s_abs = slices(withcfg, THREADS), slices(abscfg, THREADS)
        for i, sl in enumerate(slices(nocfg, THREADS)):
            vs = [variant("nocfg", sl)]
            if i < len(s_cfg):
                vs.append(variant("cfg", s_cfg[i], config=cfg_present))
            if i < len(s_abs):
                vs.append(variant("cfgabsent", s_abs[i], config=cfg_absent))
            groups.append(group("%s#%d" % (sz, i), header_args(hdr[sz]), vs))
        # spawn failures
        vs = []
        for kind, path in sorted(bad.items()):
            for vname, cf in (("nocfg", None), ("cfg", cfg_present)):
                p = pred[(("exit0",), kind, sz)]
                jid = "%s|%s|spawn-%s" % (sz, vname, kind)
                vs.append(variant("spawn-%s-%s" % (kind, vname), [{"id": jid}], rustfmt=path, config=cf))
                meta[jid] = (p["result"], "%s:%s:spawn-%s" % (sz, vname, kind),
                             {"size": sz, "config": vname, "spawn": kind, "rustfmt_path": path, "predicted": p})
        groups.append(group("%s#spawn" % sz, header_args(hdr[sz]), vs))
    # one driver run per size so that each size has its own hang timeout
    classes = {}
    for sz in ("small", "big"):
        gs = [g for g in groups if g["gid"].startswith(sz + "#")]
        if tracer:
            for jid, (cls, _k, _d) in meta.items():
                if jid.startswith(sz + "|"):
                    tracer.pred[jid], tracer.src[jid] = cls, size[sz]["src"]
        jobs, grp = fmtdrive(gs, "scripted-" + sz, size[sz]["timeout"], tracer=tracer)
        for g in gs:
            if grp.get(g["gid"], {}).get("baseline") != "ok":
                raise C.ToolError("reference generation failed for %s: %s" % (g["gid"], grp.get(g["gid"])))
            for v in g["variants"]:
                for j in v["jobs"]:
                    rec = jobs[j["id"]]
                    if rec.get("result") == "gen_fail":
                        raise C.ToolError("generation failed for %s: %s" % (j["id"], rec.get("msg")))
                    cls, key, detail = meta[j["id"]]
                    detail = dict(detail, replay={"group": dict(g, variants=[dict(v, jobs=[j])]),
                                                  "class": cls, "timeout_ms": size[sz]["timeout"]})
                    tally.apply(rec, cls, key, detail)
                    classes[(sz, cls)] = classes.get((sz, cls), 0) + 1
                    if v["vid"] == "cfg" and "child_log" in rec and "--config-path " + cfg_present not in rec["child_log"]:
                        tally.drifts.setdefault("rustfmt configuration file not passed as --config-path", []).append(key)
                    if j["id"].endswith("@slow-reader-exit0") or j["id"].endswith("|nocfg|spawn-dir"):
                        res.sample_case({"job": j["id"], "predicted": cls, "fakefmt": j.get("script"),
                                         "observed": {k: rec.get(k) for k in ("result", "ms", "len", "body_eq_source",
                                                                              "body_eq_expect", "tok_eq_none", "child_log")}})
    res.add(scripts_enumerated=len(scripts), named_scenarios=len(SCENARIOS),
            scripted_runs={"%s/%s" % k: v for k, v in sorted(classes.items())})
    return hdr, size, cfg_present, cfg_absent


def writeout(res, hdr, size, tally, tracer=None):
    r = tlc_run("WriteOut.tla", "Gen_WriteOut.cfg", "gen-writeout", workers=2, timeout=300)
    if not C.tlc_ok(r):
        raise C.ToolError("Gen_WriteOut failed: %s" % r["out"][-1200:])
    res.add(states=r["distinct"], transitions=r["generated"])
    recs = C.tlc_prints(r["out"], "WRITEOUT")
    how = {"Formatted": ("WRITE 100 valid\nEXIT 0", "Formatted", [["mark", 100]]),
           "Source": ("WRITE 100 invalid-utf8\nEXIT 0", "Source", None), "Err": ("EXIT 2", "Fallback", None)}
    groups, meta = [], {}
    for x in recs:
        key = "h%d-r%d" % (1 if x["header"] else 0, x["nraw"])
        g = next((g for g in groups if g["gid"] == "wo-" + key), None)
        if g is None:
            g = group("wo-" + key, header_args(hdr["small"], header=x["header"], raws=RAW[:x["nraw"]]),
                      [variant("fake", [])], raws=RAW[:x["nraw"]], header=x["header"])
            groups.append(g)
        text, cls, exp = how[x["outcome"]]
        if (x["body"] == "formatted") != (cls == "Formatted"):
            raise C.ToolError("WriteOut and Formatter disagree on the body kind: %s" % x)
        jid = "wo|%s|%s" % (key, x["outcome"])
        g["variants"][0]["jobs"].append({"id": jid, "script": text, "expect_body": exp})
        meta[jid] = (cls, x)
    if tracer:
        for jid, (cls, _x) in meta.items():
            tracer.pred[jid], tracer.src[jid] = cls, size["small"]["src"]
    jobs, grp = fmtdrive(groups, "writeout", size["small"]["timeout"], tracer=tracer)
    for jid, (cls, x) in sorted(meta.items()):
        rec = jobs[jid]
        if rec.get("result") == "gen_fail":
            raise C.ToolError("generation failed for %s: %s" % (jid, rec.get("msg")))
        tally.apply(rec, cls, "writeout:" + jid, {"writeout": x}, header=x["header"], nraw=x["nraw"])
    res.add(writeout_configurations=len(meta))


# ---------------------------------------------------------------------------------------------
# R': the three real formatter settings
# ---------------------------------------------------------------------------------------------

def rustfmt_works():
    try:
        p = subprocess.run([RUSTFMT, "--edition", "2021"], input="fn  a ( ) { }", stdout=subprocess.PIPE,
                           stderr=subprocess.DEVNULL, text=True, timeout=60)
        return p.returncode == 0 and p.stdout.strip() == "fn a() {}"
    except Exception:
        return False


def corpus_args(c):
    args = [a for a in c["args"] if a not in ("--formatter=none", "--disable-header-comment")]
    i = args.index("--") if "--" in args else len(args)
    return args[:i] + ["--raw-line", RAW[0], "--raw-line", RAW[1]] + args[i:]


def real_formatters(res, tier, hdr, size, cfg_present, cfg_absent, tally, tracer=None):
    have_rustfmt = rustfmt_works()
    if not have_rustfmt:
        res.notes.append("rustfmt is not runnable offline: only none and prettyplease compared")
    cases = C.sample(C.corpus_cases(), None if tier == "thorough" else 40, "c15-corpus")

    def variants(tag):
        vs = [variant("prettyplease", [{"id": tag + "|prettyplease"}], formatter="prettyplease", rustfmt=None)]
        if have_rustfmt:
            vs.append(variant("rustfmt", [{"id": tag + "|rustfmt"}], rustfmt=RUSTFMT))
        return vs
    groups = [group(c["id"], corpus_args(c), variants(c["id"]), callbacks=c["callbacks"]) for c in cases]
    for sz in ("small", "big"):
        g = group("gen-" + sz, header_args(hdr[sz]), variants("gen-" + sz))
        if have_rustfmt:
            g["variants"].append(variant("rustfmt-cfg", [{"id": "gen-%s|rustfmt-cfg" % sz}], rustfmt=RUSTFMT,
                                         config=cfg_present))
            # real rustfmt refuses a missing configuration file (exit status 1): fallback expected
            g["variants"].append(variant("rustfmt-cfgabsent", [{"id": "gen-%s|rustfmt-cfgabsent" % sz}],
                                         rustfmt=RUSTFMT, config=cfg_absent))
        groups.append(g)
    if tracer:
        for sz in ("small", "big"):
            tracer.pred["gen-%s|rustfmt-cfgabsent" % sz] = "Fallback"
    jobs, grp = fmtdrive(groups, "real", 600000, tracer=tracer)
    ok_cases = strict = 0
    levels = {}
    for g in groups:
        if grp.get(g["gid"], {}).get("baseline") != "ok":
            if g["gid"].startswith("gen-"):
                raise C.ToolError("generated header does not generate: %s" % grp.get(g["gid"]))
            continue   # headers of the corpus that do not generate are C12's business
        ok_cases += 1
        for v in g["variants"]:
            for j in v["jobs"]:
                rec = jobs[j["id"]]
                if rec.get("result") == "gen_fail":
                    continue
                detail = {"case": g["gid"], "formatter": v["vid"], "args": g["args"][1:10],
                          "replay": {"group": dict(g, variants=[v]), "class": None, "timeout_ms": 600000}}
                if v["vid"] == "rustfmt-cfgabsent":
                    tally.apply(rec, "Fallback", "real:%s:%s" % (v["vid"], g["gid"]), detail)
                    continue
                tally.apply(rec, None, "real:%s:%s" % (v["vid"], g["gid"]), detail, real=True)
                if rec.get("tok_eq_none"):
                    strict += 1
                elif rec.get("tok_eq_norm"):
                    lv = "%s/level%d" % (v["vid"].split("-")[0], rec.get("tok_norm_level", 0))
                    levels[lv] = levels.get(lv, 0) + 1
                if rec.get("body_eq_source") and rec.get("len", 0) > grp[g["gid"]].get("prelude_len", 0):
                    res.notes.append("formatter %s returned the unformatted text for %s" % (v["vid"], g["gid"]))
    res.add(corpus_cases_compared=ok_cases, real_formatter_runs_strictly_token_equal=strict,
            real_formatter_runs_equal_modulo_style_rewrites=levels)
    if cases:
        c = cases[0]
        res.sample_case({"corpus_case": c["id"], "formatters": ["none", "prettyplease"] + (["rustfmt"] if have_rustfmt else []),
                         "observed": {v: {k: jobs.get("%s|%s" % (c["id"], v), {}).get(k) for k in
                                          ("result", "tok_eq_none", "tok_norm_level", "header_count", "raw_counts")}
                                      for v in ("prettyplease", "rustfmt")}})
    return have_rustfmt


# ---------------------------------------------------------------------------------------------
# non-vacuity of the predicates
# ---------------------------------------------------------------------------------------------

def selftest(res, hdr, size, have_rustfmt):
    want = {"drop_token": "fallback-tokens", "truncate": "fallback-tokens", "dup_header": "header-comment-count",
            "swap_raw": "raw-lines-once-in-order"}
    js = [{"id": "self|" + k, "script": "EXIT 1", "tamper": k} for k in sorted(want)]
    js.append({"id": "self|hang", "script": "CLOSEOUT\nSLEEP 2500\nEXIT 0", "timeout_ms": 400})
    js.append({"id": "self|after-hang", "script": "EXIT 1"})
    vs = [variant("fake", js)]
    if have_rustfmt:
        vs.append(variant("rustfmt", [{"id": "self|rustfmt-drop", "tamper": "drop_token"}], rustfmt=RUSTFMT))
    jobs, _ = fmtdrive([group("self", header_args(hdr["small"]), vs)], "selftest", size["small"]["timeout"], threads=1)
    seen = 0
    for k, kind in want.items():
        v, _ = judge(jobs["self|" + k], "Fallback")
        if kind not in [x[0] for x in v]:
            raise C.ToolError("predicate self-test: tampering %s is not detected (%s)" % (k, jobs["self|" + k]))
        seen += 1
    v, _ = judge(jobs["self|hang"], "Formatted")
    if [x[0] for x in v] != ["write-hang"]:
        raise C.ToolError("watchdog self-test: a child that never exits is not reported as a hang: %s" % jobs["self|hang"])
    v, _ = judge(jobs["self|after-hang"], "Fallback")
    if v:
        raise C.ToolError("watchdog self-test: the run after a hang is not clean: %s" % v)
    seen += 2
    if have_rustfmt:
        v, _ = judge(jobs["self|rustfmt-drop"], None, real=True)
        if "formatter-tokens" not in [x[0] for x in v]:
            raise C.ToolError("predicate self-test: a dropped token in rustfmt output is not detected")
        seen += 1
    res.add(predicate_selftests_detected=seen)


# ---------------------------------------------------------------------------------------------
# T: hook logs of every run validated against Formatter / WriteOut rules by TLC
# ---------------------------------------------------------------------------------------------

def run_trace(path, name):
    r = C.tlc(os.path.join(BACK, "Trace_Formatter.tla"), cfg="fmt/Trace_Formatter.cfg", env={"TRACE": path},
              workers=1, dfs=True, timeout=1500, name="c15-tv-" + name)
    if not C.tlc_ok(r):
        rej = C.tlc_prints(r["out"], "REJECTED")
        raise C.ToolError("trace validation did not complete (%s): %s" % (name, rej or r["out"][-1500:]))
    out = {}
    for tag in ("VIOL", "DRIFT", "COUNTS"):
        v = C.tlc_prints(r["out"], tag)
        if not v or (isinstance(v[-1], dict) and "raw" in v[-1]):
            raise C.ToolError("trace validation printed no %s (%s)" % (tag, name))
        out[tag] = v[-1]
    return out, r


def validate_trace(res, tracer, tally, chunk=60000):
    """All collected runs, in chunks cut at `reset` lines (one TLC run per chunk)."""
    if tracer.lines == 0:
        raise C.ToolError("no hook events were logged (bindgen built without cfg(bindgen_verif)?)")
    d = os.path.dirname(tracer.path)
    parts, cur, n = [], None, 0
    with open(tracer.path) as f:
        for line in f:
            if cur is None or (n >= chunk and line.startswith('{"ev":"reset"')):
                if cur:
                    cur.close()
                parts.append(os.path.join(d, "part%d.ndjson" % len(parts)))
                cur, n = open(parts[-1], "w"), 0
            cur.write(line)
            n += 1
    if cur:
        cur.close()
    tot = {"runs": 0, "validated": 0, "incomplete": 0, "events": 0, "external": 0}
    for i, p in enumerate(parts):
        out, r = run_trace(p, "part%d" % i)
        res.add(trace_states=r["distinct"])
        for k in tot:
            tot[k] += out["COUNTS"].get(k, 0)
        for v in out["VIOL"]:
            # `segments` / `triage`: exactly the property statement, seen from inside the implementation
            res.violation("trace-%s:%s" % (v.get("kind"), v.get("case")), v)
        for dr in out["DRIFT"]:
            tally.drifts.setdefault("trace: " + str(dr.get("kind")), []).append(str(dr.get("case")))
        os.remove(p)
    res.add(trace_runs_validated=tot["validated"], trace_runs_with_child_protocol=tot["external"],
            trace_runs_incomplete=tot["incomplete"], trace_events=tot["events"])
    if tot["validated"] == 0 or tot["external"] == 0:
        raise C.ToolError("vacuous trace validation: %s" % tot)
    trace_sensitivity(res, tracer)
    os.remove(tracer.path)
    return tot["validated"]


def trace_sensitivity(res, tracer):
    """Corrupt recorded runs (drop an event, change a field, duplicate a segment): TLC must object."""
    runs, cur = [], []
    with open(tracer.path) as f:
        for line in f:
            if line.startswith('{"ev":"reset"') and cur:
                runs.append(cur)
                cur = []
            cur.append(line)
            if len(runs) > 4000:
                break
    def pick(pred):
        for r in runs:
            if pred("".join(r)) and r[-1].startswith('{"ev":"run_end"') and '"result":"ok"' in r[-1]:
                return list(r)
        raise C.ToolError("trace sensitivity: no suitable recorded run")
    def rename(r, name):
        m = json.loads(r[0])
        m["case"] = name
        return [json.dumps(m, separators=(",", ":")) + "\n"] + r[1:]
    full = lambda t: '"step":"joined"' in t and '"kind":"header"' in t and '"kind":"raw"' in t
    a = rename([l for l in pick(full) if '"step":"waited"' not in l], "drop-waited")
    b = rename([l.replace('"body_tokens"', '"body_formatted"') for l in pick(lambda t: full(t) and "body_tokens" in t)],
               "fallback-as-formatted")
    c0 = pick(full)
    hdr = [l for l in c0 if '"kind":"header"' in l][0]
    c = rename(c0[:-2] + [hdr] + c0[-2:], "header-twice")
    d0 = pick(full)
    d = rename([l for l in d0 if '"kind":"sep"' not in l], "sep-dropped")
    e = rename([l.replace('"a":1', '"a":0') if '"step":"joined"' in l else l
                for l in pick(lambda t: full(t) and "body_tokens" in t and '"step":"joined","a":1' in t)],
               "utf8-flag-flipped")
    p = os.path.join(os.path.dirname(tracer.path), "corrupted.ndjson")
    with open(p, "w") as f:
        for r in (a, b, c, d, e):
            f.writelines(r)
    out, _ = run_trace(p, "sens")
    got = {(v.get("kind"), v.get("case")) for v in out["VIOL"]} | {(v.get("kind"), v.get("case")) for v in out["DRIFT"]}
    want = {("protocol-order", "drop-waited"), ("triage", "fallback-as-formatted"), ("segments", "header-twice"),
            ("segments", "sep-dropped"), ("triage", "utf8-flag-flipped")}
    if not want <= got:
        raise C.ToolError("trace sensitivity: corruptions not detected: %s" % sorted(want - got))
    res.add(trace_corruptions_detected=len(want))
    os.remove(p)


# ---------------------------------------------------------------------------------------------

ASSUMPTIONS = [
    "a child that reports success (exit status 0 or 3, valid UTF-8) is trusted whatever it printed, also after "
    "closing stdin early (boundary of the property; those runs are only required to return Ok with the prelude intact)",
    "a child that never exits (or whose descendants keep its stdout open) is outside the claim "
    "(MC_Formatter_childNeverExits.cfg deadlocks; the watchdog self-test shows the hang would be seen)",
    "one spec chunk = the whole source (small header, fits into a 64 KiB pipe) or a third of a multi-megabyte source "
    "(big header); child writes of the big variant are 200000 bytes, larger than the pipe",
    "real formatters: token sequences are compared modulo the recorded style rewrites (trailing comma before a closing "
    "delimiter / where-clause brace, merged adjacent derives, `impl<>`, import order and redundant `as`); strict "
    "counts are in the evidence",
    "punctuation spacing (joint/alone) is not part of the compared token sequence",
    "the sink given to Bindings::write is a Vec (cannot fail)",
]


def run(res, tier):
    import time
    res.assumptions += ASSUMPTIONS
    t = [time.time()]
    stage = {}

    def lap(name):
        t.append(time.time())
        stage[name] = round(t[-1] - t[-2], 1)
    C.build()
    if not os.path.exists(FAKEFMT):
        raise C.ToolError("fakefmt was not built")
    lap("build")
    model(res, tier)
    lap("model")
    pred = predictions(res, tier)
    lap("generate")
    tally = Tally(res)
    tracer = Tracer()
    hdr, size, cfg_present, cfg_absent = scripted(res, tier, pred, tally, tracer)
    lap("scripted")
    writeout(res, hdr, size, tally, tracer)
    lap("writeout")
    have_rustfmt = real_formatters(res, tier, hdr, size, cfg_present, cfg_absent, tally, tracer)
    lap("real")
    selftest(res, hdr, size, have_rustfmt)
    lap("selftest")
    validated = validate_trace(res, tracer, tally)
    lap("trace")
    res.add(stage_s=stage)
    tally.flush()
    # every implementation run is replayed from the spec (R) and its hook log validated by TLC (T)
    res.add(traces_validated_against_impl=validated, implementation_runs_replayed=tally.runs,
            distinct_behaviours_replayed=len(pred))
    res.cov["exhaustive"] = False


def replay(res, path):
    """Re-run the jobs of a replay file (replays/C15-<tier>.json) through the real code."""
    C.build()
    with open(path) as f:
        data = json.load(f)
    tally = Tally(res)
    for i, v in enumerate(data.get("violations", [])):
        rp = v.get("detail", {}).get("replay")
        if not rp:
            continue
        g = rp["group"]
        jobs, grp = fmtdrive([g], "replay-%d" % i, rp.get("timeout_ms", 60000), threads=1)
        for var in g["variants"]:
            for j in var["jobs"]:
                rec = jobs[j["id"]]
                print("REPLAY %s -> %s" % (j["id"], json.dumps({k: rec.get(k) for k in
                      ("result", "msg", "ms", "utf8", "header_count", "raw_counts", "raw_order_ok", "body_eq_source",
                       "body_eq_expect", "tok_eq_none", "tok_eq_norm", "tok_err", "tok_diff")})[:1500]))
                tally.apply(rec, rp.get("class"), v["key"].split(":", 1)[-1], {"replayed": j["id"]},
                            real=rp.get("class") is None, header=g.get("header", True),
                            nraw=len(g.get("raw_lines", RAW)))
    res.add(states=1, transitions=1, traces_validated_against_impl=tally.runs)
    tally.flush()
