"""C18 - extern-block merging and semantic sorting only regroup items.

spec   : spec/back/Postprocess.tla   L2 = merge fold step / stable sort by rank (what the code does),
                                     L1 = item multiset, module structure, merge key, same-kind order
model  : MC_Postprocess.tla  every item tree of a bounded universe x 4 pass combinations x 2 rounds,
                             L2 => L1 under UniformUnsafety; sensitivity configs (mechanism removed)
R      : Gen_Postprocess_*.cfg  TLC prints every tree with the predicted result per combination; the
                             tree is rendered to Rust source and pushed through the REAL passes
                             (bvdrive postprocess -> bindgen::verif::verif_postprocess), re-parsed with syn
                             and validated by TLC (Trace_Postprocess: L1 predicates => violation,
                             exact equality with the prediction => DRIFT)
T      : repository headers + generated C/C++ headers x option sets, bindgen run 4 times
                             (none / merge / sort / both), inventories abstracted to trees and validated
                             by TLC with the same predicates; processed outputs re-processed
                             (idempotence) and compiled with rustc
"""
import concurrent.futures as cf
import json
import os
import random
import re
import shutil
import subprocess

import common as C

LEVEL = "model_checking"
BACK = os.path.join(C.SPEC, "back")
MC = os.path.join(BACK, "MC_Postprocess.tla")

MODEL = {
    "quick": ["sort_q", "merge_q", "attrs_q", "nest_q", "uns_q", "keyUnsafety_q"],
    "thorough": ["sort_t", "sort6_t", "merge_t", "merge6_t", "full_t", "attrs_t", "nest_t", "uns_t", "keyUnsafety_t"],
}
# mechanism removed -> the invariant that must fail
SENSITIVITY = {
    "x_ignoreAttrs": "InvMergeKey", "x_ignoreAbi": "InvMergeKey", "x_dropBlock": "InvItems",
    "x_dupBlock": "InvItems", "x_hoist": "InvItems", "x_unnest": "InvModules", "x_rotate": "InvIdempotent",
    "x_unstableSort": "InvKindOrder",
}
LATENT_CFG = "x_mixedUnsafety"
GEN = {"quick": ["Gen_Postprocess_q", "Gen_Postprocess_len_q"],
       "thorough": ["Gen_Postprocess_t", "Gen_Postprocess_len_t"]}
COMBOS = [(False, False), (True, False), (False, True), (True, True)]
CNAME = {(False, False): "none", (True, False): "merge", (False, True): "sort", (True, True): "both"}
CFLAGS = {(False, False): [], (True, False): ["--merge-extern-blocks"], (False, True): ["--sort-semantically"],
          (True, True): ["--merge-extern-blocks", "--sort-semantically"]}


# ---------------------------------------------------------------------------
# abstract trees <-> Rust source
# ---------------------------------------------------------------------------

KIND = {"struct": "Struct", "type": "Type", "const": "Const", "fn": "Fn", "enum": "Enum", "union": "Union",
        "static": "Static", "impl": "Impl", "use": "Use", "mod": "Mod", "foreign_mod": "FM", "macro": "Macro",
        "other": "Other", "foreign_fn": "FFn", "foreign_static": "FStatic", "foreign_type": "FType",
        "foreign_other": "FOther"}
BATTR = {"none": "", "a": '#[link(name = "a")]', "b": '#[link(wasm_import_module = "b")]'}
FATTR = {"none": "", "a": '#[link_name = "ln"]', "b": '#[must_use] #[doc = " d"]'}


def nows(s):
    return re.sub(r"\s+", "", s)


BATTR_BACK = {nows(v): k for k, v in BATTR.items()}
FATTR_BACK = {nows(v): k for k, v in FATTR.items()}


def item(k, i, items=(), abi="", at="", uns=False):
    return {"k": k, "id": i, "items": list(items), "abi": abi, "at": at, "uns": bool(uns)}


def norm(tree):
    """Spec tree (JSON printed by TLC) -> canonical python tree; extern blocks have no identity."""
    out = []
    for x in (tree if isinstance(tree, list) else []):
        sub = x.get("items") or []
        out.append(item(x["k"], 0 if x["k"] == "FM" else x["id"], norm(sub), x.get("abi", ""), x.get("at", ""),
                        x.get("uns", False)))
    return out


def render(tree):
    """Abstract tree -> Rust source whose item names carry the ids."""
    parts = []
    for x in tree:
        k, i = x["k"], x["id"]
        if k == "Type":
            parts.append("pub type T%d = u32;" % i)
        elif k == "Struct":
            parts.append("#[repr(C)] #[derive(Debug, Copy, Clone)] pub struct S%d { pub x: u8 }" % i)
        elif k == "Const":
            parts.append("pub const C%d: u32 = %d;" % (i, i))
        elif k == "Fn":
            parts.append("pub fn f%d() {}" % i)
        elif k == "Enum":
            parts.append("#[repr(u32)] pub enum E%d { A = 0 }" % i)
        elif k == "Union":
            parts.append("#[repr(C)] pub union U%d { pub a: u8 }" % i)
        elif k == "Static":
            parts.append("pub static G%d: u32 = 0;" % i)
        elif k == "Impl":
            parts.append("impl I%d { pub fn new() -> Self { unimplemented!() } }" % i)
        elif k == "Use":
            parts.append("pub use self::u%d as v%d;" % (i, i))
        elif k == "Mod":
            parts.append("pub mod m%d { %s }" % (i, render(x["items"])))
        elif k == "FM":
            inner = []
            for y in x["items"]:
                a = FATTR[y["at"]]
                if y["k"] == "FFn":
                    inner.append("%s pub fn ff%d(a: u32) -> u32;" % (a, y["id"]))
                elif y["k"] == "FStatic":
                    inner.append("%s pub static fs%d: u32;" % (a, y["id"]))
                else:
                    raise C.ToolError("cannot render foreign item %r" % y)
            parts.append('%s %sextern "%s" { %s }' % (BATTR[x["at"]], "unsafe " if x["uns"] else "", x["abi"],
                                                     " ".join(inner)))
        else:
            raise C.ToolError("cannot render item %r" % x)
    return " ".join(parts)


class Intern:
    """Item texts -> small integers (identity of an item of real bindings = its text)."""

    def __init__(self):
        self.ids, self.strs = {}, {}

    def id(self, s):
        if s not in self.ids:
            self.ids[s] = len(self.ids) + 1
        return self.ids[s]

    def name(self, s):
        if s not in self.strs:
            self.strs[s] = "a%d" % (len(self.strs) + 1) if s else ""
        return self.strs[s]


def tree_of_inventory(inv, ident):
    """Flat pre-order syn inventory (bvdrive inventory.rs) -> nested abstract tree.
    ident(entry) -> (id, at)."""
    root = []
    stack = [("", root)]           # (module path, item list)
    items = inv.get("items", [])
    i = 0
    while i < len(items):
        e = items[i]
        i += 1
        while stack[-1][0] != e.get("mod", "") and len(stack) > 1:
            stack.pop()
        if stack[-1][0] != e.get("mod", ""):
            raise C.ToolError("inventory is not in pre-order at %r" % (e.get("name"),))
        cur = stack[-1][1]
        k = KIND.get(e["kind"])
        if k is None:
            raise C.ToolError("unknown inventory kind %r" % e["kind"])
        if k == "Other":       # the inventory does not name every syn item kind
            t = e.get("tokens", "")
            if re.match(r"(pub(\s*\([^)]*\))?\s+)?(unsafe\s+)?(auto\s+)?trait\s", t):
                k = "Trait"
            elif re.match(r"(pub(\s*\([^)]*\))?\s+)?extern\s+crate\s", t):
                k = "ExternCrate"
        ident_id, at = ident(e)
        if k == "Mod":
            it = item("Mod", ident_id)
            cur.append(it)
            p = e["name"] if not e.get("mod") else e["mod"] + "::" + e["name"]
            stack.append((p, it["items"]))
        elif k == "FM":
            it = item("FM", 0, abi=e.get("abi", ""), at=at, uns=e.get("unsafety", False))
            for _ in range(e.get("n", 0)):
                f = items[i]
                i += 1
                fid, fat = ident(f)
                it["items"].append(item(KIND.get(f["kind"], "FOther"), fid, at=fat))
            cur.append(it)
        else:
            cur.append(item(k, ident_id))
    return root


def ident_by_name(e):
    """R: ids are in the names the renderer gave; attribute classes are de-rendered."""
    attrs = nows("".join(e.get("attrs", [])))
    if e["kind"] == "foreign_mod":
        return 0, BATTR_BACK.get(attrs, attrs)
    m = re.search(r"(\d+)", e.get("name", ""))
    if not m:
        raise C.ToolError("rendered item without id: %r" % e)
    if e["kind"] in ("foreign_fn", "foreign_static"):
        return int(m.group(1)), FATTR_BACK.get(attrs, attrs)
    return int(m.group(1)), ""


def ident_by_text(tab):
    """T: an item of real bindings is identified by its token text."""
    def f(e):
        if e["kind"] == "mod":
            return tab.id("mod|%s|%s" % (e["name"], " ".join(e.get("attrs", [])))), ""
        if e["kind"] == "foreign_mod":
            return 0, tab.name(" ".join(e.get("attrs", [])))
        if e["kind"].startswith("foreign_"):
            return tab.id("f|" + e.get("tokens", "")), tab.name(" ".join(e.get("attrs", [])))
        return tab.id(e["kind"] + "|" + e.get("tokens", "")), ""
    return f


def count_nodes(tree):
    return sum(1 + count_nodes(x["items"]) for x in tree)


# ---------------------------------------------------------------------------
# the real passes
# ---------------------------------------------------------------------------

def real_passes(jobs, name):
    """jobs: dicts {id, src|file, merge, sort, rounds, text}; -> {id: result} through the real passes."""
    d = C.workdir("c18-pp-" + name)
    jf = os.path.join(d, "jobs.ndjson")
    with open(jf, "w") as f:
        for j in jobs:
            f.write(json.dumps(j) + "\n")
    try:
        p = subprocess.run([C.BVDRIVE, "postprocess", jf], stdout=subprocess.PIPE, stderr=subprocess.PIPE,
                           text=True, timeout=3000)
    except subprocess.TimeoutExpired:
        raise C.ToolError("bvdrive postprocess timed out")
    res = {}
    for line in p.stdout.splitlines():
        try:
            r = json.loads(line)
            res[r["id"]] = r
        except Exception:
            pass
    if p.returncode == 2:
        raise C.ToolError("bvdrive postprocess: " + p.stderr[-500:])
    for j in jobs:   # the driver died (abort / stack overflow in the code under test): data
        res.setdefault(j["id"], {"id": j["id"], "outcome": "crash:%d" % p.returncode, "msg": p.stderr[-800:],
                                 "rounds": []})
    os.remove(jf)
    return res


# ---------------------------------------------------------------------------
# TLC as the judge of observations
# ---------------------------------------------------------------------------

class Spill:
    """Records for Trace_Postprocess, spilled to chunk files as they are produced."""

    def __init__(self, name, chunk):
        self.dir = C.workdir("c18-trace-" + name)
        self.chunk, self.n, self.paths, self.f = chunk, 0, [], None

    def add(self, rec):
        if self.f is None or self.n % self.chunk == 0:
            if self.f:
                self.f.close()
            self.paths.append(os.path.join(self.dir, "trace%d.ndjson" % len(self.paths)))
            self.f = open(self.paths[-1], "w")
        self.f.write(json.dumps(rec) + "\n")
        self.n += 1

    def close(self):
        if self.f:
            self.f.close()
            self.f = None
        return self.paths


def validate_paths(paths, name, par=4):
    """Trace_Postprocess over trace files; -> (violations, drift, counts, tlc states, tlc transitions)."""
    def one(ix):
        r = C.tlc(os.path.join(BACK, "Trace_Postprocess.tla"), cfg="Trace_Postprocess.cfg", env={"TRACE": paths[ix]},
                  workers=1, dfs=True, timeout=3000, xmx="4g", name="c18-tv-%s-%d" % (name, ix))
        os.remove(paths[ix])
        if not C.tlc_ok(r):
            rej = C.tlc_prints(r["out"], "REJECTED")
            raise C.ToolError("trace validation did not complete (%s/%d): %s" % (name, ix, rej or r["out"][-1500:]))
        v = C.tlc_prints(r["out"], "VIOL")
        dr = C.tlc_prints(r["out"], "DRIFT")
        cn = C.tlc_prints(r["out"], "COUNTS")
        if not v or not dr or not cn:
            raise C.ToolError("trace validation printed no report (%s/%d)" % (name, ix))
        return v[0] or [], dr[0] or [], cn[0], r["distinct"], r["generated"]

    viol, drift, counts, st, tr = [], [], {"cases": 0, "runs": 0}, 0, 0
    if not paths:
        return viol, drift, counts, st, tr
    with cf.ThreadPoolExecutor(max_workers=par) as ex:
        for v, dr, cn, s, t in ex.map(one, range(len(paths))):
            viol += list(v)
            drift += list(dr)
            counts["cases"] += cn.get("cases", 0)
            counts["runs"] += cn.get("runs", 0)
            st += s
            tr += t
    return viol, drift, counts, st, tr


def validate(records, name, chunk=400, par=4):
    sp = Spill(name, chunk)
    for r in records:
        sp.add(r)
    return validate_paths(sp.close(), name, par)


def report(res, viol, drift, origin, describe):
    for v in viol:
        case = v.get("case")
        key = "%s:%s:%s" % (v.get("kind"), origin, CNAME.get((v.get("m"), v.get("s")), "?"))
        d = dict(v)
        d.update(describe(case))
        res.violation(key + ":" + str(describe(case).get("shape", case))[:80], d)
    seen = set()
    for d in drift:
        k = (origin, CNAME.get((d.get("m"), d.get("s"))))
        if k not in seen:
            seen.add(k)
            res.drift.append("%s: result of the real passes (%s) differs from the L2 machine's exact sequence, "
                             "e.g. case %s" % (origin, k[1], d.get("case")))


# ---------------------------------------------------------------------------
# model
# ---------------------------------------------------------------------------

def run_cfgs(names, workers, par, timeout):
    def one(n):
        return n, C.tlc(MC, cfg="MC_Postprocess_%s.cfg" % n if not n.startswith("Gen_") else n + ".cfg",
                        workers=workers, timeout=timeout, name="c18-" + n)
    with cf.ThreadPoolExecutor(max_workers=par) as ex:
        return list(ex.map(one, names))


def replay_cex(cex, tag):
    """A model-level counterexample on the real passes: -> (record for validate, real output tree)."""
    inp = norm(cex["inp"])
    m, s = bool(cex["m"]), bool(cex["s"])
    r = real_passes([{"id": "cex", "src": render(inp), "merge": m, "sort": s, "rounds": 2},
                     {"id": "in", "src": render(inp), "merge": False, "sort": False}], "cex-" + tag)
    if r["cex"]["outcome"] != "ok" or r["in"]["outcome"] != "ok":
        raise C.ToolError("counterexample of %s does not run: %s" % (tag, r["cex"]))
    a = tree_of_inventory(r["in"]["rounds"][0]["inv"], ident_by_name)
    if a != inp:
        raise C.ToolError("renderer / abstraction do not round-trip on %s" % tag)
    b = tree_of_inventory(r["cex"]["rounds"][0]["inv"], ident_by_name)
    c = tree_of_inventory(r["cex"]["rounds"][1]["inv"], ident_by_name)
    return {"case": tag, "a": a, "runs": [{"m": m, "s": s, "b": b, "c": c}]}, b


def model(res, tier):
    st = tr = 0
    for n, r in run_cfgs(MODEL[tier], workers=8, par=2, timeout=2400):
        if not C.tlc_ok(r):
            # the spec is fixed: a failure here is a defect of the model, not of the code
            raise C.ToolError("model %s failed: %s" % (n, r["out"][-1500:]))
        st += r["distinct"]
        tr += r["generated"]
        res.cov.setdefault("model_states_per_config", {})[n] = r["distinct"]
    res.add(states=st, transitions=tr, model_configs=len(MODEL[tier]))

    # mechanisms removed => TLC must find the counterexample; each counterexample is then replayed
    # on the real passes, which must NOT show the mutant's behaviour
    recs = []
    names = sorted(SENSITIVITY) + [LATENT_CFG]
    for n, r in run_cfgs(names, workers=2, par=6, timeout=600):
        want = SENSITIVITY.get(n, "InvMergeKey")
        if "Invariant %s is violated" % want not in r["out"]:
            raise C.ToolError("sensitivity config %s did not fail on %s: %s" % (n, want, r["out"][-800:]))
        cex = C.tlc_prints(r["out"], "CEX")
        if not cex:
            raise C.ToolError("sensitivity config %s printed no counterexample" % n)
        rec, real_out = replay_cex(cex[0], n)
        if n == LATENT_CFG:
            latent_rec, latent_cex, latent_real = rec, cex[0], real_out
        else:
            if real_out == norm(cex[0]["out"]):   # judged below by the L1 predicates, like any observation
                res.notes.append("the real passes behave like the mutant %s on its counterexample" % n)
            recs.append(rec)
    viol, drift, counts, s2, t2 = validate(recs + [latent_rec], "sens")
    lat = [v for v in viol if v.get("case") == LATENT_CFG]
    report(res, [v for v in viol if v.get("case") != LATENT_CFG],
           [d for d in drift if d.get("case") != LATENT_CFG], "sensitivity-cex", lambda c: {"shape": c})
    res.add(sensitivity_configs_failing_as_expected=len(SENSITIVITY), traces_validated_against_impl=2 * counts["runs"],
            states=s2, transitions=t2)

    # latent: mixed unsafety (not produced by one generation) - what the real code does with it
    same = latent_real == norm(latent_cex["out"])
    kinds = sorted(set(x.get("kind") for x in lat))
    res.notes.append(
        "LATENT (inputs outside the UniformUnsafety assumption; bindgen emits one unsafety per generation): "
        "merge_extern_blocks keys on (attrs, abi) only; on `%s` the real pass %s the model's counterexample and "
        "yields `%s` - predicates failing on the real output: %s" %
        (render(norm(latent_cex["inp"])), "reproduces" if same else "does NOT reproduce",
         render(latent_real), kinds or "none"))
    res.add(latent_counterexamples_replayed=1)
    if not same:
        res.drift.append("mixed-unsafety counterexample of the model is not reproduced by the real merge pass")


# ---------------------------------------------------------------------------
# R: spec -> impl
# ---------------------------------------------------------------------------

SEQ_LINE = re.compile(r'<<"SEQ", "(.*)">>\s*$')


def seq_stream(out):
    """The SEQ records of a generator run, decoded lazily (there are many)."""
    for line in out.splitlines():
        m = SEQ_LINE.match(line.strip())
        if m:
            yield json.loads(m.group(1).replace('\\"', '"').replace("\\\\", "\\"))


def binding_r(res, tier):
    nchunk = 900 if tier == "quick" else 5000
    sp = Spill("r", nchunk)
    srcs, total = {}, 0
    for n, r in run_cfgs(GEN[tier], workers=4, par=2, timeout=1500):
        if not C.tlc_ok(r):
            raise C.ToolError("generator %s failed: %s" % (n, r["out"][-1500:]))
        res.add(states=r["distinct"], transitions=r["generated"])
        exact_diff = nseq = 0
        stream = seq_stream(r["out"])
        sample = None
        while True:
            batch = []
            for s in stream:
                batch.append(s)
                if len(batch) >= 4000:
                    break
            if not batch:
                break
            jobs, meta = [], []
            for i, s in enumerate(batch):
                inp = norm(s["inp"])
                src = render(inp)
                meta.append((inp, [norm(p) for p in s["out"]], src))
                for ci, (m, so) in enumerate(COMBOS):
                    jobs.append({"id": "%d@%d" % (i, ci), "src": src, "merge": m, "sort": so, "rounds": 2})
            out = real_passes(jobs, "r-" + n)
            for i, (inp, pred, src) in enumerate(meta):
                runs = []
                for ci, (m, so) in enumerate(COMBOS):
                    o = out["%d@%d" % (i, ci)]
                    if o["outcome"] != "ok":
                        res.violation("pass-crash:R:%s:%s" % (CNAME[(m, so)], o["outcome"]),
                                      {"src": src, "merge": m, "sort": so, "msg": o["msg"][:600]})
                        continue
                    b = tree_of_inventory(o["rounds"][0]["inv"], ident_by_name)
                    c = tree_of_inventory(o["rounds"][1]["inv"], ident_by_name)
                    if ci == 0 and b != inp:
                        raise C.ToolError("renderer / abstraction do not round-trip: %s" % src)
                    runs.append({"m": m, "s": so, "b": b, "c": c})
                    if b != pred[ci]:      # shape predicate: the exact sequence the L2 machine predicts
                        exact_diff += 1
                        if exact_diff <= 3:
                            res.drift.append("R %s/%s: real passes give `%s`, spec predicts `%s`" %
                                             (n, CNAME[(m, so)], render(b)[:300], render(pred[ci])[:300]))
                case = "%s#%d" % (n, nseq + i)
                sp.add({"case": case, "a": inp, "runs": runs})
                srcs[case] = src
            if sample is None:
                mid = meta[len(meta) // 2]
                sample = {"binding": "R", "generator": n, "source": mid[2][:400],
                          "predicted_both": render(mid[1][3])[:400]}
            nseq += len(batch)
        if nseq == 0:
            raise C.ToolError("generator %s printed nothing usable" % n)
        del r
        total += nseq
        res.add(replay_sequences=nseq, replay_exact_mismatches=exact_diff)
        res.sample_case(sample)
    viol, drift, counts, st, tr = validate_paths(sp.close(), "r", par=6)
    report(res, viol, drift, "R", lambda c: {"src": srcs.get(c, ""), "shape": nows(srcs.get(c, ""))[:70]})
    # every validated run = the real passes executed on the input and again on their own output
    res.add(traces_validated_against_impl=2 * counts["runs"], states=st, transitions=tr)
    return total


# ---------------------------------------------------------------------------
# T: impl -> spec
# ---------------------------------------------------------------------------

def gen_header(rnd, cxx, n):
    """A header with many interleaved functions / statics / types (/ namespaces)."""
    out, types, k = [], ["int", "unsigned char", "double"], [0]

    def nid():
        k[0] += 1
        return k[0]

    def fn(ind):
        i = nid()
        attrs = []
        r = rnd.random()
        if r < 0.2:
            attrs.append("__attribute__((ms_abi))")
        elif r < 0.3:
            attrs.append("__attribute__((sysv_abi))")
        if rnd.random() < 0.25:
            attrs.append("__attribute__((warn_unused_result))")
        doc = "/** doc of f%d */\n%s" % (i, ind) if rnd.random() < 0.3 else ""
        ret = rnd.choice(types + (["void"] if "warn_unused_result" not in " ".join(attrs) else []))
        args = ", ".join("%s a%d" % (rnd.choice(types), j) for j in range(rnd.randint(0, 3))) or "void"
        if args != "void" and rnd.random() < 0.15:
            args += ", ..."
        asm = ' __asm__("sym_f%d")' % i if rnd.random() < 0.15 else ""
        return "%s%s %s f%d(%s)%s;" % (doc, " ".join(attrs), ret, i, args, asm)

    def decl(ind, depth):
        r = rnd.random()
        i = None
        if r < 0.38:
            return fn(ind)
        i = nid()
        if r < 0.55:
            q = rnd.choice(["", "const "])
            asm = ' __asm__("sym_g%d")' % i if rnd.random() < 0.15 else ""
            return "extern %s%s g%d%s;" % (q, rnd.choice(types), i, asm)
        if r < 0.65:
            types.append("struct S%d" % i)
            return "%sstruct S%d { int a; %s b; };" % ("/** doc of S%d */\n%s" % (i, ind) if rnd.random() < 0.3 else "",
                                                        i, rnd.choice(types[:3]))
        if r < 0.72:
            types.append("T%d" % i)
            return "typedef %s T%d;" % (rnd.choice(types[:3]), i)
        if r < 0.78:
            return "enum E%d { E%d_A, E%d_B = %d };" % (i, i, i, i)
        if r < 0.83:
            return "union U%d { int a; float f; };" % i
        if r < 0.90:
            return "static const int K%d = %d;" % (i, i) if cxx or rnd.random() < 0.5 else "#define C%d %d" % (i, i)
        if cxx and depth < 3:
            mark = len(types)
            body = "\n".join(ind + "  " + decl(ind + "  ", depth + 1) for _ in range(rnd.randint(1, 6)))
            del types[mark:]     # not visible outside of the namespace without qualification
            # namespaces are re-opened now and then
            name = "n%d" % (i if rnd.random() < 0.7 else max(1, i - rnd.randint(1, 9)))
            return "namespace %s {\n%s\n%s}" % (name, body, ind)
        if cxx:
            types.append("Cl%d" % i)
            return ("class Cl%d { public: int x; int m%d(int a); static int sm%d(); Cl%d(); };" % (i, i, i, i))
        return fn(ind)

    for _ in range(n):
        out.append(decl("", 0))
    return "\n".join(out) + "\n"


OPTION_SETS = [
    ("default", []),
    ("rt181", ["--rust-target", "1.81"]),
    ("wasm", ["--wasm-import-module-name", "wmod", "--enable-function-attribute-detection"]),
    ("abi", ["--override-abi", "f[0-9]*[02468]=system", "--override-abi", "f[0-9]*[17]=C-unwind"]),
    ("abi181wasm", ["--rust-target", "1.81", "--override-abi", "f[0-9]*[369]=system", "--wasm-import-module-name", "w2",
                    "--enable-function-attribute-detection"]),
]


def generated_cases(tier):
    rnd = random.Random("c18:%d" % C.seed())
    d = C.workdir("c18-headers")
    nh = 14 if tier == "quick" else 90
    cases = []
    for h in range(nh):
        cxx = h % 2 == 1
        n = rnd.choice([12, 25, 40]) if tier == "quick" else rnd.choice([10, 25, 40, 80, 160])
        path = os.path.join(d, "g%03d.%s" % (h, "hpp" if cxx else "h"))
        with open(path, "w") as f:
            f.write(gen_header(rnd, cxx, n))
        sets = OPTION_SETS if tier == "thorough" else [OPTION_SETS[h % len(OPTION_SETS)],
                                                       OPTION_SETS[(h + 1 + h // 5) % len(OPTION_SETS)]]
        for name, opts in sets:
            args = ["bindgen", "--formatter=none", "--disable-header-comment", path] + opts
            if cxx:
                ns = ["--enable-cxx-namespaces"] if (h // 2 + len(name)) % 3 != 0 else []
                args += ns + ["--", "-x", "c++", "-std=c++14"]
                name += "+ns" if ns else ""
            cases.append({"id": "g%03d-%s" % (h, name), "header": path, "args": args, "callbacks": None,
                          "generated": True, "cwd": C.TESTS_CWD})
    return cases


PASS_FLAGS = {"--merge-extern-blocks", "--sort-semantically"}


def base_args(args):
    """Strip the pass flags and top-level raw lines (they are written outside the item stream)."""
    out, i = [], 0
    while i < len(args):
        a = args[i]
        if a in PASS_FLAGS:
            i += 1
        elif a == "--raw-line":
            i += 2
        elif a.startswith("--raw-line="):
            i += 1
        else:
            out.append(a)
            i += 1
    return out


def rustc_ok(path, outdir):
    p = subprocess.run(["rustc", "--crate-type", "lib", "--edition", "2021", "-A", "warnings", "--emit=metadata",
                        "--crate-name", "c18", "--out-dir", outdir, path],
                       stdout=subprocess.PIPE, stderr=subprocess.STDOUT, text=True)
    if p.returncode != 0 and "error" not in p.stdout:
        raise C.ToolError("rustc not runnable: " + p.stdout[-400:])
    return p.returncode == 0, p.stdout[-1500:]


LATENT_CASE = "latent-module-raw-line-mixed-unsafety"


def latent_case():
    """Mixed unsafety is reachable only through user-written module raw lines: a plain `extern "C"` block given
    by the user next to bindgen's `unsafe extern "C"` blocks (default rust target).  Recorded, not judged."""
    d = C.workdir("c18-latent")
    path = os.path.join(d, "latent.h")
    with open(path, "w") as f:
        f.write("int f1(int);\nextern int g2;\nint f3(void);\n")
    return {"id": LATENT_CASE, "header": path, "callbacks": None, "generated": True, "latent": True,
            "args": ["bindgen", "--formatter=none", "--disable-header-comment", path, "--enable-cxx-namespaces",
                     "--module-raw-line", "root", 'extern "C" { pub fn user_fn(); }']}


def binding_t(res, tier, tamper=None):
    allc = C.corpus_cases()
    corpus = C.sample(allc, None if tier == "thorough" else 150, "c18-t")
    # the headers written for these passes / ABIs / block attributes are always in
    always = [c for c in allc if any(a in PASS_FLAGS or a in ("--override-abi", "--wasm-import-module-name")
                                     for a in c["args"]) and c not in corpus]
    corpus += always
    cases = corpus + generated_cases(tier) + [latent_case()]
    d = C.workdir("c18-t")
    jobs = []
    for c in cases:
        b = base_args(c["args"])
        for cb in COMBOS:
            jid = "%s@%s" % (c["id"], CNAME[cb])
            extra = list(CFLAGS[cb])
            if "--clang-macro-fallback" in b and "--clang-macro-fallback-build-dir" not in b:
                # the fallback writes `.macro_eval.c` / a .pch with fixed names into the build directory
                # (default: cwd): concurrent generations would race on them (not this property)
                fb = os.path.join(d, "fallback-" + jid)
                os.makedirs(fb, exist_ok=True)
                extra += ["--clang-macro-fallback-build-dir", fb]
            jobs.append({"id": jid, "args": b[:2] + extra + b[2:], "callbacks": c.get("callbacks"),
                         "out": os.path.join(d, jid + ".rs")})
    out = C.run_jobs(jobs, threads=12, name="c18-t-jobs", cwd=C.TESTS_CWD)
    ok_cases = []
    skipped = 0
    for c in cases:
        o = {cb: out.get("%s@%s" % (c["id"], CNAME[cb]), {}).get("outcome") for cb in COMBOS}
        if o[(False, False)] != "ok":
            if c.get("generated"):
                raise C.ToolError("generated header rejected: %s %s" % (c["id"], out.get(c["id"] + "@none")))
            skipped += 1        # header needs something else (C12/C01 territory); all four must agree
            for cb in COMBOS[1:]:
                if o[cb] != o[(False, False)]:
                    res.notes.append("outcome differs with passes on: %s %s" % (c["id"], o))
            continue
        bad = [cb for cb in COMBOS[1:] if o[cb] != "ok"]
        for cb in bad:
            r = out.get("%s@%s" % (c["id"], CNAME[cb]), {})
            res.violation("pass-crash:T:%s:%s" % (CNAME[cb], r.get("outcome")),
                          {"case": c["id"], "args": c["args"], "msg": r.get("msg", "")[:600]})
        if not bad:
            ok_cases.append(c)

    # already processed bindings through the real passes again
    again = real_passes([{"id": "%s@%s" % (c["id"], CNAME[cb]), "file": os.path.join(d, "%s@%s.rs" % (c["id"], CNAME[cb])),
                          "merge": cb[0], "sort": cb[1]} for c in ok_cases for cb in COMBOS[1:]], "t-again")
    paths = [os.path.join(d, "%s@%s.rs" % (c["id"], CNAME[cb])) for c in ok_cases for cb in COMBOS]
    invs = C.inventory(paths)
    recs, byid, nitems = [], {}, 0
    for c in ok_cases:
        tab = Intern()
        ident = ident_by_text(tab)
        trees = {}
        for cb in COMBOS:
            inv = invs.get(os.path.join(d, "%s@%s.rs" % (c["id"], CNAME[cb])))
            if not inv or not inv.get("ok"):
                if cb == (False, False):
                    break
                res.violation("unparsable-output:T:%s" % CNAME[cb], {"case": c["id"], "err": (inv or {}).get("err")})
                continue
            trees[cb] = tree_of_inventory(inv, ident)
        if (False, False) not in trees:
            skipped += 1
            continue
        runs = []
        for cb in COMBOS[1:]:
            if cb not in trees:
                continue
            a = again["%s@%s" % (c["id"], CNAME[cb])]
            if a["outcome"] != "ok":
                res.violation("pass-crash:T-again:%s:%s" % (CNAME[cb], a["outcome"]),
                              {"case": c["id"], "args": c["args"], "msg": a["msg"][:600]})
                continue
            b = trees[cb]
            if tamper:
                b = tamper(c, cb, b)
            runs.append({"m": cb[0], "s": cb[1], "b": b, "c": tree_of_inventory(a["rounds"][0]["inv"], ident)})
        recs.append({"case": c["id"], "a": trees[(False, False)], "runs": runs})
        byid[c["id"]] = c
        nitems += count_nodes(trees[(False, False)])
    recs.sort(key=lambda r: -len(json.dumps(r["a"])))
    # interleave so that every chunk gets a share of the big cases
    nchunks = max(1, min(8, len(recs) // 20))
    chunks = [recs[i::nchunks] for i in range(nchunks)]
    viol, drift, counts, st, tr = [], [], {"cases": 0, "runs": 0}, 0, 0
    with cf.ThreadPoolExecutor(max_workers=4) as ex:
        futs = [ex.submit(validate, ch, "t%d" % i, 10 ** 9, 1) for i, ch in enumerate(chunks)]
        for f in futs:
            v, dr, cn, s, t = f.result()
            viol += v
            drift += dr
            counts["cases"] += cn["cases"]
            counts["runs"] += cn["runs"]
            st += s
            tr += t

    def describe(cid):
        c = byid.get(cid, {})
        return {"args": c.get("args"), "shape": cid}
    lat = sorted(set("%s/%s" % (v.get("kind"), CNAME.get((v.get("m"), v.get("s")))) for v in viol
                     if v.get("case") == LATENT_CASE))
    res.notes.append("LATENT reachable only with a user-written raw line: `%s` - predicates failing on the real "
                     "bindgen outputs: %s" % (" ".join(byid[LATENT_CASE]["args"][3:]) if LATENT_CASE in byid else "?",
                                              lat or "none"))
    report(res, [v for v in viol if v.get("case") != LATENT_CASE],
           [x for x in drift if x.get("case") != LATENT_CASE], "T", describe)
    # one real execution of the passes per processed output and one per re-application
    res.add(traces_validated_against_impl=2 * counts["runs"], states=st, transitions=tr,
            t_cases=counts["cases"], t_cases_corpus=sum(1 for c in byid.values() if not c.get("generated")),
            t_cases_generated=sum(1 for c in byid.values() if c.get("generated") and not c.get("latent")),
            t_cases_skipped=skipped,
            t_items_in_unprocessed_bindings=nitems, t_bindgen_runs=len(jobs))
    blocks = sum(1 for r in recs for x in r["a"] if x["k"] == "FM")
    res.add(t_top_level_extern_blocks=blocks)
    for c in [c for c in ok_cases if c.get("generated")][:2] + ok_cases[:1]:
        res.sample_case({"binding": "T", "case": c["id"], "args": c["args"][1:]})

    # "the result still compiles": generated headers (host target), all four outputs
    gen_ok = [c for c in ok_cases if c.get("generated") and not c.get("latent")]
    od = C.workdir("c18-rustc")

    def comp(c):
        r = {}
        for cb in COMBOS:
            sub = os.path.join(od, "%s-%s" % (c["id"], CNAME[cb]))
            os.makedirs(sub, exist_ok=True)
            r[cb] = rustc_ok(os.path.join(d, "%s@%s.rs" % (c["id"], CNAME[cb])), sub)
            shutil.rmtree(sub, ignore_errors=True)
        return c, r
    compiled = base_bad = 0
    with cf.ThreadPoolExecutor(max_workers=12) as ex:
        for c, r in ex.map(comp, gen_ok):
            if not r[(False, False)][0]:
                base_bad += 1       # not this property (C01): the unprocessed bindings do not compile either
                res.notes.append("unprocessed bindings of %s do not compile: %s" % (c["id"], r[(False, False)][1][-300:]))
                continue
            for cb in COMBOS[1:]:
                compiled += 1
                if not r[cb][0]:
                    res.violation("does-not-compile:%s" % CNAME[cb],
                                  {"case": c["id"], "args": c["args"], "header": open(c["header"]).read()[:3000],
                                   "rustc": r[cb][1]})
    if gen_ok and base_bad * 5 > len(gen_ok):
        raise C.ToolError("%d of %d generated headers give bindings that do not compile even unprocessed" %
                          (base_bad, len(gen_ok)))
    res.add(processed_outputs_compiled=compiled, unprocessed_outputs_not_compiling=base_bad)
    return recs


# ---------------------------------------------------------------------------
# the binding is not vacuous: tampered observations must be rejected by the judge
# ---------------------------------------------------------------------------

def selftest(res, recs):
    """Corrupt recorded observations of the real passes in the ways the property forbids and require
    Trace_Postprocess to flag each with the right predicate (a judge that accepts these is a tool error)."""
    import copy

    def fms(tree):
        return [x for x in tree if x["k"] == "FM" and x["items"]]
    cand = [r for r in recs if len(r["runs"]) == 3 and len(fms(r["runs"][0]["b"])) >= 2
            and len(set((x["abi"], x["at"]) for x in fms(r["runs"][0]["b"]))) >= 2
            and any(len(x["items"]) >= 2 for x in fms(r["runs"][0]["b"]))
            and sum(1 for x in r["a"] if x["k"] == "Struct") >= 2]
    if not cand:
        raise C.ToolError("no observation suitable for the tamper self-test")
    base = min(cand, key=lambda r: len(json.dumps(r)))
    tests = []

    def variant(name, want, fn):
        r = copy.deepcopy(base)
        r["case"] = name
        r["runs"] = r["runs"][:1] if name != "swap-structs" else r["runs"][1:2]
        fn(r["runs"][0]["b"])
        tests.append((name, want, r))

    def drop(b):
        blk = fms(b)[0]
        del blk["items"][0]

    def swap_foreign(b):
        blk = [x for x in fms(b) if len(x["items"]) >= 2][0]
        i = next((j for j in range(len(blk["items"]) - 1)
                  if blk["items"][j]["k"] == blk["items"][j + 1]["k"] and blk["items"][j]["id"] != blk["items"][j + 1]["id"]), None)
        if i is None:
            raise C.ToolError("tamper self-test: no two adjacent foreign items of one kind")
        blk["items"][i], blk["items"][i + 1] = blk["items"][i + 1], blk["items"][i]

    def swap_structs(b):
        ix = [j for j, x in enumerate(b) if x["k"] == "Struct"]
        b[ix[0]], b[ix[1]] = b[ix[1]], b[ix[0]]

    def cross_abi(b):
        blocks = fms(b)
        src = blocks[0]
        dst = [x for x in blocks if (x["abi"], x["at"]) != (src["abi"], src["at"])][0]
        dst["items"].append(src["items"].pop())

    def dup(b):
        blk = fms(b)[0]
        blk["items"].append(dict(blk["items"][0]))

    def into_module(b):
        blk = fms(b)[0]
        b.insert(0, item("Mod", 999999, [item("FM", 0, [blk["items"].pop()], blk["abi"], blk["at"], blk["uns"])]))

    variant("drop-item", "items", drop)
    variant("swap-foreign", "kindorder", swap_foreign)
    variant("swap-structs", "kindorder", swap_structs)
    variant("merge-across-abi", "mergekey", cross_abi)
    variant("duplicate-item", "items", dup)
    variant("move-into-module", "modules", into_module)
    r = copy.deepcopy(base)
    r["case"] = "not-idempotent"
    r["runs"] = r["runs"][:1]
    swap_foreign(r["runs"][0]["c"])
    tests.append(("not-idempotent", "idempotent", r))
    viol, _, _, st, tr = validate([t[2] for t in tests], "selftest")
    for name, want, _ in tests:
        got = sorted(set(v["kind"] for v in viol if v.get("case") == name))
        if want not in got:
            raise C.ToolError("tamper self-test: %s was not flagged as %s (got %s)" % (name, want, got))
    res.add(tamper_selftests_rejected=len(tests), states=st, transitions=tr)


def replay(res, path):
    """Re-run the violations of a replay file on the real code (R: `src`; T: `args`)."""
    C.build()
    with open(path) as f:
        data = json.load(f)
    recs, srcs = [], {}
    for n, v in enumerate(data.get("violations", [])):
        d = v.get("detail", {})
        if d.get("src"):
            src = d["src"]
            jobs = [{"id": "in", "src": src, "merge": False, "sort": False}]
            jobs += [{"id": "%d" % ci, "src": src, "merge": m, "sort": so, "rounds": 2}
                     for ci, (m, so) in enumerate(COMBOS)]
            out = real_passes(jobs, "replay")
            if out["in"]["outcome"] != "ok":
                raise C.ToolError("replay source does not parse: " + out["in"]["msg"])
            a = tree_of_inventory(out["in"]["rounds"][0]["inv"], ident_by_name)
            runs = []
            for ci, (m, so) in enumerate(COMBOS):
                o = out["%d" % ci]
                if o["outcome"] != "ok":
                    res.violation("pass-crash:R:%s:%s" % (CNAME[(m, so)], o["outcome"]), {"src": src, "msg": o["msg"]})
                    continue
                runs.append({"m": m, "s": so, "b": tree_of_inventory(o["rounds"][0]["inv"], ident_by_name),
                             "c": tree_of_inventory(o["rounds"][1]["inv"], ident_by_name)})
            recs.append({"case": "replay#%d" % n, "a": a, "runs": runs})
            srcs["replay#%d" % n] = src
        elif d.get("args"):
            C.log("replay of a generation case: run `%s` with and without the pass flags" % " ".join(d["args"]))
    viol, drift, _, st, tr = validate(recs, "replay")
    report(res, viol, drift, "R", lambda c: {"src": srcs.get(c, ""), "shape": nows(srcs.get(c, ""))[:70]})
    res.add(states=st, transitions=tr, traces_validated_against_impl=2 * sum(len(r["runs"]) for r in recs))


def run(res, tier):
    res.assumptions += [
        "UniformUnsafety: one generation emits extern blocks of one unsafety (rust target decides), so the merge key "
        "(attrs, abi) of the code is equivalent to the property's (abi, attrs, unsafety); the mixed case is LATENT",
        "identity of an item of real bindings = its token text (duplicates are handled as a multiset)",
        "extern blocks are grouping, not items: an empty block that disappears by merging is not a lost item",
        "same kind, for foreign items, means same kind of foreign item with the same ABI / block attributes / unsafety",
        "compilation is checked with the host rustc on generated headers only (repository headers need other targets)",
    ]
    import time
    t0 = time.time()

    def lap(what):
        C.log("c18: %-12s done at %5.0fs" % (what, time.time() - t0))
    C.build()
    lap("build")
    model(res, tier)
    lap("model")
    binding_r(res, tier)
    lap("binding R")
    recs = binding_t(res, tier)
    lap("binding T")
    selftest(res, recs)
    lap("self-test")
    res.cov["exhaustive"] = False
