"""C17 - reported dependencies are exactly the files that were read.

model : spec/front/Deps.tla (include-stack machine + bindgen's recording of inclusion directives) over
        every include DAG of depth <= 3 / fan-out <= 2 (MC_Deps_*.cfg) and spec/front/DepEscape.tla
        (dep-file writer / reader round trip over special names, environment lookup) with TLC
R     : Gen_Deps_*.cfg print every DAG with the predicted read / reported sets and cargo line counts;
        the DAGs are materialised on disk (special names in a share of them), the real CLI is run with
        --depfile, the library driver (`bvdrive deps`) with a recording ParseCallbacks + CargoCallbacks;
        the dep-file is parsed back with the reference reader, realpath-normalised and compared with the
        spec's `read`; `clang -M -MF` on the same command line cross-checks the spec (spec != clang is a
        model error => tool error).
"""
import concurrent.futures as cf
import json
import os
import random
import re
import shutil
import subprocess

import common as C

LEVEL = "model_checking"
FRONT = os.path.join(C.SPEC, "front")
MC = os.path.join(FRONT, "MC_Deps.tla")
MCE = os.path.join(FRONT, "MC_DepEscape.tla")

# The bounded universes shape3 / shape4q / search4 are model-checked by the Gen_ configs themselves (same
# invariants + the behaviour printer); the larger ones only in the thorough tier.
MODEL_QUICK = []
MODEL_THOROUGH = ["MC_Deps_shape4.cfg", "MC_Deps_search3.cfg"]
SENS_DEPS = ["MC_Deps_sens_allDirectives.cfg", "MC_Deps_sens_mainOnly.cfg", "MC_Deps_sens_noInputs.cfg",
             "MC_Deps_sens_oneLineEach.cfg", "MC_Deps_arginclude_fails.cfg"]
SENS_ESC = ["MC_DepEscape_sens_noBackslash.cfg", "MC_DepEscape_sens_spaceFirst.cfg"]

# special names (file names a build system has to survive)
SPECIAL = {"n0": "ma in.h", "n1": "sp ace.h", "n2": "back\\slash.h", "n3": "h#$:é.h", "n4": "dol$lar.h",
           "n5": "co:lon.h", "n6": "é \\ .h", "n7": "a\\ b.h",
           "main": "ma in.h", "x": "x y.h", "y": "y\\z#$.h"}
SPECIAL_DIRS = {"inc": "in c", "sys": "sy$s\\d"}


# ---------------------------------------------------------------------------
# model
# ---------------------------------------------------------------------------

def model(res, tier):
    st = tr = 0
    cfgs = MODEL_THOROUGH if tier == "thorough" else MODEL_QUICK
    for cfg in cfgs:
        r = C.tlc(MC, cfg=cfg, workers=10, timeout=1500, name="c17-" + cfg)
        if not C.tlc_ok(r):
            raise C.ToolError("model %s failed: %s" % (cfg, r["out"][-1500:]))
        st += r["distinct"]
        tr += r["generated"]
    r = C.tlc(MCE, cfg="MC_DepEscape.cfg", workers=4, timeout=600, name="c17-escape")
    if not C.tlc_ok(r):
        raise C.ToolError("model MC_DepEscape failed: %s" % r["out"][-1500:])
    st += r["distinct"]
    tr += r["generated"]
    envtab = C.tlc_prints(r["out"], "ENV")
    res.add(states=st, transitions=tr, model_configs=len(cfgs) + 1, escape_cases_checked=r["distinct"] - 1)
    for cfg in SENS_DEPS:
        r = C.tlc(MC, cfg=cfg, workers=2, timeout=300, name="c17-" + cfg)
        if "is violated" not in r["out"]:
            raise C.ToolError("sensitivity config %s did not fail" % cfg)
    for cfg in SENS_ESC:
        r = C.tlc(MCE, cfg=cfg, workers=2, timeout=300, name="c17-" + cfg)
        if "is violated" not in r["out"]:
            raise C.ToolError("sensitivity config %s did not fail" % cfg)
    r = C.tlc(MCE, cfg="MC_DepEscape_diag_gnumake.cfg", workers=2, timeout=300, name="c17-gnumake")
    res.notes.append("diagnostic: under GNU make's own quoting rules the line does %sround-trip for names with "
                     "'#', '$' or backslashes (MC_DepEscape_diag_gnumake: %s)" %
                     ("NOT " if "is violated" in r["out"] else "", "counterexample found" if "is violated" in r["out"] else "no counterexample"))
    res.add(sensitivity_configs_failing_as_expected=len(SENS_DEPS) + len(SENS_ESC))
    if not envtab:
        raise C.ToolError("MC_DepEscape did not print the environment table")
    return envtab[0]


def gen(cfg, simulate=None):
    extra = ("-seed", str(C.seed() + 17)) if simulate else ()
    r = C.tlc(MC, cfg=cfg, workers=8, timeout=1500, name="c17-" + cfg, simulate=simulate,
              depth=400 if simulate else None, extra=extra)
    dags = C.tlc_prints(r["out"], "DAG")
    if "is violated" in r["out"] or not dags or (not simulate and not C.tlc_ok(r)):
        raise C.ToolError("generator/model %s failed: %s" % (cfg, r["out"][-1200:]))
    if simulate:
        m = re.search(r"The number of states generated: (\d+)", r["out"])
        r["generated"] = r["distinct"] = int(m.group(1)) if m else 0
        seen, uniq = set(), []
        for d in dags:
            k = json.dumps(d, sort_keys=True)
            if k not in seen:
                seen.add(k)
                uniq.append(d)
        dags = uniq
    return dags, r


# ---------------------------------------------------------------------------
# dep-file readers (mirrors of DepEscape.tla)
# ---------------------------------------------------------------------------

def read_depfile(text):
    """Reference reader: target up to the first ':', `\\ ` -> space, `\\\\` -> backslash."""
    i, n, cur = 0, len(text), []
    while i < n:
        c = text[i]
        if c == "\\" and i + 1 < n and text[i + 1] in " \\":
            cur.append(text[i + 1])
            i += 2
        elif c == ":":
            i += 1
            break
        else:
            cur.append(c)
            i += 1
    target = "".join(cur)
    deps, cur = [], []
    while i < n:
        c = text[i]
        if c == "\\" and i + 1 < n and text[i + 1] in " \\":
            cur.append(text[i + 1])
            i += 2
        elif c in " \n":
            if cur:
                deps.append("".join(cur))
            cur = []
            i += 1
        else:
            cur.append(c)
            i += 1
    if cur:
        deps.append("".join(cur))
    return target, deps


def gnu_read_deps(text):
    """GNU make's reading of the prerequisite part (diagnostic)."""
    i = text.find(":") + 1
    n, deps, cur = len(text), [], []
    while i < n:
        c = text[i]
        if c == "\\":
            j = i
            while j < n and text[j] == "\\":
                j += 1
            k = j - i
            if j < n and text[j] in " #":
                cur.append("\\" * (k // 2))
                if k % 2:
                    cur.append(text[j])
                    j += 1
            else:
                cur.append("\\" * k)
            i = j
        elif c == "#":
            break
        elif c == "$":
            if i + 1 < n and text[i + 1] == "$":
                cur.append("$")
            i += 2
        elif c in " \n":
            if cur and "".join(cur):
                deps.append("".join(cur))
            cur = []
            i += 1
        else:
            cur.append(c)
            i += 1
    if cur and "".join(cur):
        deps.append("".join(cur))
    return deps


def read_clang_depfile(text):
    """clang -M output: continuation lines, `\\ ` space, `\\#`, `$$`."""
    text = text.replace("\\\n", " ")
    i = text.find(": ")
    body = text[i + 1:] if i >= 0 else ""
    out, cur, k = [], [], 0
    while k < len(body):
        c = body[k]
        if c == "\\" and k + 1 < len(body) and body[k + 1] in " #":
            cur.append(body[k + 1])
            k += 2
        elif c == "$" and k + 1 < len(body) and body[k + 1] == "$":
            cur.append("$")
            k += 2
        elif c in " \n":
            if cur:
                out.append("".join(cur))
            cur = []
            k += 1
        else:
            cur.append(c)
            k += 1
    if cur:
        out.append("".join(cur))
    return out


# ---------------------------------------------------------------------------
# materialisation
# ---------------------------------------------------------------------------

def make_case(dag, cid, base, special, rnd, virtual_root=False):
    n = len(dag["L"]["dir"])
    d = os.path.join(base, cid)
    os.makedirs(d, exist_ok=True)
    dirname = {"cur": "", "inc": SPECIAL_DIRS["inc"] if special else "inc",
               "sys": SPECIAL_DIRS["sys"] if special else "sys"}
    alpha = {}
    if special == "alpha":
        # names over the alphabet of MC_DepEscape (Alpha7, E = a non-ASCII letter) without the backslash
        # (`clang -M`, the oracle for the model, rewrites some backslashes; the fixed SPECIAL names cover
        # them): runs of spaces, leading blanks, '#', '$', ':' in any position
        used = set()

        def draw():
            while True:
                k = rnd.randint(2, 5)
                w = "".join(rnd.choice(["a", " ", " ", "#", "$", ":", "\u00e9"]) for _ in range(k))
                if w not in used and w.strip(" ") and w not in (".", ".."):
                    used.add(w)
                    return w
        dirname["inc"], dirname["sys"] = draw(), draw()
        # (the target ends at the first ':' in the dep-info grammar; the property promises escaping of
        # spaces and backslashes only, and MC_DepEscape quantifies targets over NoColon)
        alpha["out"] = draw().replace(":", "a") + ".rs"

    def fname(name):
        if special == "alpha":
            if name not in alpha:
                alpha[name] = draw() + ".h"
            return alpha[name]
        return SPECIAL[name] if special else name + ".h"

    rel, text = {}, {}
    for f in range(n):
        dd = dirname[dag["L"]["dir"][str(f)]]
        rel[f] = os.path.join(dd, fname(dag["L"]["name"][str(f)])) if dd else fname(dag["L"]["name"][str(f)])
    features = set()
    for f in range(n):
        c = dag["content"][str(f)]
        lines = []
        if c["guard"] == "unset":
            lines.append("extern int unread_%d;" % f)
        else:
            if c["guard"] == "once":
                lines.append("#pragma once")
            elif c["guard"] == "guard":
                lines += ["#ifndef GUARD_%d" % f, "#define GUARD_%d" % f]
            lines.append("extern int v_%d;" % f)
            for k, dv in enumerate(c["dirs"]):
                nm = fname(dv["name"])
                spelled = '"%s"' % nm if dv["form"] == "q" else "<%s>" % nm
                if dv["active"]:
                    # (a macro-expanded <...> is re-spelled token by token: runs of blanks would not survive)
                    style = rnd.choice(["plain", "plain", "if1", "hasinc"] if special == "alpha" else
                                       ["plain", "plain", "if1", "macro", "hasinc"])
                    if style == "plain":
                        lines.append("#include %s" % spelled)
                    elif style == "if1":
                        lines += ["#if 1", "#  include %s" % spelled, "#else", "#endif"]
                    elif style == "macro":
                        lines += ["#undef VERIF_H", "#define VERIF_H %s" % spelled, "#include VERIF_H"]
                    else:
                        lines += ["#if __has_include(%s)" % spelled, "#include %s" % spelled, "#endif"]
                    features.add("active-" + style)
                else:
                    style = rnd.choice(["if0", "ifdef", "else", "elif"])
                    if style == "if0":
                        lines += ["#if 0", "#include %s" % spelled, "#endif"]
                    elif style == "ifdef":
                        lines += ["#ifdef VERIF_NEVER_DEFINED", "#include %s" % spelled, "#endif"]
                    elif style == "else":
                        lines += ["#if 1", "#else", "#include %s" % spelled, "#endif"]
                    else:
                        lines += ["#if 1", "#elif 1", "#include %s" % spelled, "#endif"]
                    features.add("dead-" + style)
            if c["guard"] == "guard":
                lines.append("#endif")
            features.add("guard-" + c["guard"])
        text[f] = "\n".join(lines) + "\n"
        p = os.path.join(d, rel[f])
        os.makedirs(os.path.dirname(p), exist_ok=True)
        with open(p, "w") as fh:
            fh.write(text[f])
    clang_args = []
    dirs_used = set(dag["L"]["dir"].values())
    if "inc" in dirs_used or "sys" in dirs_used:
        clang_args += ["-I" + dirname["inc"], "-isystem", dirname["sys"]]
        for x in ("inc", "sys"):
            os.makedirs(os.path.join(d, dirname[x]), exist_ok=True)
    pre = dag.get("pre", [])
    for f in pre:
        # a forced include in the -I directory is named the way a build system names it: resolved through the path
        if dag["L"]["dir"][str(f)] == "inc" and not special:
            clang_args += ["-include", os.path.basename(rel[f])]
        else:
            clang_args += ["-include", rel[f]]
    if len(dag["roots"]) > 1:
        features.add("two-inputs")
    if pre:
        features.add("clang-arg-include")
    if any(v > 1 for v in dag["lines"].values()):
        features.add("repeated-inclusion")
    return {"id": cid, "dir": d, "rel": rel, "text": text, "dag": dag, "special": special,
            "clang_args": clang_args, "roots": dag["roots"], "pre": pre,
            "out": alpha.get("out") or ("o ut.rs" if special else "out.rs"), "features": features,
            "virtual_root": virtual_root}


def norm(case, p):
    return os.path.realpath(os.path.join(case["dir"], p))


def role(case, f, extra):
    dag = case["dag"]
    if f is None:
        return "unknown-path"
    if f in case["roots"]:
        return "input"
    if f in case["pre"]:
        return "clang-arg-include"
    n = len(case["rel"])
    nm = dag["L"]["name"][str(f)]
    if extra:
        for g in range(n):
            for dv in dag["content"][str(g)]["dirs"]:
                if dv["name"] == nm and not dv["active"]:
                    return "dead-directive-target"
        if any(dag["L"]["name"][str(g)] == nm for g in dag["read"]):
            return "shadowed-name"
        return "unrelated"
    direct = any(dv["name"] == nm and dv["active"] for g in case["roots"]
                 for dv in dag["content"][str(g)]["dirs"])
    return "included-by-input" if direct else "included-transitively"


# ---------------------------------------------------------------------------
# running
# ---------------------------------------------------------------------------

def run_cli(case):
    """CLI with --depfile (single input header only: the CLI takes one)."""
    if len(case["roots"]) != 1:
        return None
    root = case["rel"][case["roots"][0]]
    # which kinds of items are generated has nothing to do with which files were read
    kinds = [[], ["--generate", "functions,types"], ["--ignore-functions"], ["--generate", "types"]][sum(map(ord, case["id"])) % 4]
    args = [C.BINDGEN, "--formatter=none", root, "-o", case["out"], "--depfile", "cli.d"] + kinds + ["--"] + case["clang_args"]
    env = dict(os.environ)
    for k in ("TARGET", "BINDGEN_EXTRA_CLANG_ARGS", "BINDGEN_VERIF_DETAIL"):
        env.pop(k, None)
    env["BINDGEN_VERIF_LOG"] = os.path.join(case["dir"], "cli.ndjson")      # hook log (gen_begin, dep, ...)
    try:
        p = subprocess.run(args, cwd=case["dir"], stdout=subprocess.PIPE, stderr=subprocess.PIPE, text=True,
                           timeout=120, env=env)
    except subprocess.TimeoutExpired:
        return {"rc": "timeout", "stderr": "", "depfile": None}
    dp = os.path.join(case["dir"], "cli.d")
    return {"rc": p.returncode, "stderr": p.stderr[-800:],
            "depfile": open(dp).read() if os.path.exists(dp) else None}


def run_clang(case):
    """Environment oracle: the files clang reads for the same command line."""
    root = case["rel"][case["roots"][-1]]
    args = ["clang", "-M", "-MF", "clang.d"] + case["clang_args"]
    for f in case["roots"][:-1]:
        args += ["-include", case["rel"][f]]
    args.append(root)
    p = subprocess.run(args, cwd=case["dir"], stdout=subprocess.PIPE, stderr=subprocess.PIPE, text=True, timeout=120)
    dp = os.path.join(case["dir"], "clang.d")
    if p.returncode != 0 or not os.path.exists(dp):
        raise C.ToolError("clang -M rejected a generated include DAG (%s): %s" % (case["id"], p.stderr[-600:]))
    return set(os.path.normpath(x) for x in read_clang_depfile(open(dp).read()))


def lib_job(case):
    job = {"id": case["id"], "cwd": case["dir"], "cargo": True, "log": os.path.join(case["dir"], "lib.ndjson"),
           "env": {"TARGET": None, "BINDGEN_EXTRA_CLANG_ARGS": None}}
    if len(case["roots"]) == 1 and not case["virtual_root"]:
        job["args"] = ["bindgen", "--formatter=none", case["rel"][case["roots"][0]], "-o", "lib_" + case["out"], "--depfile", "lib.d",
                       "--"] + case["clang_args"]
    else:
        job["args"] = []
        job["depfile"] = ["lib_" + case["out"], "lib.d"]
        job["clang_args"] = case["clang_args"]
        if case["virtual_root"]:
            r = case["roots"][-1]
            job["headers"] = [case["rel"][f] for f in case["roots"][:-1]]
            job["header_contents"] = [[case["rel"][r], case["text"][r]]]
        else:
            job["headers"] = [case["rel"][f] for f in case["roots"]]
    return job


def build_shim():
    """LD_PRELOAD getenv interposer (observes which variables the process really consults)."""
    so = os.path.join(C.workdir("c17-shim"), "getenv_shim.so")
    p = subprocess.run(["clang", "-shared", "-fPIC", "-O1", "-w", "-o", so,
                        os.path.join(C.VERIF, "lib", "native", "getenv_shim.c"), "-ldl"],
                       stdout=subprocess.PIPE, stderr=subprocess.STDOUT, text=True)
    if p.returncode != 0:
        raise C.ToolError("cannot build the getenv interposer: " + p.stdout[-500:])
    return so


def run_deps_driver(jobs, name, chunks=6, shim=None):
    """Run `bvdrive deps` over the jobs (several processes); returns {id: {lines, outcome, events}}.
    With shim: one process under the getenv interposer; result[id]["getenv"] = names consulted by the
    driver process itself while the job ran."""
    d = C.workdir(name)
    if shim:
        chunks = 1
    parts = [jobs[i::chunks] for i in range(chunks) if jobs[i::chunks]]

    def one(k):
        jf = os.path.join(d, "jobs%d.json" % k)
        with open(jf, "w") as f:
            json.dump({"jobs": parts[k]}, f)
        env = dict(os.environ)
        glog = os.path.join(d, "getenv.log")
        if shim:
            env["LD_PRELOAD"] = shim
            env["VERIF_GETENV_LOG"] = glog
        pp = subprocess.Popen([C.BVDRIVE, "deps", jf], stdout=subprocess.PIPE, stderr=subprocess.PIPE, text=True, env=env)
        try:
            so, se = pp.communicate(timeout=3000)
        except subprocess.TimeoutExpired:
            pp.kill()
            raise C.ToolError("bvdrive deps timed out")

        class P:
            stdout, stderr, returncode, pid = so, se, pp.returncode, pp.pid
        p = P
        consulted = {}
        if shim:
            if not os.path.exists(glog):
                raise C.ToolError("the getenv interposer wrote no log")
            curj = None
            for line in open(glog, errors="replace"):
                pid, _, nm = line.rstrip("\n").partition(" ")
                if pid != str(p.pid):
                    continue          # child processes (clang, rustfmt) inherit the interposer
                if nm.startswith("VERIF_MARK_"):
                    curj = nm[len("VERIF_MARK_"):]
                    consulted[curj] = []
                elif nm == "VERIF_ENDMARK":
                    curj = None
                elif curj is not None:
                    consulted[curj].append(nm)
        out, cur, lines = {}, None, []
        for line in p.stdout.splitlines():
            if line.startswith("@@BEGIN "):
                cur, lines = line[8:], []
            elif line.startswith("@@END ") and cur is not None:
                rest = line[6 + len(cur) + 1:]
                try:
                    r = json.loads(rest)
                except Exception:
                    r = {"outcome": "unparsable", "events": [], "msg": rest[:200]}
                r["lines"] = lines
                r["getenv"] = consulted.get(cur)
                out[cur] = r
                cur = None
            elif cur is not None:
                lines.append(line)
        for j in parts[k]:
            out.setdefault(j["id"], {"outcome": "crash:%s" % p.returncode, "events": [], "lines": [],
                                     "msg": p.stderr[-500:]})
        return out

    res = {}
    with cf.ThreadPoolExecutor(len(parts) or 1) as ex:
        for o in ex.map(one, range(len(parts))):
            res.update(o)
    return res


# ---------------------------------------------------------------------------
# comparison (property predicates / shape predicates)
# ---------------------------------------------------------------------------

def compare(case, channel, paths, res, counts=None):
    """paths: reported path strings of one channel. Property: the set equals the spec's `read`.
    Returns list of (key, detail) violations; drift appended to res.drift."""
    dag = case["dag"]
    byreal = {norm(case, r): f for f, r in case["rel"].items()}
    got = {}
    unknown = []
    for p in paths:
        f = byreal.get(norm(case, p))
        if f is None:
            unknown.append(p)
        else:
            got[f] = got.get(f, 0) + 1
    want = set(dag["read"])
    optional = set()
    if case["virtual_root"]:
        optional.add(case["roots"][-1])       # a header_contents input is not a file on disk
    viol = []
    for f in sorted(want - set(got) - optional):
        viol.append(("%s:unreported:%s" % (channel, role(case, f, False)),
                     {"case": case["id"], "dir": case["dir"], "file": case["rel"][f], "reported": sorted(paths),
                      "spec_read": [case["rel"][x] for x in sorted(want)]}))
    for f in sorted(set(got) - want):
        viol.append(("%s:not-read:%s" % (channel, role(case, f, True)),
                     {"case": case["id"], "dir": case["dir"], "file": case["rel"][f], "reported": sorted(paths),
                      "spec_read": [case["rel"][x] for x in sorted(want)]}))
    for p in unknown:
        viol.append(("%s:not-read:unknown-path" % channel, {"case": case["id"], "dir": case["dir"], "path": p}))
    # shape: the L2 model of bindgen's side predicts exactly this set / these multiplicities
    pred = set(dag["reported"]) - optional
    if not viol and set(got) - optional != pred:
        res.drift.append("%s: code reports %s, the model of the code predicts %s (%s)" %
                         (channel, sorted(got), sorted(pred), case["id"]))
    if counts is not None and not viol and not case["virtual_root"]:
        predc = {int(k): v for k, v in dag["lines"].items() if v}
        if got != predc:
            res.drift.append("%s: line multiplicities %s differ from the model's %s (%s)" % (channel, got, predc, case["id"]))
    return viol


def check_case(case, cli, lib, res, stats):
    """All property predicates of one materialised DAG. Returns list of (key, detail)."""
    viol = []
    for channel, obs in (("depfile-cli", cli), ("depfile-lib", lib)):
        if obs is None:
            continue
        if channel == "depfile-cli":
            if obs["rc"] != 0 or obs["depfile"] is None:
                viol.append(("%s:no-depfile" % channel, {"case": case["id"], "rc": obs["rc"], "stderr": obs["stderr"]}))
                continue
            text, want_target = obs["depfile"], case["out"]
        else:
            if obs.get("outcome") != "ok":
                viol.append(("%s:generation-failed:%s" % (channel, obs.get("outcome")),
                             {"case": case["id"], "msg": obs.get("msg")}))
                continue
            dp = os.path.join(case["dir"], "lib.d")
            if not os.path.exists(dp):
                viol.append(("%s:no-depfile" % channel, {"case": case["id"]}))
                continue
            text, want_target = open(dp).read(), "lib_" + case["out"]
        target, deps = read_depfile(text)
        stats["depfiles"] += 1
        stats["lines"].append({"case": "%s/%s" % (case["id"], channel), "line": list(text), "target": list(target),
                               "deps": [list(x) for x in deps]})
        if target != want_target:
            viol.append(("%s:target-name" % channel, {"case": case["id"], "got": target, "want": want_target, "line": text}))
        if len(deps) != len(set(deps)):
            res.drift.append("%s lists a file twice (%s)" % (channel, case["id"]))
        viol += compare(case, channel, deps, res)
        if case["special"]:
            g = gnu_read_deps(text)
            if g != deps:
                stats["gnu_make_differs"] += 1
    if lib is not None and lib.get("outcome") == "ok":
        ev = lib.get("events", [])
        cb = [p for k, p in ev if k in ("header_file", "include_file")]
        viol += compare(case, "callbacks", cb, res, counts=True)
        cargo = [l[len("cargo:rerun-if-changed="):] for l in lib["lines"] if l.startswith("cargo:rerun-if-changed=")]
        viol += compare(case, "cargo", cargo, res, counts=True)
        stats["callback_runs"] += 1
        other = [l for l in lib["lines"] if not l.startswith("cargo:rerun-if-")]
        if other:
            res.drift.append("unexpected stdout line from CargoCallbacks: %r (%s)" % (other[0], case["id"]))
    return viol


def dep_record(case, ch, logpath, depfile_text):
    """One Trace_Deps record from the hook log of a run (files are numbered 1..n there; 0 = unknown path)."""
    if not os.path.exists(logpath):
        return None
    byreal = {norm(case, r): f + 1 for f, r in case["rel"].items()}
    inputs, deps, began = [], [], False
    for line in open(logpath, errors="replace"):
        if line.startswith('{"ev":"gen_begin"'):
            began = True
            inputs = [byreal.get(norm(case, h), 0) for h in json.loads(line).get("headers", [])]
        elif line.startswith('{"ev":"dep"'):
            deps.append(byreal.get(norm(case, json.loads(line)["file"]), 0))
    if not began:
        return None
    dag = case["dag"]
    n = len(case["rel"])
    dirs_used = set(dag["L"]["dir"].values())
    reported = [byreal.get(norm(case, p), 0) for p in read_depfile(depfile_text)[1]] if depfile_text else []
    roots = case["roots"]
    return {"case": case["id"], "ch": ch, "n": n,
            "dir": [dag["L"]["dir"][str(f)] for f in range(n)], "name": [dag["L"]["name"][str(f)] for f in range(n)],
            "path": ["inc", "sys"] if ("inc" in dirs_used or "sys" in dirs_used) else [],
            "content": [{"dirs": dag["content"][str(f)]["dirs"]} for f in range(n)],
            "starts": [f + 1 for f in roots + case["pre"]],
            "optional": [roots[-1] + 1] if case["virtual_root"] else [],
            "inputs": inputs, "deps": deps, "reported": reported,
            "model_deps": [dag["lines"][str(f)] - roots.count(f) for f in range(n)]}


def validate_deps(records, name):
    """Trace_Deps.tla over the hook-log records -> (violations, drift, count, tlc result)."""
    tp = os.path.join(C.workdir("c17-trace-deps-" + name), "deps.ndjson")
    with open(tp, "w") as f:
        for x in records:
            f.write(json.dumps(x) + "\n")
    r = C.tlc(os.path.join(FRONT, "Trace_Deps.tla"), cfg="Trace_Deps.cfg", env={"TRACE": tp}, workers=1,
              dfs=True, timeout=1500, name="c17-tvd-" + name)
    if not C.tlc_ok(r):
        raise C.ToolError("Trace_Deps did not complete: %s" % r["out"][-1500:])
    v = C.tlc_prints(r["out"], "VIOL")
    d = C.tlc_prints(r["out"], "DRIFT")
    c = C.tlc_prints(r["out"], "COUNT")
    return (v[0] if v else []), (d[0] if d else []), (c[0]["n"] if c else 0), r


def validate_lines(lines, name):
    """Trace_DepEscape.tla over the observed dep-file lines -> (bad cases, count, tlc result)."""
    tp = os.path.join(C.workdir("c17-trace-" + name), "lines.ndjson")
    with open(tp, "w") as f:
        for x in lines:
            f.write(json.dumps(x) + "\n")
    r = C.tlc(os.path.join(FRONT, "Trace_DepEscape.tla"), cfg="Trace_DepEscape.cfg", env={"TRACE": tp}, workers=1,
              dfs=True, timeout=900, name="c17-tv-" + name)
    if not C.tlc_ok(r):
        raise C.ToolError("Trace_DepEscape did not complete: %s" % r["out"][-1200:])
    bad = C.tlc_prints(r["out"], "BAD")
    cnt = C.tlc_prints(r["out"], "COUNT")
    return (bad[0] if bad else []), (cnt[0]["n"] if cnt else 0), r


def env_cross_check(case, clang_set):
    """spec's read set must be what clang reads (else the model is wrong: tool error)."""
    want = set(os.path.normpath(case["rel"][f]) for f in case["dag"]["read"])
    # clang -M rewrites backslashes in file names to slashes (llvm::sys::path::native)
    want_n = set(w.replace("\\", "/") for w in want)
    got_n = set(g.replace("\\", "/") for g in clang_set)
    if want_n != got_n:
        raise C.ToolError("spec != clang for %s in %s: spec read %s, clang -M %s" %
                          (case["id"], case["dir"], sorted(want), sorted(clang_set)))


# ---------------------------------------------------------------------------
# environment variables
# ---------------------------------------------------------------------------

ENV_HEADER = """#ifdef FROM_VT
extern int from_vt;
#endif
#ifdef FROM_VU
extern int from_vu;
#endif
#ifdef FROM_V
extern int from_v;
#endif
extern int always;
"""


def env_jobs(envtab, base):
    d = os.path.join(base, "env")
    os.makedirs(d, exist_ok=True)
    with open(os.path.join(d, "e.h"), "w") as f:
        f.write(ENV_HEADER)
    jobs, expect = [], {}
    for i, row in enumerate(sorted(envtab, key=json.dumps)):
        tgt = "x86_64-unknown-linux-gnu" if row["dash"] else "nodash"
        names = {"TARGET": "TARGET", "BINDGEN_EXTRA_CLANG_ARGS": "BINDGEN_EXTRA_CLANG_ARGS",
                 "BINDGEN_EXTRA_CLANG_ARGS_<target>": "BINDGEN_EXTRA_CLANG_ARGS_" + tgt,
                 "BINDGEN_EXTRA_CLANG_ARGS_<target_>": "BINDGEN_EXTRA_CLANG_ARGS_" + tgt.replace("-", "_")}
        val = {"TARGET": tgt, "BINDGEN_EXTRA_CLANG_ARGS": "-DFROM_V",
               "BINDGEN_EXTRA_CLANG_ARGS_<target>": "-DFROM_VT", "BINDGEN_EXTRA_CLANG_ARGS_<target_>": "-DFROM_VU"}
        if not row["dash"] and "BINDGEN_EXTRA_CLANG_ARGS_<target_>" in row["env"]:
            continue      # without a dash the two target-specific names are one variable
        env = {}
        for k, real in names.items():
            env[real] = None
        for k in row["env"]:
            env[names[k]] = val[k]
        cid = "env%02d" % i
        args = ["bindgen", "--formatter=none", "e.h", "-o", cid + ".rs", "--", "--target=x86_64-unknown-linux-gnu"]
        write = False
        if i % 8 == 3:
            # the way a build script uses the library: default formatter, Bindings::write
            args.remove("--formatter=none")
            write = True
        jobs.append({"id": cid, "cwd": d, "cargo": True, "env": env, "args": args, "write": write})
        expect[cid] = {"args": args + (["<Bindings::write>"] if write else []), "env": env, "consulted": [names[k] for k in row["consulted"]],
                       "winner": {"BINDGEN_EXTRA_CLANG_ARGS": "from_v", "BINDGEN_EXTRA_CLANG_ARGS_<target>": "from_vt",
                                  "BINDGEN_EXTRA_CLANG_ARGS_<target_>": "from_vu", "none": None}[row["winner"]],
                       "dir": d, "row": row}
    return jobs, expect


BINDGEN_VARS = re.compile(r"^(TARGET|BINDGEN_EXTRA_CLANG_ARGS.*|RUSTFMT|RUSTC|RUSTC_WRAPPER|CARGO_CFG_TARGET_ARCH)$")
LIBCLANG_VARS = re.compile(r"^(CPATH|C_INCLUDE_PATH|CPLUS_INCLUDE_PATH|OBJC_INCLUDE_PATH|OBJCPLUS_INCLUDE_PATH|"
                           r"LIBCLANG_PATH|CLANG_PATH|LLVM_CONFIG_PATH|SDKROOT|MACOSX_DEPLOYMENT_TARGET)$")


def generic(v):
    return re.sub(r"_(x86_64.*|nodash)$", "_<target>", v)


def check_env(res, out, expect):
    """Property: one rerun-if-env-changed line per environment variable consulted. `consulted` is observed
    with the getenv interposer (variables read by bindgen's own code: BINDGEN_VARS); the variable whose
    value reached clang (visible in the bindings) is cross-checked against the model's lookup order."""
    n = 0
    libclang_seen = set()
    for cid, e in sorted(expect.items()):
        o = out.get(cid, {})
        if o.get("outcome") != "ok":
            res.violation("env:generation-failed:%s" % o.get("outcome"), {"case": cid, "row": e["row"], "msg": o.get("msg")})
            continue
        if o.get("getenv") is None:
            raise C.ToolError("no getenv observation for " + cid)
        n += 1
        announced = [p for k, p in o["events"] if k == "read_env_var"]
        lines = [l[len("cargo:rerun-if-env-changed="):] for l in o["lines"] if l.startswith("cargo:rerun-if-env-changed=")]
        real = [v for v in o["getenv"] if BINDGEN_VARS.match(v)]
        libclang_seen |= set(v for v in o["getenv"] if LIBCLANG_VARS.match(v))
        for v in sorted(set(real) - set(lines)):
            res.violation("cargo:env-unreported:%s" % generic(v),
                          {"case": cid, "variable": v, "lines": lines, "consulted": real, "args": e["args"], "env": e["env"]})
        for v in sorted(set(lines) - set(real)):
            res.violation("cargo:env-not-consulted:%s" % generic(v),
                          {"case": cid, "variable": v, "lines": lines, "consulted": real, "args": e["args"], "env": e["env"]})
        text = open(os.path.join(e["dir"], cid + ".rs")).read()
        seen = [w for w in ("from_v", "from_vt", "from_vu") if re.search(r"\b%s\b" % w, text)]
        want_seen = [e["winner"]] if e["winner"] else []
        if seen != want_seen:
            res.drift.append("env lookup order differs from the model: bindings show %s, model %s (%s)" % (seen, want_seen, cid))
        if len(lines) != len(set(lines)):
            res.drift.append("a variable is announced twice: %s (%s)" % (lines, cid))
        if announced != e["consulted"]:
            res.drift.append("env consultation sequence %s differs from the model's %s (%s)" % (announced, e["consulted"], cid))
    if libclang_seen:
        res.notes.append("diagnostic: variables consulted inside the process by libclang / clang-sys and never announced "
                         "(not bindgen's own lookups): " + " ".join(sorted(libclang_seen)))
    return n


# ---------------------------------------------------------------------------
# main
# ---------------------------------------------------------------------------

def pick(dags, n, rnd, must=()):
    if n >= len(dags):
        return list(dags)
    dags = sorted(dags, key=json.dumps)
    return rnd.sample(dags, n)


def dotdot_layouts(res, tier):
    """Include names with `..` components next to symbolic links: which file a `..` reaches is decided by the file
    system (the physical parent of the directory), not by the spelling.  Layouts: a linked include directory
    whose headers include `../common/x.h`; `..` twice; the link reached through -I; a plain directory as control.
    Oracle: `clang -M` on the same command line (real paths); every listed path must exist."""
    base = C.workdir("c17-dotdot")
    layouts = []
    for k, (linked, ups, via_I) in enumerate([(True, 1, False), (True, 2, False), (True, 1, True), (False, 1, False),
                                              (False, 2, True), (True, 2, True)]):
        d = os.path.join(base, "l%d" % k)
        real_inc = os.path.join(d, "versions", "2.1", "include", "sub") if ups == 2 else os.path.join(d, "versions", "2.1", "include")
        os.makedirs(real_inc)
        os.makedirs(os.path.join(d, "versions", "2.1", "common"))
        os.makedirs(os.path.join(d, "sdk"))
        # decoys at the places a lexical reading of the names would look
        os.makedirs(os.path.join(d, "sdk", "common"))
        os.makedirs(os.path.join(d, "common"))
        for decoy in (os.path.join(d, "sdk", "common", "types.h"), os.path.join(d, "common", "types.h")):
            with open(decoy, "w") as f:
                f.write("#error decoy: a lexically folded name leads here\n")
        with open(os.path.join(d, "versions", "2.1", "common", "types.h"), "w") as f:
            f.write("typedef int api_len_t;\n#define API_N 3\n")
        with open(os.path.join(real_inc, "api.h"), "w") as f:
            f.write('#include "%scommon/types.h"\nstruct api { api_len_t n[API_N]; };\n' % ("../" * ups))
        top = os.path.join(d, "sdk", "include")
        target = os.path.join("..", "versions", "2.1", "include")
        if linked:
            os.symlink(target, top)
        else:
            # control: a real directory at the spelled place
            os.makedirs(os.path.join(top, "sub") if ups == 2 else top)
            shutil.copy(os.path.join(real_inc, "api.h"), os.path.join(top, "sub", "api.h") if ups == 2 else os.path.join(top, "api.h"))
            os.makedirs(os.path.join(d, "sdk", "common"), exist_ok=True)
            with open(os.path.join(d, "sdk", "common", "types.h"), "w") as f:
                f.write("typedef int api_len_t;\n#define API_N 3\n")
            if ups == 2:
                with open(os.path.join(d, "common", "types.h"), "w") as f:
                    f.write("typedef int api_len_t;\n#define API_N 3\n")
        spelled = ("sub/api.h" if ups == 2 else "api.h")
        with open(os.path.join(d, "main.h"), "w") as f:
            f.write('#include %s\n' % ('<%s>' % spelled if via_I else '"sdk/include/%s"' % spelled))
        cargs = ["-Isdk/include"] if via_I else []
        layouts.append((k, d, cargs, linked, ups, via_I))
    n = 0
    for k, d, cargs, linked, ups, via_I in layouts:
        pc = subprocess.run(["clang", "-M", "-MF", "clang.d"] + cargs + ["main.h"], cwd=d, stdout=subprocess.PIPE,
                            stderr=subprocess.PIPE, text=True)
        if pc.returncode != 0:
            raise C.ToolError("clang -M rejected the `..` layout %d: %s" % (k, pc.stderr[-400:]))
        want = {os.path.realpath(os.path.join(d, x)) for x in read_clang_depfile(open(os.path.join(d, "clang.d")).read())}
        p = subprocess.run([C.BINDGEN, "--formatter=none", "main.h", "-o", "out.rs", "--depfile", "cli.d", "--"] + cargs,
                           cwd=d, stdout=subprocess.PIPE, stderr=subprocess.PIPE, text=True, timeout=120)
        if p.returncode != 0:
            res.violation("dotdot-layout:generation-failed", {"layout": k, "stderr": p.stderr[-400:]})
            continue
        _, deps = read_depfile(open(os.path.join(d, "cli.d")).read())
        got = {os.path.realpath(os.path.join(d, x)) for x in deps}
        shape = "linked=%s:ups=%d:viaI=%s" % (linked, ups, via_I)
        ghosts = sorted(x for x in deps if not os.path.exists(os.path.join(d, x)))
        if ghosts:
            res.violation("depfile-cli:not-read:nonexistent-path:" + shape, {"layout": k, "paths": ghosts, "dir": d})
        elif want - got:
            res.violation("depfile-cli:unreported:dotdot:" + shape, {"layout": k, "missing": sorted(want - got), "listed": sorted(got)})
        elif got - want:
            res.violation("depfile-cli:not-read:dotdot:" + shape, {"layout": k, "extra": sorted(got - want)})
        else:
            # the same files; are they also named the way clang opened them?  The property compares files
            # (realpath-normalised), so a different spelling is reported as drift only, never as a violation.
            spelled_c = {os.path.normpath(os.path.join(d, x)) for x in read_clang_depfile(open(os.path.join(d, "clang.d")).read())}
            spelled_b = {os.path.normpath(os.path.join(d, x)) for x in deps}
            if spelled_c != spelled_b:
                res.drift.append("dotdot layout %s: same files as clang -M but under other names: %s vs %s" %
                                 (shape, sorted(spelled_b - spelled_c)[:3], sorted(spelled_c - spelled_b)[:3]))
        n += 1
    # forced includes named the way build systems name them: resolved through the search path, not the working
    # directory.  (That a forced include is missing from the list is the recorded finding clang-arg-include; what is
    # judged here is the other half: nothing is listed that was not read, every listed path exists.)
    for k, (flag, where) in enumerate([("-I", "inc"), ("-iquote", "quoted"), ("-isystem", "sys")]):
        d = os.path.join(base, "f%d" % k)
        os.makedirs(os.path.join(d, where))
        with open(os.path.join(d, where, "conf.h"), "w") as f:
            f.write("#define CONF_N 4\n")
        with open(os.path.join(d, "main.h"), "w") as f:
            f.write("struct uses_conf { int a[CONF_N]; };\n")
        cargs = [flag + where if flag == "-I" else flag, where][:1] if flag == "-I" else [flag, where]
        cargs = cargs + ["-include", "conf.h"]
        pc = subprocess.run(["clang", "-M", "-MF", "clang.d"] + cargs + ["main.h"], cwd=d, stdout=subprocess.PIPE,
                            stderr=subprocess.PIPE, text=True)
        if pc.returncode != 0:
            continue        # this search-path kind does not resolve forced includes: nothing to judge
        want = {os.path.realpath(os.path.join(d, x)) for x in read_clang_depfile(open(os.path.join(d, "clang.d")).read())}
        p = subprocess.run([C.BINDGEN, "--formatter=none", "main.h", "-o", "out.rs", "--depfile", "cli.d", "--"] + cargs,
                           cwd=d, stdout=subprocess.PIPE, stderr=subprocess.PIPE, text=True, timeout=120)
        if p.returncode != 0:
            res.violation("forced-include-layout:generation-failed", {"layout": k, "stderr": p.stderr[-400:]})
            continue
        _, deps = read_depfile(open(os.path.join(d, "cli.d")).read())
        ghosts = sorted(x for x in deps if not os.path.exists(os.path.join(d, x)))
        extra = sorted({os.path.realpath(os.path.join(d, x)) for x in deps} - want)
        if ghosts or extra:
            res.violation("depfile-cli:not-read:forced-include-through-%s" % flag.strip("-"),
                          {"layout": k, "listed": deps, "clang_M": sorted(want), "nonexistent": ghosts})
        n += 1
    res.add(dotdot_symlink_layouts=n)


def run(res, tier):
    res.assumptions += [
        "reference dep-file reader = dep-info grammar (`\\ ` -> space, `\\\\` -> backslash, target ends at the first ':'); "
        "GNU-make-only meta characters ('#', '$', ':', backslash runs) are a diagnostic, not a verdict",
        "the preprocessor model (Deps.tla) is cross-checked against `clang -M` on every materialised DAG; "
        "a disagreement is a tool error",
        "duplicate cargo lines for a file included several times are a shape difference (DRIFT), the property "
        "is read as: the set of files announced equals the set of files read",
    ]
    C.build()
    envtab = model(res, tier)
    rnd = random.Random(C.seed() * 7919 + 17)
    thorough = tier == "thorough"
    base = C.workdir("c17-dags")

    plan = [("Gen_Deps_shape3.cfg", "s3", 2500 if thorough else 110, None),
            ("Gen_Deps_shape4.cfg", "s4", 2500 if thorough else 150, None),
            ("Gen_Deps_search4.cfg", "q4", 2500 if thorough else 120, None),
            ("Gen_Deps_arginclude.cfg", "ai", 120 if thorough else 24, None)]
    if thorough:
        plan.append(("Gen_Deps_sim.cfg", "sim", 1200, 400))
    cases = []
    gst = gtr = 0
    enumerated = 0
    for cfg, tag, n, sim in plan:
        dags, r = gen(cfg, simulate=sim)
        gst += r["distinct"]
        gtr += r["generated"]
        enumerated += len(dags)
        sel = pick(dags, n, rnd)
        for i, dag in enumerate(sel):
            special = rnd.random() < (0.5 if thorough else 0.35)
            if special and rnd.random() < 0.5:
                special = "alpha"
            virtual = (tag != "ai") and rnd.random() < 0.12
            cases.append(make_case(dag, "%s-%04d" % (tag, i), base, special, rnd, virtual_root=virtual))
    res.add(states=gst, transitions=gtr, dags_enumerated=enumerated, dags_materialised=len(cases),
            model_configs=len(plan))

    # ---- run: clang oracle, CLI, library driver -------------------------------------------
    with cf.ThreadPoolExecutor(12) as ex:
        clang_sets = list(ex.map(run_clang, cases))
        clis = list(ex.map(run_cli, cases))
    for c, cs in zip(cases, clang_sets):
        env_cross_check(c, cs)
    ejobs, eexpect = env_jobs(envtab, base)
    out = run_deps_driver([lib_job(c) for c in cases], "c17-drive")
    out.update(run_deps_driver(ejobs, "c17-drive-env", shim=build_shim()))

    stats = {"depfiles": 0, "callback_runs": 0, "gnu_make_differs": 0, "lines": []}
    feats = {}
    nviol = 0
    first_ok = None
    for c, cli in zip(cases, clis):
        for ft in c["features"]:
            feats[ft] = feats.get(ft, 0) + 1
        v = check_case(c, cli, out.get(c["id"]), res, stats)
        for key, detail in v:
            detail["header_texts"] = {c["rel"][f]: c["text"][f] for f in sorted(c["rel"])}
            detail["clang_args"] = c["clang_args"]
            res.violation(key, detail)
            nviol += 1
        if not v and first_ok is None and cli is not None and not c["special"] and not c["virtual_root"] and \
                len(set(c["dag"]["read"]) - set(c["roots"]) - set(c["pre"])) >= 1:
            first_ok = (c, cli)
    nenv = check_env(res, out, eexpect)

    # ---- T: hook logs (gen_begin.headers + dep events) against the spec's read set, by TLC -----------
    recs = []
    bycase = {c["id"]: c for c in cases}
    for c, cli in zip(cases, clis):
        if cli is not None and cli["rc"] == 0:
            rr = dep_record(c, "dep-events-cli", os.path.join(c["dir"], "cli.ndjson"), cli["depfile"])
            if rr is None:
                raise C.ToolError("no hook log from the CLI run of " + c["id"])
            recs.append(rr)
        lo = out.get(c["id"])
        if lo is not None and lo.get("outcome") == "ok":
            dp = os.path.join(c["dir"], "lib.d")
            rr = dep_record(c, "dep-events-lib", os.path.join(c["dir"], "lib.ndjson"), open(dp).read() if os.path.exists(dp) else "")
            if rr is None:
                raise C.ToolError("no hook log from the library run of " + c["id"])
            recs.append(rr)
    dv, dd, ndep, dtr = validate_deps(recs, "all")
    for v in dv:
        c = bycase[v["case"]]
        base_detail = {"case": v["case"], "dir": c["dir"], "clang_args": c["clang_args"],
                       "spec_read": [c["rel"][x] for x in sorted(c["dag"]["read"])],
                       "header_texts": {c["rel"][f]: c["text"][f] for f in sorted(c["rel"])}}
        for f in v["missing"]:
            res.violation("%s:unreported:%s" % (v["ch"], role(c, f - 1, False)), dict(base_detail, file=c["rel"][f - 1]))
        for f in v["extra"]:
            res.violation("%s:not-read:%s" % (v["ch"], role(c, f - 1 if f else None, True)),
                          dict(base_detail, file=c["rel"].get(f - 1, "<a path outside the DAG>")))
        if v["disagree"] and not v["missing"] and not v["extra"]:
            res.violation("%s:differs-from-depfile" % v["ch"], dict(base_detail, files=[c["rel"].get(f - 1, "?") for f in v["disagree"]]))
    for x in dd[:5]:
        res.drift.append("%s %s: number of dep events per file differs from the model's directive count (files %s)" %
                         (x["ch"], x["case"], x["files"]))
    res.add(states=dtr["distinct"], transitions=dtr["generated"], hook_log_runs_validated_by_tlc=ndep)
    clean = next(r0 for r0 in recs if set(r0["deps"]) - set(r0["inputs"]) - {0}
                 and not any(v["case"] == r0["case"] for v in dv))
    gone = sorted(set(clean["deps"]) - set(clean["inputs"]) - {0})[0]
    t1 = dict(clean, deps=[x for x in clean["deps"] if x != gone])
    t2 = dict(clean, deps=clean["deps"] + [0])
    tv, _, _, _ = validate_deps([t1, t2], "tamper")
    if len(tv) != 2:
        raise C.ToolError("tampered hook logs: %d of 2 rejected by Trace_Deps" % len(tv))

    # ---- T: TLC checks every observed dep-file line against the spec's writer and reader -----------
    bad, nlines, tr = validate_lines(stats["lines"], "all")
    for b in bad:
        res.violation("depfile:escape-round-trip", {"case": b})
    res.add(states=tr["distinct"], transitions=tr["generated"], depfile_lines_validated_by_tlc=nlines)
    t0 = dict(stats["lines"][0])
    t0["line"] = [ch for ch in t0["line"] if ch != "\\"][:-1] + ["\\", " ", "x"]
    tb, _, _ = validate_lines([t0], "tamper")
    if not tb:
        raise C.ToolError("a tampered dep-file line was accepted by Trace_DepEscape")

    # ---- non-vacuity: a tampered observation must be flagged ------------------------------------
    if first_ok is None:
        raise C.ToolError("no clean case available for the tamper self-test")
    c, cli = first_ok
    t, deps = read_depfile(cli["depfile"])
    # every spelling of one file that was read goes (a file can be listed as `./x.h` and `x.h`)
    esc = lambda x: x.replace("\\", "\\\\").replace(" ", "\\ ")
    byreal = {norm(c, r): f for f, r in c["rel"].items()}
    cands = [x for x in deps if byreal.get(norm(c, x)) in set(c["dag"]["read"]) - set(c["roots"]) - set(c["pre"])]
    if not cands:
        raise C.ToolError("tamper self-test: no included file in the clean case")
    victim = norm(c, cands[-1])
    dropped = dict(cli, depfile=esc(t) + ":" + "".join(" " + esc(x) for x in deps if norm(c, x) != victim))
    unread = [f for f in c["rel"] if f not in c["dag"]["read"]]
    tests = [("drop one prerequisite", dropped)]
    if unread:
        tests.append(("add an unread file", dict(cli, depfile=cli["depfile"] + " " + c["rel"][unread[0]].replace("\\", "\\\\").replace(" ", "\\ "))))
    tests.append(("rename the target", dict(cli, depfile="x" + cli["depfile"])))
    scratch = C.Result(res.prop, tier, LEVEL)
    for what, obs in tests:
        if not check_case(c, obs, None, scratch, dict(stats, lines=[])):
            raise C.ToolError("tamper self-test (%s) was not flagged" % what)
    res.add(tampered_observations_flagged=len(tests))

    del stats["lines"]
    res.add(traces_validated_against_impl=stats["depfiles"] + stats["callback_runs"] + nenv + ndep,
            depfiles_parsed_back=stats["depfiles"], callback_runs=stats["callback_runs"], env_lookup_runs=nenv,
            clang_cross_checks=len(cases), special_name_cases=sum(1 for c in cases if c["special"]),
            header_contents_cases=sum(1 for c in cases if c["virtual_root"]),
            gnu_make_reading_differs=stats["gnu_make_differs"], features=feats)
    for c in cases[:3]:
        res.sample_case({"case": c["id"], "files": c["rel"], "clang_args": c["clang_args"],
                         "spec_read": [c["rel"][f] for f in c["dag"]["read"]]})
    dotdot_layouts(res, tier)
    res.cov["exhaustive"] = False
