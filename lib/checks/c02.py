"""C02 - generated types match the C compiler's size, alignment, offsets and values.

model : CLayout.tla / RustLayout.tla references; Gen_Layout.tla enumerates record declarations with
        the predicted C layout (invariants: offsets aligned, no overlap, size multiple of align)
R     : every enumerated declaration (sampled in quick) -> header -> clang probe (environment; must
        equal the prediction, else model error) -> real bindgen -> rustc probe (size_of / align_of /
        offset_of!) + linked C<->Rust value round trip per member -> three-way comparison;
        presentation options must not change any number
T     : Trace_Layout.tla: for every composite of repository-corpus runs TLC evaluates
        RustLayout(emitted fields, repr) = clang's size / align / member offsets from the comp event
"""
import json
import os
import random
import re
import subprocess

import common as C
import layoutprobe as LP
import rustfields

LEVEL = "model_checking"
LAY = os.path.join(C.SPEC, "layout")

PRESENTATION = [
    ["--with-derive-default", "--with-derive-hash", "--with-derive-partialeq"],
    ["--explicit-padding"],
    ["--rustified-enum", ".*", "--no-derive-copy", "--no-derive-debug"],
    ["--enable-cxx-namespaces", "--default-alias-style=new_type"],
    ["--default-enum-style=moduleconsts", "--formatter=prettyplease", "--no-doc-comments"],
    ["--default-non-copy-union-style=manually_drop", "--no-derive-copy"],
]


def over16(d):
    """a member aligned to more than 8 bytes (long double, a 16-byte vector): the `ld` of the violation keys"""
    return any(c in "lv" for c in d["codes"])


def attr_class(d):
    a = []
    if d["packed"]:
        a.append("packed")
    if d["pack"]:
        a.append("pack%d" % d["pack"])
    if d["aligned"]:
        a.append("aligned%d" % d["aligned"])
    if d["malign"]:
        a.append("maligned%d" % d["malign"])
    return "+".join(a) or "plain"


def model(res, tier):
    """L3: Tracker.tla (what the code emits) laid out by RustLayout = CLayout, for the whole Gen_Layout universe."""
    cfg = os.path.join(C.workdir("c02-mc"), "MC_Tracker.cfg")
    with open(os.path.join(LAY, "MC_Tracker.cfg")) as f:
        t = f.read()
    if tier == "thorough":
        t = t.replace("MaxAttrs = 1", "MaxAttrs = 2")
    with open(cfg, "w") as f:
        f.write(t)
    r = C.tlc(os.path.join(LAY, "MC_Tracker.tla"), cfg=cfg, workers=10, timeout=3000, name="c02-mc", xmx="12g")
    if not C.tlc_ok(r):
        # the spec is fixed: a counterexample here is a model-level candidate that must be replayed by hand
        raise C.ToolError("MC_Tracker (L3) failed: " + r["out"][-1800:])
    res.add(states=r["distinct"], transitions=r["generated"])
    for cfgn in ("MC_Tracker_noPadFix_fails.cfg", "MC_Tracker_knownClass_fails.cfg"):
        r2 = C.tlc(os.path.join(LAY, "MC_Tracker.tla"), cfg=cfgn, workers=4, timeout=900, name="c02-" + cfgn)
        if "is violated" not in r2["out"]:
            raise C.ToolError("sensitivity config %s did not fail" % cfgn)
    res.add(sensitivity_configs_failing_as_expected=2)


def generate(res, tier):
    cfg = os.path.join(C.workdir("c02-cfg"), "Gen_Layout.cfg")
    with open(os.path.join(LAY, "Gen_Layout.cfg")) as f:
        t = f.read()
    if tier == "thorough":
        t = t.replace("MaxAttrs = 1", "MaxAttrs = 2")
    with open(cfg, "w") as f:
        f.write(t)
    r = C.tlc(os.path.join(LAY, "Gen_Layout.tla"), cfg=cfg, workers=10, timeout=3000, name="c02-gen", xmx="12g")
    if not C.tlc_ok(r):
        raise C.ToolError("Gen_Layout failed: " + r["out"][-1500:])
    decls = C.tlc_prints(r["out"], "DECL")
    res.add(states=r["distinct"], transitions=r["generated"], declarations_enumerated=len(decls))
    rnd = random.Random(C.seed() * 131 + 5)
    decls.sort(key=lambda d: json.dumps(d, sort_keys=True))
    n = 12000 if tier == "thorough" else 1500
    if len(decls) > n:
        # keep every attribute class represented
        by = {}
        for d in decls:
            by.setdefault((d["kind"], attr_class(d)), []).append(d)
        pick = []
        per = max(3, n // len(by))
        for k in sorted(by):
            g = by[k]
            pick += g if len(g) <= per else rnd.sample(g, per)
        decls = pick[:n]
    return decls


def replay(res, tier, decls, flags=(), tag="base", values=True):
    w = C.workdir("c02-" + tag)
    names = ["S%05d" % i for i in range(len(decls))]
    hp = os.path.join(w, "decls.h")
    with open(hp, "w") as f:
        f.write(LP.PRELUDE)
        for n, d in zip(names, decls):
            f.write(LP.c_decl(n, d) + "\n")
    cl = LP.run_clang_probe(w, hp, names, decls)
    # spec vs environment
    for n, d in zip(names, decls):
        pred, got = d["layout"], cl.get(n)
        if not got or pred["size"] != got["size"] or pred["align"] != got["align"] or pred["offsets"] != got["offsets"]:
            raise C.ToolError("CLayout.tla disagrees with clang (model error): %s pred=%s clang=%s" % (LP.c_decl(n, d), pred, got))
    cobj = None
    if values:
        csrc = os.path.join(w, "cside.c")
        with open(csrc, "w") as f:
            f.write('#include "%s"\n' % hp)
            for n, d in zip(names, decls):
                f.write(LP.c_fill_check(n, d))
        cobj = os.path.join(w, "cside.o")
        p = subprocess.run(["clang", "-w", "-c", "-o", cobj, csrc], stdout=subprocess.PIPE, stderr=subprocess.STDOUT, text=True)
        if p.returncode != 0:
            raise C.ToolError("clang -c failed: " + p.stdout[-1500:])
    live = list(range(len(decls)))
    rust, err = {}, None
    for attempt in range(4):
        hp2 = os.path.join(w, "decls%d.h" % attempt)
        with open(hp2, "w") as f:
            f.write(LP.PRELUDE)
            for i in live:
                f.write(LP.c_decl(names[i], decls[i]) + "\n")
        out = os.path.join(w, "bindings%d.rs" % attempt)
        p = subprocess.run([C.BINDGEN, hp2, "--no-layout-tests", "-o", out] + list(flags), stdout=subprocess.PIPE,
                           stderr=subprocess.PIPE, text=True, timeout=1200)
        if p.returncode != 0:
            res.violation("bindgen-failed-on-generated-records:" + tag, {"stderr": p.stderr[-1500:]})
            return {}
        with open(out) as f:
            text = f.read()
        if "--enable-cxx-namespaces" in flags:
            text += "\npub use self::root::*;\n"
        rust, err = LP.run_rust_probe(w, text, [names[i] for i in live], [decls[i] for i in live],
                                      cobj=cobj if attempt == 0 or values else None, tag="rprobe%d" % attempt)
        if err is None:
            break
        # rustc rejected the bindings: name the culprit declarations, report, drop, retry
        bad = set(re.findall(r"\b(S\d{5})\b", err))
        # errors that do not name the type: walk back from the reported line to the enclosing item
        srcp = os.path.join(w, "rprobe%d.rs" % attempt)
        with open(srcp) as f:
            src_lines = f.read().split("\n")
        for m in re.finditer(r"--> [^:\n]+:(\d+):\d+", err):
            ln = min(int(m.group(1)), len(src_lines)) - 1
            while ln >= 0:
                mm = re.search(r"\b(S\d{5})\b", src_lines[ln])
                if mm and re.search(r"\b(impl|struct|union)\b", src_lines[ln]):
                    bad.add(mm.group(1))
                    break
                ln -= 1
        bad = sorted(bad)
        culprits = [i for i in live if names[i] in bad]
        if not culprits:
            raise C.ToolError("rust probe failed without naming a declaration: " + err[-1500:])
        for i in culprits[:50]:
            codes = sorted(set(re.findall(r"error\[(E\d+)\]", err)))
            res.violation("bindings-rejected-by-rustc:%s:%s:%s:ld=%s" % (decls[i]["kind"], attr_class(decls[i]), "+".join(codes), over16(decls[i])),
                          {"decl": LP.c_decl(names[i], decls[i]), "rustc": err[-800:]})
        live = [i for i in live if i not in set(culprits)]
    else:
        raise C.ToolError("rust probe still failing after dropping culprits: " + (err or "")[-1000:])
    results = {}
    for i in live:
        n, d = names[i], decls[i]
        c, r = cl[n], rust.get(n)
        if r is None:
            res.violation("type-missing-from-bindings:%s:%s" % (d["kind"], attr_class(d)), {"decl": LP.c_decl(n, d)})
            continue
        results[json.dumps({k: d[k] for k in d if k != "layout"}, sort_keys=True)] = r
        diff = [k for k in ("size", "align", "offsets") if c[k] != r[k]]
        if diff:
            res.violation("layout:%s:%s:%s:ld=%s" % (d["kind"], attr_class(d), "+".join(diff), over16(d)),
                          {"decl": LP.c_decl(n, d), "clang": c, "rust": {k: r[k] for k in ("size", "align", "offsets")}, "flags": list(flags)})
        elif values and (r["rd"] or r["wr"]):
            res.violation("value:%s:%s:%s" % (d["kind"], attr_class(d), "c-to-rust" if r["rd"] else "rust-to-c"),
                          {"decl": LP.c_decl(n, d), "rd_mask": r["rd"], "wr_mask": r["wr"], "flags": list(flags)})
    res.add(traces_validated_against_impl=len(live), records_replayed=len(live),
            member_values_round_tripped=sum(len(decls[i]["codes"]) for i in live) if values else 0)
    return results


def replay_cxx(res, tier, decls):
    """C++ classes without tail-padding reuse: POD bases (records of the Gen_Layout universe) + own members,
    with and without --explicit-padding; clang++ vs rustc for size, alignment, base and member offsets."""
    rnd = random.Random(C.seed() * 17 + 9)
    pods = [d for d in decls if d["kind"] == "struct" and attr_class(d) == "plain" and "z" not in d["codes"] and "l" not in d["codes"]]
    if len(pods) < 4:
        return
    n = 160 if tier == "thorough" else 48
    w = C.workdir("c02-cxx")
    cases = []
    for k in range(n):
        nb = rnd.choice([1, 2, 2, 3])
        bases = [rnd.choice(pods) for _ in range(nb)]
        own = [rnd.choice("csidp") for _ in range(rnd.choice([0, 0, 1, 2]))]
        cases.append((bases, own))
    hp = os.path.join(w, "cls.hpp")
    with open(hp, "w") as f:
        f.write(LP.PRELUDE)
        for k, (bases, own) in enumerate(cases):
            for b, d in enumerate(bases):
                f.write(LP.c_decl("B%03d_%d" % (k, b), d) + "\n")
            f.write("struct D%03d : %s {\n%s};\n" % (k, ", ".join("B%03d_%d" % (k, b) for b in range(len(bases))),
                                                      "".join("  %s;\n" % (LP.CTYPE[c] % ("m%d" % j)) for j, c in enumerate(own))))
    # clang++ numbers
    src = os.path.join(w, "probe.cc")
    with open(src, "w") as f:
        f.write('#include <stdio.h>\n#include <stddef.h>\n#include "%s"\nint main() {\n' % hp)
        for k, (bases, own) in enumerate(cases):
            f.write("{ D%03d d; printf(\"{\\\"n\\\":\\\"D%03d\\\",\\\"size\\\":%%ld,\\\"align\\\":%%ld,\\\"offsets\\\":[\", (long)sizeof(d), (long)alignof(D%03d));\n" % (k, k, k))
            parts = ["(long)((char*)static_cast<B%03d_%d*>(&d) - (char*)&d)" % (k, b) for b in range(len(bases))] + \
                    ["(long)((char*)&d.m%d - (char*)&d)" % j for j in range(len(own))]
            for i, pe in enumerate(parts):
                f.write('printf("%s%%ld", %s);\n' % ("," if i else "", pe))
            f.write('printf("]}\\n"); }\n')
        f.write("return 0; }\n")
    exe = os.path.join(w, "probe")
    p = subprocess.run(["clang++", "-std=c++11", "-w", "-o", exe, src], stdout=subprocess.PIPE, stderr=subprocess.STDOUT, text=True)
    if p.returncode != 0:
        raise C.ToolError("clang++ probe failed: " + p.stdout[-1200:])
    cl = {}
    for line in subprocess.run([exe], stdout=subprocess.PIPE, text=True).stdout.splitlines():
        v = json.loads(line)
        cl[v["n"]] = v
    checked = 0
    for tag, flags in (("plain", []), ("explicit", ["--explicit-padding"])):
        out = os.path.join(w, "b-%s.rs" % tag)
        p = subprocess.run([C.BINDGEN, hp, "--no-layout-tests", "-o", out] + flags, stdout=subprocess.PIPE, stderr=subprocess.PIPE, text=True, timeout=900)
        if p.returncode != 0:
            res.violation("bindgen-failed-on-generated-classes:" + tag, {"stderr": p.stderr[-1200:]})
            continue
        with open(out) as f:
            text = f.read()
        rs = os.path.join(w, "r-%s.rs" % tag)
        with open(rs, "w") as f:
            f.write("#![allow(warnings)]\npub mod b {\n%s\n}\nfn main() {\n" % text)
            for k, (bases, own) in enumerate(cases):
                names = ["_base"] + ["_base_%d" % b for b in range(1, len(bases))] + ["m%d" % j for j in range(len(own))]
                offs = ",".join("::std::mem::offset_of!(b::D%03d, %s)" % (k, nm) for nm in names)
                f.write('{ let o: Vec<usize> = vec![%s]; println!("{{\\"n\\":\\"D%03d\\",\\"size\\":{},\\"align\\":{},\\"offsets\\":{:?}}}", ::std::mem::size_of::<b::D%03d>(), ::std::mem::align_of::<b::D%03d>(), o); }\n'
                        % (offs, k, k, k))
            f.write("}\n")
        exe2 = os.path.join(w, "r-" + tag)
        p = subprocess.run(["rustc", "--edition", "2021", "-o", exe2, rs], stdout=subprocess.PIPE, stderr=subprocess.STDOUT, text=True)
        if p.returncode != 0:
            bad = sorted(set(re.findall(r"\b(D\d{3})\b", p.stdout)))
            res.violation("class-bindings-rejected-by-rustc:%s" % tag, {"names": bad[:8], "rustc": p.stdout[-1200:]})
            continue
        for line in subprocess.run([exe2], stdout=subprocess.PIPE, text=True).stdout.splitlines():
            v = json.loads(line)
            c = cl[v["n"]]
            checked += 1
            diff = [x for x in ("size", "align", "offsets") if c[x] != v[x]]
            if diff:
                k = int(v["n"][1:])
                res.violation("class-layout:%s:bases=%d:own=%d:%s" % (tag, len(cases[k][0]), len(cases[k][1]), "+".join(diff)),
                              {"class": v["n"], "clang": c, "rust": v, "flags": flags})
    res.add(traces_validated_against_impl=checked, cxx_classes_replayed=checked)


def trace_corpus(res, tier):
    cases = C.corpus_cases()
    sel = C.sample(cases, None if tier == "thorough" else 200, "c02-t")
    d, out = C.run_cases_logged(sel, "c02-corpus")
    ok = [c for c in sel if out.get(c["id"], {}).get("outcome") == "ok"]
    invs = C.inventory([os.path.join(d, c["id"] + ".rs") for c in ok])
    trace = os.path.join(C.workdir("c02-trace"), "t.ndjson")
    n = skipped = 0
    with open(trace, "w") as o:
        for c in ok:
            comps = []
            with open(os.path.join(d, c["id"] + ".ndjson")) as f:
                for line in f:
                    if line.startswith('{"ev":"comp"'):
                        comps.append(json.loads(line))
            recs, sk = rustfields.abstract_records(c["id"], comps, invs.get(os.path.join(d, c["id"] + ".rs"), {}))
            skipped += sk
            for r in recs:
                o.write(json.dumps(r) + "\n")
                n += 1
    if n == 0:
        raise C.ToolError("no composite could be abstracted from the corpus")
    r = C.tlc(os.path.join(LAY, "Trace_Layout.tla"), cfg="Trace_Layout.cfg", env={"TRACE": trace}, workers=1,
              dfs=True, timeout=3000, name="c02-tv")
    if not C.tlc_ok(r):
        raise C.ToolError("Trace_Layout did not complete: " + r["out"][-1500:])
    for v in (C.tlc_prints(r["out"], "VIOL") or [[]])[0]:
        res.violation("corpus-layout:%s:%s" % (v["what"], v["case"]), v)
    res.add(traces_validated_against_impl=n, corpus_composites_validated=n, corpus_composites_skipped=skipped,
            trace_states=r["distinct"])
    os.remove(trace)


def run(res, tier):
    res.assumptions += [
        "clang 14 on x86_64-unknown-linux-gnu is the C compiler of the property; CLayout.tla must agree with it on every replayed declaration (else tool error)",
        "long double members are compared for layout only (bindgen maps them to u128)",
        "unions: value round trip through the first member only",
    ]
    C.build()
    model(res, tier)
    decls = generate(res, tier)
    base = replay(res, tier, decls, tag="base")
    for d in decls[:3]:
        res.sample_case({"decl": LP.c_decl("S", d), "predicted": d["layout"]})
    # presentation options must not change any number
    sub = decls[:: max(1, len(decls) // (600 if tier == "thorough" else 250))]
    nopt = len(PRESENTATION) if tier == "thorough" else 2
    for k, flags in enumerate(PRESENTATION[:nopt]):
        alt = replay(res, tier, sub, flags=flags, tag="opt%d" % k, values=False)
        for key, r in alt.items():
            b = base.get(key)
            dk = json.loads(key)
            # classes whose layout is a recorded finding already (the base run reports them against C): the two
            # runs can be wrong in different ways, which says nothing about the presentation option
            if ((dk["pack"] > 0 or dk["packed"]) and (over16(dk) or dk["aligned"] > 0 or dk["malign"] > 0)):
                continue
            if b and any(b[x] != r[x] for x in ("size", "align", "offsets")):
                res.violation("presentation-option-changes-layout:%s" % flags[0],
                              {"decl": key, "base": b, "with_option": r, "flags": flags})
    res.add(presentation_option_sets=nopt)
    replay_cxx(res, tier, decls)
    # structs with bit-fields: TrackerBits.tla (L2 with allocation units) model-checked and replayed
    import c02_bits
    c02_bits.run(res, tier)
    # C++ classes with a vtable pointer and bases: TrackerCxx.tla, clang as the environment of the model
    c02_bits.cxx_classes(res, tier)
    # members libclang reports no offset for (anonymous structs), under every attribute class
    c02_bits.anon_members(res, tier, decls, attr_class,
                          lambda d: (d["pack"] > 0 and over16(d)) or
                          ((d["pack"] > 0 or d["packed"]) and (d["aligned"] > 0 or d["malign"] > 0)))
    trace_corpus(res, tier)
    res.cov["exhaustive"] = False
