"""C05 - constants carry the C compiler's value in a type that can hold it.

model : spec/back/MC_Consts.tla (+Consts.tla): macro table machine over every directive sequence, Kind over the
        threshold regions x options, enum styles, const variables; sensitivity configs; the three configurations in
        which the implementation-shaped model (L2) does not meet the reference (L1) are *expected* to fail and their
        counterexamples are replayed on the real code (they are the model-level form of the known findings).
R     : TLC-generated behaviours rendered to headers - typed macro expressions (Gen_MacroExpr), macro tables
        (#define/#undef/re-#define programs, MC_Consts PrintPrograms), enums (Gen_Enum), const variables -
        run through the real bindgen under the option sets; C value from a clang-built probe, Rust value/type from a
        rustc-built probe generated from the syn inventory.
T     : the same observation for every macro / enumerator / initialised variable of repository headers.
judge : Trace_Consts.tla over the NDJSON of observations (one line per bindgen run).
"""
import concurrent.futures as cf
import json
import os
import re
import shutil
import struct
import subprocess

import common as C
import c05_gen as G
import c05_probe as P

LEVEL = "model_checking"
BACK = os.path.join(C.SPEC, "back")
MC_PASS = {"quick": ["MC_Consts_q.cfg", "MC_Consts_shape_q.cfg"],
           "thorough": ["MC_Consts_t.cfg", "MC_Consts_shape_t.cfg"]}
# L2 does not meet L1: TLC must find these; the counterexamples are replayed on the real bindgen below
MC_KNOWN = ["MC_Consts_k_channel.cfg", "MC_Consts_k_redef.cfg", "MC_Consts_k_redef_atdef.cfg",
            "MC_Consts_k_rawexpansion.cfg"]
SENSITIVITY = ["MC_Consts_x_u32cut.cfg", "MC_Consts_x_i32min.cfg", "MC_Consts_x_fit_i8.cfg", "MC_Consts_x_enumSigned.cfg",
               "MC_Consts_x_translateRow.cfg", "MC_Consts_x_varPrint.cfg", "MC_Consts_x_addDropped.cfg"]
BASE = ["bindgen", "--formatter=prettyplease", "--disable-header-comment"]
MACRO_OPTS = [("u", [], {"signed": False, "fit": False, "fallback": False}),
              ("s", ["--default-macro-constant-type", "signed"], {"signed": True, "fit": False, "fallback": False}),
              ("uf", ["--fit-macro-constant-types"], {"signed": False, "fit": True, "fallback": False}),
              ("sf", ["--default-macro-constant-type", "signed", "--fit-macro-constant-types"],
               {"signed": True, "fit": True, "fallback": False}),
              ("fb", ["--clang-macro-fallback"], {"signed": False, "fit": False, "fallback": True})]
ENUM_STYLES = [("consts", ["--constified-enum", ".*"]), ("moduleconsts", ["--constified-enum-module", ".*"]),
               ("newtype", ["--newtype-enum", ".*"]), ("bitfield", ["--bitfield-enum", ".*"]),
               ("rust", ["--rustified-enum", ".*"])]
NOOPTS = {"signed": False, "fit": False, "fallback": False}


def tlc_back(module, cfg, name, **kw):
    return C.tlc(os.path.join(BACK, module), cfg=os.path.join("consts", cfg), name="c05-" + name, **kw)


# =============================================================================================
# model
# =============================================================================================
def model(res, tier):
    plan = [(c, "pass", 4) for c in MC_PASS[tier]] + [(c, "known", 1) for c in MC_KNOWN] + [(c, "sens", 1) for c in SENSITIVITY]
    with cf.ThreadPoolExecutor(max_workers=5) as ex:
        futs = [(c, k, ex.submit(tlc_back, "MC_Consts.tla", c, c, workers=w, timeout=900)) for c, k, w in plan]
        done = [(c, k, f.result()) for c, k, f in futs]
    st = tr = 0
    cex = {}
    for cfg, kind, r in done:
        if kind == "pass":
            if not C.tlc_ok(r):
                # the spec is fixed: a failure here is a defect of the model, not of the code
                raise C.ToolError("model %s failed: %s" % (cfg, r["out"][-1500:]))
        elif kind == "known":
            found = C.tlc_prints(r["out"], "CEX")
            if "is violated" not in r["out"] or not found:
                # the implementation-shaped model no longer shows the defect: the model is out of date
                res.drift.append("model configuration %s no longer yields its counterexample" % cfg)
            cex[cfg] = found
        else:
            # a guarded mechanism removed => TLC must object, or the model guards nothing
            if "is violated" not in r["out"]:
                raise C.ToolError("sensitivity config %s did not fail" % cfg)
        if kind != "sens":
            st += r["distinct"]
            tr += r["generated"]
    res.add(states=st, transitions=tr, model_configs=len(MC_PASS[tier]) + len(MC_KNOWN),
            sensitivity_configs_failing_as_expected=len(SENSITIVITY),
            model_level_counterexamples={k: len(v) for k, v in cex.items()})
    return cex


# =============================================================================================
# running the real bindgen and the probes
# =============================================================================================
def run_bindgen(jobs, name):
    """jobs: [{"id", "args", "out", "callbacks"}] -> {id: result}; a job that takes the driver process down is
    re-run alone so that one crashing header does not hide the others."""
    out = C.run_jobs([dict(j, log=None, detail=0, schedule=None, write=False) for j in jobs], threads=12, name=name)
    crashed = [j for j in jobs if str(out.get(j["id"], {}).get("outcome", "crash")).startswith("crash")]
    for j in crashed:
        o = C.run_jobs([dict(j, log=None, detail=0, schedule=None, write=False)], threads=1, name=name + "-solo")
        out[j["id"]] = o.get(j["id"], {"id": j["id"], "outcome": "crash", "msg": ""})
    return out


def float_equal(c, r):
    if r.get("kind") != "float":
        return False
    nan_c = (c["dbits"] & 0x7ff0000000000000) == 0x7ff0000000000000 and (c["dbits"] & 0xfffffffffffff) != 0
    nan_r = (r["dbits"] & 0x7ff0000000000000) == 0x7ff0000000000000 and (r["dbits"] & 0xfffffffffffff) != 0
    if nan_c or nan_r:
        return nan_c and nan_r
    # a long double is compared after rounding to double (Rust has no wider type)
    return c["dbits"] == r["dbits"]


def observe(cls, name, c, r, rejected=None, pred="na", kindcheck=False, charlit=False, ctype_override=None):
    """One observation record for Trace_Consts (the harness measures, TLC judges)."""
    o = {"cls": cls, "name": name, "emitted": False, "cdef": False, "ckind": "none", "creg": 14, "cw": 0, "cs": False,
         "rkind": "none", "rreg": 14, "rw": 0, "rs": False, "equal": False, "pred": pred, "kindcheck": kindcheck}
    if c is not None and c.get("kind") in ("int", "float", "str", "wstr"):
        o["cdef"] = True
        o["ckind"] = c["kind"]
        if c["kind"] == "int":
            o["ckind"] = "char" if charlit else "int"
            o["creg"] = P.region(c["value"])
            o["cw"], o["cs"] = c["width"] * 8, c["signed"]
        elif c["kind"] == "float":
            o["cw"], o["cs"] = c["width"] * 8, True
    elif c is not None and c.get("kind") == "other":
        o["ckind"] = "other"
    if ctype_override:
        o["cw"], o["cs"] = ctype_override
    if rejected is not None:
        o["emitted"] = True
        o["rkind"] = "rejected"
    elif r is not None:
        o["emitted"] = True
        o["rkind"] = r["kind"]
        o["rw"], o["rs"] = r["width"] * 8, r["signed"]
        if r["kind"] in ("int", "bool"):
            o["rreg"] = P.region(r["value"])
    if o["emitted"] and o["cdef"] and r is not None:
        if c["kind"] == "int":
            o["equal"] = r["kind"] in ("int", "bool") and r["value"] == c["value"]
        elif c["kind"] == "float":
            o["equal"] = float_equal(c, r)
        elif c["kind"] == "str":
            o["equal"] = r["kind"] in ("bytes", "cstr") and r["bytes"] == c["bytes"]
    return o


class Runs:
    """Collects the lines of the trace and the side information used to word violation keys."""

    def __init__(self):
        self.lines = []
        self.info = {}      # (case, name) -> dict(form, text, c, r, model)

    def add(self, case, opts, obs):
        self.lines.append({"case": case, "opts": opts, "obs": obs})

    def note(self, case, name, **kw):
        self.info[(case, name)] = kw


def probe_pair(d, tag, header, lang, clang_args, subjects, bindings, ub_strict=True):
    """C probe of `subjects` + Rust probe of every bindings file of `bindings` ({opt tag: path}); in parallel."""
    paths = [p for p in bindings.values() if os.path.exists(p)]
    invs = C.inventory(paths) if paths else {}
    with cf.ThreadPoolExecutor(max_workers=12) as ex:
        fc = ex.submit(P.c_probe, d, header, lang, clang_args, subjects, tag, ub_strict)
        fr = {t: ex.submit(P.rust_probe, d, p, invs.get(p, {"items": []}), tag + "_" + t)
              for t, p in bindings.items() if os.path.exists(p) and invs.get(p, {}).get("ok")}
        cvals, crej = fc.result()
        rust = {t: f.result() for t, f in fr.items()}
    return cvals, crej, rust, invs


# =============================================================================================
# R1: macro expressions
# =============================================================================================
def gen_exprs(tier):
    recs, st, tr = [], 0, 0
    plan = [("Gen_MacroExpr_d0.cfg", None)]
    if tier == "thorough":
        plan += [("Gen_MacroExpr_d1.cfg", 300), ("Gen_MacroExpr_d2.cfg", 700), ("Gen_MacroExpr_d3.cfg", 900)]
    else:
        plan += [("Gen_MacroExpr_d1.cfg", 12), ("Gen_MacroExpr_d2.cfg", 36)]
    for i, (cfg, sim) in enumerate(plan):
        kw = {}
        if sim:
            kw = {"simulate": sim, "depth": 120, "extra": ["-seed", str(C.seed() * 101 + 17 + i)]}
        r = tlc_back("Gen_MacroExpr.tla", cfg, cfg, workers=1 if sim else 4, timeout=900, **kw)
        if sim:
            if "Error:" in r["out"] or "is violated" in r["out"]:
                raise C.ToolError("Gen_MacroExpr %s failed: %s" % (cfg, r["out"][-1200:]))
            m = re.search(r"The number of states generated: (\d+)", r["out"])
            n = int(m.group(1)) if m else 0
            st += n
            tr += n
        else:
            if not C.tlc_ok(r):
                raise C.ToolError("Gen_MacroExpr %s failed: %s" % (cfg, r["out"][-1200:]))
            st += r["distinct"]
            tr += r["generated"]
        recs += C.tlc_prints(r["out"], "EXPR")
    # every depth-1 integer expression over all magnitudes (decimal, unsuffixed): the unary forms - casts to every
    # builtin type, unary operators, sizeof, parentheses - are all kept (it is the operand's magnitude against
    # the cast's width that matters), the binary / ternary forms are sampled
    r = tlc_back("Gen_MacroExpr.tla", "Gen_MacroExpr_d1int.cfg", "Gen_MacroExpr_d1int.cfg", workers=4, timeout=900)
    if not C.tlc_ok(r):
        raise C.ToolError("Gen_MacroExpr d1int failed: " + r["out"][-1200:])
    st += r["distinct"]
    tr += r["generated"]
    d1 = C.tlc_prints(r["out"], "EXPR")
    d1.sort(key=json.dumps)
    unary = [e for e in d1 if e["seq"][0][0] not in ("bin", "tern", "int", "chr")]
    rest = [e for e in d1 if e["seq"][0][0] in ("bin", "tern")]
    import random
    rnd = random.Random(C.seed() * 7 + 5)
    seen = {json.dumps(e["seq"]) for e in recs}
    recs += [e for e in unary + rnd.sample(rest, min(len(rest), 3000 if tier == "thorough" else 300))
             if json.dumps(e["seq"]) not in seen]
    return recs, st, tr


def expr_key(v, info):
    ck = v["ckind"]
    c, r = info.get("c") or {}, info.get("r") or {}
    if ck in ("int", "char"):
        cty = P.kind_name(v["cw"] // 8, v["cs"])
        rty = P.kind_name(v["rw"] // 8, v["rs"]) if v["rkind"] in ("int", "bool") else v["rkind"]
        why = "n/a"
        if "value" in v["failed"] and "value" in c and "value" in r:
            if G.wrap64(c["value"]) == r["value"]:
                why = "bitcast64"
            elif info.get("model") is not None and info.get("model") == r["value"]:
                why = "untyped-i64-arith"
            else:
                why = "unexplained"
        return "%s:%s:c=%s@%s:rust=%s@%s:%s:%s:form=%s" % (v["cls"], ck, cty, v["creg"], rty, v["rreg"],
                                                          "+".join(v["failed"]), why, info.get("form", "corpus"))
    if ck == "float":
        cty = {"float": "f32", "double": "f64", "long double": "f80"}.get(c.get("ctype"), "f?")
        rty = ("f%d" % v["rw"]) if v["rkind"] == "float" else v["rkind"]
        why = "n/a"
        if "value" in v["failed"] and "dbits" in r:
            m = info.get("model")
            rv = struct.unpack("<d", struct.pack("<Q", r["dbits"]))[0]
            try:
                as_f32 = struct.unpack("<I", struct.pack("<f", rv))[0]
            except OverflowError:
                as_f32 = None
            if c.get("ctype") == "float" and as_f32 == c.get("bits"):
                why = "f32-rounding-skipped"         # the double bindgen emits rounds to C's float value
            elif isinstance(m, float) and struct.pack("<d", m) == struct.pack("<Q", r["dbits"]):
                why = "untyped-f64-i64-arith"
            elif isinstance(m, float) and m != m and (r["dbits"] & 0x7ff0000000000000) == 0x7ff0000000000000:
                why = "untyped-f64-i64-arith"
            else:
                why = "unexplained"
        return "%s:float:c=%s:rust=%s:%s:%s:form=%s" % (v["cls"], cty, rty, "+".join(v["failed"]), why, info.get("form", "corpus"))
    return "%s:%s:c=%s:rust=%s:%s:form=%s" % (v["cls"], ck, c.get("ctype", "?"), v["rkind"], "+".join(v["failed"]),
                                             info.get("form", "corpus"))


def r_exprs(res, tier, runs):
    recs, st, tr = gen_exprs(tier)
    res.add(states=st, transitions=tr, expressions_generated_by_tlc=len(recs))
    # deterministic order, unique
    uniq = {}
    for r in recs:
        uniq.setdefault(json.dumps(r["seq"]), r)
    recs = [uniq[k] for k in sorted(uniq)]
    d = C.workdir("c05-exprs")
    chunk = 1500
    headers = []
    total = 0
    for ci in range(0, len(recs), chunk):
        eh = G.ExprHeader(C.seed() * 7919 + ci)
        for r in recs[ci:ci + chunk]:
            eh.add(r)
        hp = os.path.join(d, "exprs_%03d.h" % (ci // chunk))
        with open(hp, "w") as f:
            f.write(eh.text())
        headers.append((hp, eh))
        total += len(eh.macros)
    jobs = []
    for hp, eh in headers:
        stem = os.path.splitext(os.path.basename(hp))[0]
        for tag, flags, _ in MACRO_OPTS:
            fl = list(flags)
            if tag == "fb":
                fbd = os.path.join(d, stem + "_fb")
                os.makedirs(fbd, exist_ok=True)
                fl += ["--clang-macro-fallback-build-dir", fbd]
            jobs.append({"id": "%s:%s" % (stem, tag), "args": BASE + [hp] + fl, "out": os.path.join(d, "%s_%s.rs" % (stem, tag)),
                         "callbacks": None})
    out = run_bindgen(jobs, "c05-exprs-run")
    nruns = 0
    type_mismatch = []
    stats = {"c_no_value": 0, "emitted": 0, "compared": 0}
    for hp, eh in headers:
        stem = os.path.splitext(os.path.basename(hp))[0]
        bind = {}
        for tag, _, _ in MACRO_OPTS:
            o = out.get("%s:%s" % (stem, tag), {})
            if o.get("outcome") == "ok":
                bind[tag] = os.path.join(d, "%s_%s.rs" % (stem, tag))
            else:
                res.notes.append("bindgen did not produce bindings for generated header %s under %s: %s %s"
                                 % (stem, tag, o.get("outcome"), str(o.get("msg"))[:200]))
        subjects = [{"id": m["name"], "expr": m["name"]} for m in eh.macros]
        cvals, crej, rust, _ = probe_pair(d, stem, hp, "c", [], subjects, bind)
        if cvals is None:
            raise C.ToolError("C probe failed on generated header %s: %s" % (stem, crej))
        stats["c_no_value"] += len(crej)
        # the typing rules of the spec against clang (spec != environment is a model error)
        for m in eh.macros:
            c = cvals.get(m["name"])
            p = m["pred"]
            if c and c["kind"] == "int" and p["rcls"] in ("I", "C") and (c["width"] * 8, c["signed"]) != (p["w"], p["s"]):
                type_mismatch.append((m["text"], (p["w"], p["s"]), (c["ctype"], c["width"] * 8, c["signed"])))
            if c and {"I": "int", "C": "int", "F": "float", "S": "str"}[p["rcls"]] != c["kind"] and not (p["rcls"] == "S" and c["kind"] == "wstr"):
                type_mismatch.append((m["text"], p["rcls"], c["kind"]))
        for tag, _, opts in MACRO_OPTS:
            if tag not in rust:
                continue
            vals, types, rrej, skipped, err = rust[tag]
            if vals is None:
                raise C.ToolError("Rust probe failed on bindings of generated header %s/%s: %s" % (stem, tag, err))
            obs = []
            case = "%s:%s" % (stem, tag)
            for m in eh.macros:
                c = cvals.get(m["name"])
                r = vals.get(m["name"])
                o = observe("macro", m["name"], c, r, rejected=rrej.get(m["name"]),
                            pred="yes" if m["pred"]["supported"] else "no", kindcheck=m["pred"]["rcls"] == "I",
                            charlit=m["pred"]["rcls"] == "C")
                obs.append(o)
                if o["emitted"]:
                    stats["emitted"] += 1
                    stats["compared"] += 1 if o["cdef"] else 0
                    runs.note(case, m["name"], form=m["form"], text=m["text"], c=c, r=r, model=m["model"],
                              rejected=rrej.get(m["name"]))
            runs.add(case, opts, obs)
            nruns += 1
        for tag in bind:
            os.remove(bind[tag])
    if type_mismatch:
        raise C.ToolError("typing rules of Gen_MacroExpr disagree with clang on %d expression(s), e.g. %s"
                          % (len(type_mismatch), type_mismatch[:5]))
    res.add(traces_validated_against_impl=nruns, macro_expressions_rendered=total,
            macro_expression_observations=stats["emitted"], macro_expressions_without_defined_c_value=stats["c_no_value"])
    hp, eh = headers[0]
    for m in eh.macros[5:600:200]:
        res.sample_case({"macro_body": m["text"], "predicted": {k: m["pred"][k] for k in ("supported", "rcls", "w", "s")}})


def crash_value(res, d, j):
    import re
    import subprocess
    hp = j["args"][-1]
    p = subprocess.run([C.BINDGEN, "--formatter=none", "--disable-header-comment", hp], stdout=subprocess.PIPE,
                       stderr=subprocess.PIPE, stdin=subprocess.DEVNULL, text=True, timeout=120)
    m = re.search(r"pub\s+const\s+C05_CRASH\s*:\s*([\w:\s]+?)\s*=\s*(-?\s*\d+)\s*(?:[iu]\d+|usize|isize)?\s*;", p.stdout)
    if p.returncode != 0 or not m:
        return          # nothing emitted for it: nothing to judge
    got = int(m.group(2).replace(" ", ""))
    cf = os.path.join(d, j["id"] + ".c")
    with open(cf, "w") as f:
        f.write('#include <stdio.h>\n#include "%s"\nint main(void) { printf("%%lld\\n", (long long)(C05_CRASH)); return 0; }\n' % hp)
    exe = os.path.join(d, j["id"] + ".exe")
    pc = subprocess.run(["clang", "-w", "-o", exe, cf], stdout=subprocess.PIPE, stderr=subprocess.PIPE, text=True)
    if pc.returncode != 0:
        return          # not a constant expression for C either
    want = int(subprocess.run([exe], stdout=subprocess.PIPE, text=True, timeout=30).stdout.strip())
    res.add(wide_char_macros_compared=1)
    if got != want:
        res.violation("macro-char-literal:wrong-value:%s" % ("wide" if j["body"].lstrip("(")[0] in "LuU" else "plain"),
                      {"body": j["body"], "rust_type": m.group(1).strip(), "rust_value": got, "c_value": want})


def r_crashers(res, runs):
    """Macro bodies on which the evaluator model predicts a panic (division by zero, wide characters that do not fit a
    byte).  A crash is not a C05 predicate: recorded as notes for C12, never a verdict here."""
    d = C.workdir("c05-crash")
    jobs = []
    for i, body in enumerate(["(1/0)", "(1%0)", "L'\\x1234'", "L'\\u00e9'", "u'\\x20ac'", "U'\\x1f600'", "L'\\xff'", "u'\\xff'",
                              "L'a'", "(L'\\x1234' + 1)"]):
        hp = os.path.join(d, "crash%d.h" % i)
        with open(hp, "w") as f:
            f.write("#define C05_CRASH %s\n#define C05_AFTER 1\n" % body)
        jobs.append({"id": "crash%d" % i, "args": BASE + [hp], "out": os.path.join(d, "crash%d.rs" % i), "callbacks": None,
                     "body": body})
    n = 0
    for j in jobs:
        o = C.run_jobs([dict(id=j["id"], args=j["args"], out=j["out"], callbacks=None, log=None, detail=0, schedule=None,
                             write=False)], threads=1, name="c05-crash-run")
        oc = o.get(j["id"], {}).get("outcome", "crash")
        if oc != "ok":
            n += 1
            res.notes.append("bindgen %s on `#define X %s` (macro evaluator; a C12 matter, no constant is emitted)"
                             % (oc, j["body"]))
        elif "'" in j["body"]:
            # generation went through: whatever constant stands there must carry the C compiler's value
            crash_value(res, d, j)
    res.add(macro_bodies_crashing_bindgen=n)


# =============================================================================================
# R2: macro tables
# =============================================================================================
def r_table(res, tier, runs, cex):
    cfg = "Gen_MacroTable_t.cfg" if tier == "thorough" else "Gen_MacroTable_q.cfg"
    r = tlc_back("MC_Consts.tla", cfg, cfg, workers=4, timeout=900)
    if not C.tlc_ok(r):
        raise C.ToolError("Gen_MacroTable failed: %s" % r["out"][-1200:])
    progs = C.tlc_prints(r["out"], "PROG")
    res.add(states=r["distinct"], transitions=r["generated"], macro_table_programs_enumerated=len(progs))
    # model-level counterexamples first, then every maximal program plus a sample of the others
    chosen = []
    for cfgname in ("MC_Consts_k_redef.cfg", "MC_Consts_k_redef_atdef.cfg", "MC_Consts_k_rawexpansion.cfg"):
        chosen += [dict(p, origin=cfgname) for p in cex.get(cfgname, [])[:6]]
    progs.sort(key=lambda p: json.dumps(p["prog"], sort_keys=True))
    limit = 2500 if tier == "thorough" else 500
    with_mis = [p for p in progs if isinstance(p["mismatch"], dict) and p["mismatch"]]
    without = [p for p in progs if not (isinstance(p["mismatch"], dict) and p["mismatch"])]
    chosen += C.sample(with_mis, limit // 2, "c05-table-a") + C.sample(without, limit // 2, "c05-table-b")
    d = C.workdir("c05-table")
    hp = os.path.join(d, "table.h")
    lines = []
    for i, p in enumerate(chosen):
        p["prefix"] = "T%04d_" % i
        lines += G.table_header(p["prog"], p["prefix"])
    with open(hp, "w") as f:
        f.write("\n".join(lines) + "\n")
    out_rs = os.path.join(d, "table.rs")
    o = run_bindgen([{"id": "table", "args": BASE + [hp], "out": out_rs, "callbacks": None}], "c05-table-run")
    if o.get("table", {}).get("outcome") != "ok":
        raise C.ToolError("bindgen failed on the generated macro-table header: %s" % o.get("table"))
    names = sorted({d_["n"] for p in chosen for d_ in p["prog"]} | {"A", "B", "C"})
    subjects = [{"id": p["prefix"] + n, "expr": p["prefix"] + n} for p in chosen for n in p["emitted"]]
    cvals, crej, rust, _ = probe_pair(d, "table", hp, "c", [], subjects, {"u": out_rs})
    if cvals is None or "u" not in rust or rust["u"][0] is None:
        raise C.ToolError("probe failed on the macro-table header: %s %s" % (crej, rust.get("u", [None] * 5)[4]))
    vals = rust["u"][0]
    obs = []
    env_mismatch = []
    pred_mismatch = 0
    for p in chosen:
        for n in p["emitted"]:
            full = p["prefix"] + n
            c = cvals.get(full)
            rv = vals.get(full)
            # L1 of the spec against clang: the end-of-header value
            want = p["cend"][n]
            got = c["value"] if c and c["kind"] == "int" else -1
            if want != got:
                env_mismatch.append((G.table_header(p["prog"], ""), n, want, got))
            # L2 of the spec against bindgen: the emitted table (shape -> drift)
            pe = p["emitted"][n]
            ge = rv["value"] if rv else -1
            if pe != ge:
                pred_mismatch += 1
                res.drift.append("macro table model predicts %s=%s, bindgen emitted %s for %s"
                                 % (n, pe, ge, " / ".join(G.table_header(p["prog"], ""))))
            o_ = observe("macro", full, c, rv, pred="yes" if pe != -1 else "no", kindcheck=True)
            obs.append(o_)
            why = p["mismatch"].get(n) if isinstance(p["mismatch"], dict) else None
            runs.note("table", full, form="table", table_why=why or "unpredicted", c=c, r=rv, model=None,
                      text=" / ".join(G.table_header(p["prog"], "")))
    if env_mismatch:
        raise C.ToolError("macro-table reference semantics (CVal) disagree with clang: %s" % env_mismatch[:3])
    runs.add("table", NOOPTS, obs)
    res.add(traces_validated_against_impl=1, macro_table_programs_replayed=len(chosen),
            macro_table_names_observed=len(obs), macro_table_model_mismatches=pred_mismatch)
    res.sample_case({"macro_table_program": G.table_header(chosen[0]["prog"], ""), "predicted_emitted": chosen[0]["emitted"],
                     "c_end_of_header": chosen[0]["cend"]})
    os.remove(out_rs)


# =============================================================================================
# R3: enums
# =============================================================================================
def enum_rust_names(style, prepend, ename, vname):
    if style == "consts":
        return [(ename + "_" + vname) if prepend else vname]
    return [ename + "::" + vname]


def enum_type_name(style, ename):
    return ename + "::Type" if style == "moduleconsts" else ename


def r_enums(res, tier, runs):
    cfg = "Gen_Enum_3.cfg" if tier == "thorough" else "Gen_Enum_2.cfg"
    r = tlc_back("Gen_Enum.tla", cfg, cfg, workers=4, timeout=900)
    if not C.tlc_ok(r):
        raise C.ToolError("Gen_Enum failed: %s" % r["out"][-1200:])
    decls = C.tlc_prints(r["out"], "ENUM")
    res.add(states=r["distinct"], transitions=r["generated"], enum_declarations_enumerated=len(decls))
    decls.sort(key=lambda x: json.dumps(x, sort_keys=True))
    decls = C.sample(decls, 1500 if tier == "thorough" else 260, "c05-enum")
    d = C.workdir("c05-enums")
    groups = {"c": [], "c++": []}
    for i, e in enumerate(decls):
        name = "E%04d" % i
        text, vnames, vals = G.enum_decl(e, name)
        ent = {"name": name, "text": text, "vnames": vnames, "vals": vals, "rec": e}
        groups["c++"].append(ent)
        if e["fixed"]["w"] == 0 and e["form"] == "plain":
            ent2 = dict(ent, name="C" + name)
            t2, vn2, _ = G.enum_decl(e, ent2["name"])
            ent2.update(text=t2, vnames=vn2)
            groups["c"].append(ent2)
    variants = []
    for style, flags in ENUM_STYLES:
        for translate in (False, True):
            for prepend in (True, False):
                if tier == "quick" and translate and not prepend and style not in ("consts", "rust"):
                    continue
                fl = list(flags) + (["--translate-enum-integer-types"] if translate else []) + \
                    ([] if prepend else ["--no-prepend-enum-name"])
                variants.append(("%s%s%s" % (style, "_tr" if translate else "", "" if prepend else "_np"), style, translate,
                                 prepend, fl))
    nruns = nobs = 0
    env = []
    for lang, ents in groups.items():
        if not ents:
            continue
        hp = os.path.join(d, "enums.hpp" if lang == "c++" else "enums.h")
        with open(hp, "w") as f:
            f.write("\n".join(e["text"] for e in ents) + "\n")
        cargs = ["-std=c++14"] if lang == "c++" else []
        jobs = [{"id": "%s:%s" % (lang, v[0]), "args": BASE + [hp] + v[4] + ["--"] + (["-x", "c++"] + cargs if lang == "c++" else []),
                 "out": os.path.join(d, "enums_%s_%s.rs" % (lang.replace("+", "p"), v[0])), "callbacks": None} for v in variants]
        out = run_bindgen(jobs, "c05-enums-run")
        bind = {}
        for j, v in zip(jobs, variants):
            if out.get(j["id"], {}).get("outcome") == "ok":
                bind[v[0]] = j["out"]
            else:
                raise C.ToolError("bindgen failed on the generated enum header (%s, %s): %s" % (lang, v[0], out.get(j["id"])))
        subjects = []
        for e in ents:
            scope = (e["name"] + "::") if e["rec"]["form"] == "class" else ""
            for vn in e["vnames"]:
                subjects.append({"id": vn, "expr": scope + vn})
            subjects.append({"id": "ty:" + e["name"], "type": ("enum " if lang == "c" else "") + e["name"]})
        cvals, crej, rust, _ = probe_pair(d, "enums_" + lang.replace("+", "p"), hp, lang, cargs, subjects, bind, ub_strict=False)
        if cvals is None or crej:
            raise C.ToolError("C probe failed on the generated enum header (%s): %s" % (lang, str(crej)[:600]))
        # L1 of the spec against clang: values and underlying type
        for e in ents:
            ty = cvals.get("ty:" + e["name"])
            u = e["rec"]["under"]
            if not ty or (ty["width"] * 8, ty["signed"]) != (u["w"], u["s"]):
                env.append((e["text"], "underlying", (u["w"], u["s"]), ty))
            for vn, v in zip(e["vnames"], e["vals"]):
                if cvals.get(vn, {}).get("value") != v:
                    env.append((e["text"], vn, v, cvals.get(vn)))
        for v in variants:
            vals, types, rrej, skipped, err = rust[v[0]]
            if vals is None:
                raise C.ToolError("Rust probe failed on enum bindings (%s, %s): %s" % (lang, v[0], err))
            obs = []
            case = "enums-%s:%s" % (lang, v[0])
            for e in ents:
                cty = cvals["ty:" + e["name"]]
                ct = (cty["width"] * 8, cty["signed"])
                rt = types.get(enum_type_name(v[1], e["name"]))
                ot = observe("enumty", e["name"], None, None, ctype_override=ct)
                ot["cdef"] = True
                if rt:
                    ot.update(emitted=True, rkind="int", rw=rt["width"] * 8, rs=rt["signed"])
                obs.append(ot)
                runs.note(case, e["name"], form="%s/%s" % (e["rec"]["form"], "fixed" if e["rec"]["fixed"]["w"] else "unfixed"),
                          text=e["text"], c=cty, r=rt, model=None)
                for vn in e["vnames"]:
                    rv = None
                    for cand in enum_rust_names(v[1], v[3], e["name"], vn):
                        rv = vals.get(cand) or rv
                    c = dict(cvals[vn])
                    o_ = observe("enumval", vn, c, rv, pred="yes", ctype_override=ct)
                    obs.append(o_)
                    runs.note(case, vn, form="%s/%s" % (e["rec"]["form"], "fixed" if e["rec"]["fixed"]["w"] else "unfixed"),
                              text=e["text"], c=c, r=rv, model=None)
            runs.add(case, NOOPTS, obs)
            nruns += 1
            nobs += len(obs)
        for p in bind.values():
            os.remove(p)
    if env:
        raise C.ToolError("enum reference model (Underlying / values) disagrees with clang on %d item(s): %s" % (len(env), env[:3]))
    res.add(traces_validated_against_impl=nruns, enum_declarations_replayed=len(decls), enum_observations=nobs,
            enum_option_sets=len(variants))
    res.sample_case({"enum": groups["c++"][7]["text"], "predicted_underlying": groups["c++"][7]["rec"]["under"],
                     "option_sets": [v[0] for v in variants][:6]})


# =============================================================================================
# R4: const variables of every scalar type
# =============================================================================================
VAR_INT_TYPES = [("char", 8, True), ("signed char", 8, True), ("unsigned char", 8, False), ("short", 16, True),
                 ("unsigned short", 16, False), ("int", 32, True), ("unsigned int", 32, False), ("long", 64, True),
                 ("unsigned long", 64, False), ("long long", 64, True), ("unsigned long long", 64, False)]


def r_vars(res, tier, runs):
    d = C.workdir("c05-vars")
    nruns = nobs = 0
    for lang in ("c", "c++"):
        lines, names = [], []

        def add(decl, name, non_const=False):
            lines.append(decl)
            names.append((name, non_const))
        k = 0
        types = list(VAR_INT_TYPES)
        if lang == "c++":
            types += [("wchar_t", 32, True), ("char16_t", 16, False), ("char32_t", 32, False)]
        for t, w, s in types:
            lo, hi = (-(1 << (w - 1)), (1 << (w - 1)) - 1) if s else (0, (1 << w) - 1)
            for v in sorted(x for x in {lo, lo + 1, -1 if s else 0, 0, 1, hi - 1, hi, 127, 128, 255, 256} if lo <= x <= hi):
                add("const %s v%d = %s;" % (t, k, G.c_int_text(v)), "v%d" % k)
                k += 1
        add("const %s vb0 = 0;" % ("_Bool" if lang == "c" else "bool"), "vb0")
        add("const %s vb1 = 1;" % ("_Bool" if lang == "c" else "bool"), "vb1")
        for t in ("float", "double", "long double"):
            for j, v in enumerate(["1.5", "0.1", "-0.0", "1e30", "1e-40", "(1.0/3)", "__builtin_inf()", "-__builtin_inf()",
                                   "__builtin_nan(\"\")"]):
                nm = "vf_%s_%d" % (t[0] + t[-1], j)
                add("const %s %s = %s;" % (t, nm, v), nm)
        add('const char vs_arr[] = "ab\\tc";', "vs_arr")
        add('const char *const vs_ptr = "hey\\xff";', "vs_ptr")
        add("const int ve_expr = (1 << 4) | 3;", "ve_expr")
        add("const unsigned int ve_neg = -1;", "ve_neg")
        add("const unsigned long long ve_max = ~0ULL;", "ve_max")
        add("static const long long ve_static = -9223372036854775807LL - 1;", "ve_static")
        add("const __int128 v128s = -5;", "v128s")
        add("const unsigned __int128 v128u = 5;", "v128u")
        # bindgen emits initialised non-const globals as constants too (upstream golden issue-1040): observed, noted
        add("int vn_int = 5;", "vn_int", True)
        add("unsigned long long vn_ull = 18446744073709551615ULL;", "vn_ull", True)
        hp = os.path.join(d, "vars.hpp" if lang == "c++" else "vars.h")
        with open(hp, "w") as f:
            f.write("\n".join(lines) + "\n")
        cargs = ["-std=c++14"] if lang == "c++" else []
        out_rs = os.path.join(d, "vars_%s.rs" % lang.replace("+", "p"))
        o = run_bindgen([{"id": "vars", "args": BASE + [hp] + (["--", "-x", "c++"] + cargs if lang == "c++" else []),
                          "out": out_rs, "callbacks": None}], "c05-vars-run")
        if o.get("vars", {}).get("outcome") != "ok":
            raise C.ToolError("bindgen failed on the generated const-variable header: %s" % o.get("vars"))
        subjects = [{"id": n, "expr": n} for n, _ in names]
        cvals, crej, rust, _ = probe_pair(d, "vars_" + lang.replace("+", "p"), hp, lang, cargs, subjects, {"d": out_rs},
                                          ub_strict=False)
        if cvals is None or crej or rust.get("d", [None])[0] is None:
            raise C.ToolError("probe failed on the const-variable header (%s): %s %s" % (lang, str(crej)[:400],
                                                                                         rust.get("d", [None] * 5)[4]))
        vals, types_, rrej, skipped, err = rust["d"]
        obs = []
        case = "vars-" + lang
        for (n, non_const), decl in zip(names, lines):
            rn = n
            o_ = observe("var", n, cvals.get(n), vals.get(rn), rejected=rrej.get(rn))
            obs.append(o_)
            runs.note(case, n, form="var[%s]" % re.sub(r"\s+v\w+ = .*$|\s+v\w+\[\] = .*$", "", decl).replace("const ", "").strip(),
                      text=decl, c=cvals.get(n), r=vals.get(rn), model=None, rejected=rrej.get(rn))
            if non_const and o_["emitted"]:
                res.notes.append("initialised non-const global `%s` is emitted as a Rust const (value equal: %s)" % (decl, o_["equal"]))
        runs.add(case, NOOPTS, obs)
        nruns += 1
        nobs += len(obs)
        os.remove(out_rs)
    res.add(traces_validated_against_impl=nruns, const_variable_observations=nobs)


# =============================================================================================
# T: repository headers
# =============================================================================================
DEFINE = re.compile(r"^#define (\w+) (.*)$")


def final_macros(header, lang, cargs):
    """object-like macros defined at the end of the translation unit, minus the predefined ones"""
    def dm(path):
        p = subprocess.run([P.CLANG, "-x", lang, "-dM", "-E", path] + cargs, stdout=subprocess.PIPE, stderr=subprocess.DEVNULL,
                           text=True, errors="replace")
        out = {}
        for line in p.stdout.splitlines():
            m = DEFINE.match(line)
            if m:
                out[m.group(1)] = m.group(2)
            elif line.startswith("#define ") and "(" not in line.split()[1]:
                out[line.split()[1]] = ""
        return out
    pre = dm("/dev/null")
    return {k: v for k, v in dm(header).items() if k not in pre}


def c_decls(header, lang, cargs):
    """top-level enums (tag or typedef name, enumerators) and initialised variables, from clang's JSON AST"""
    p = subprocess.run([P.CLANG, "-x", lang, "-fsyntax-only", "-Xclang", "-ast-dump=json", "-w", header] + cargs,
                       stdout=subprocess.PIPE, stderr=subprocess.DEVNULL, text=True, errors="replace")
    try:
        ast = json.loads(p.stdout)
    except Exception:
        return [], []
    enums, vars_ = [], []
    pending = None
    # `enum E {...}; typedef int16_t E;` (either order) - the cbindgen idiom (is_enum_typedef_combo): the typedef, not
    # the enum, is the type C code uses; the enum-type predicate does not apply to it
    plain_typedefs = {n.get("name") for n in ast.get("inner", []) if n.get("kind") == "TypedefDecl"
                      and not n.get("type", {}).get("qualType", "").startswith("enum ")}
    for n in ast.get("inner", []):
        k = n.get("kind")
        if n.get("isImplicit"):
            continue
        if k == "EnumDecl":
            ens = [c["name"] for c in n.get("inner", []) if c.get("kind") == "EnumConstantDecl"]
            if not ens:
                continue
            e = {"tag": n.get("name"), "typedef": None, "enumerators": ens, "id": n.get("id"),
                 "combo": n.get("name") in plain_typedefs,
                 "scoped": bool(n.get("scopedEnumTag"))}
            enums.append(e)
            pending = e
        elif k == "TypedefDecl" and pending is not None and pending["tag"] is None:
            # typedef enum { ... } Name;
            inner = json.dumps(n.get("inner", []))
            if pending["id"] in inner:
                pending["typedef"] = n.get("name")
            pending = None
        elif k == "VarDecl" and n.get("init") and n.get("name"):
            vars_.append(n["name"])
        else:
            pending = None
    return enums, vars_


DIRECTIVE = re.compile(r"^\s*#\s*(define|undef)\s+(\w+)")


def directive_table(header):
    """name -> [number of #define, number of #undef] in the header text (conditionals ignored)"""
    t = {}
    try:
        with open(header, errors="replace") as f:
            for line in f:
                m = DIRECTIVE.match(line)
                if m:
                    e = t.setdefault(m.group(2), [0, 0])
                    e[0 if m.group(1) == "define" else 1] += 1
    except OSError:
        pass
    return t


def table_why(name, body, redefs):
    """the macro-table shape a corpus macro is an instance of (same words as MC_Consts' Why)"""
    if redefs.get(name, [0, 0])[0] > 1:
        return "redefined"
    for ident in re.findall(r"[A-Za-z_]\w*", body):
        if redefs.get(ident, [0, 0])[0] > 1 or redefs.get(ident, [0, 0])[1] > 0:
            return "referent-changed-later"
    return None


CHARLIT = re.compile(r"^\(*\s*(L|u8|u|U)?'(\\.[^']*|[^'\\])'\s*\)*$")


def t_corpus(res, tier, runs):
    cases = C.corpus_cases()
    sel = []
    for c in cases:
        args = c["args"]
        clang_args = args[args.index("--") + 1:] if "--" in args else []
        cpp = c["id"].endswith(".hpp") or "c++" in " ".join(clang_args) or any(a.startswith("-std=c++") or a.startswith("-std=gnu++") for a in clang_args)
        if any(a.startswith("--target=") and "x86_64" not in a for a in clang_args):
            continue            # the probes run on this machine
        if "objective-c" in " ".join(clang_args) or "-xobjective-c" in " ".join(clang_args).replace(" ", ""):
            continue
        c = dict(c, lang="c++" if cpp else "c", clang_args=[a for a in clang_args if not a.startswith("--target=")])
        sel.append(c)
    csel = [c for c in sel if c["lang"] == "c"]
    cppsel = [c for c in sel if c["lang"] == "c++"]
    if tier == "quick":
        csel = C.sample(csel, 60, "c05-t-c")
        cppsel = C.sample(cppsel, 30, "c05-t-cpp")
    sel = csel + cppsel
    d = C.workdir("c05-corpus")
    jobs = []
    for c in sel:
        args = [a for a in c["args"] if a != "--formatter=none"]
        args.insert(1, "--formatter=prettyplease")
        jobs.append({"id": c["id"], "args": args, "out": os.path.join(d, c["id"] + ".rs"), "callbacks": c.get("callbacks")})
    out = C.run_jobs([dict(j, log=None, detail=0, schedule=None, write=False) for j in jobs], threads=12, name="c05-corpus-run",
                     cwd=C.TESTS_CWD)
    stats = {"headers": 0, "ok": 0, "c_probe_failed": 0, "rust_probe_failed": 0, "macros": 0, "enumerators": 0, "vars": 0,
             "skipped_consts": 0}

    def one(c):
        if out.get(c["id"], {}).get("outcome") != "ok":
            return c, None, "bindgen:" + str(out.get(c["id"], {}).get("outcome"))
        rs = os.path.join(d, c["id"] + ".rs")
        inv = C.inventory([rs]).get(rs, {})
        if not inv.get("ok"):
            return c, None, "inventory"
        wd = os.path.join(d, "w_" + re.sub(r"\W", "_", c["id"]))
        os.makedirs(wd, exist_ok=True)
        edition = "2021"
        if "--rust-edition" in c["args"]:
            edition = c["args"][c["args"].index("--rust-edition") + 1]
        vals, types, rrej, skipped, err = P.rust_probe(wd, rs, inv, "r", edition=edition)
        if vals is None:
            shutil.rmtree(wd, ignore_errors=True)
            return c, None, "rust:" + str(err)[:120]
        macros = final_macros(c["header"], c["lang"], c["clang_args"])
        enums, vars_ = c_decls(c["header"], c["lang"], c["clang_args"])
        redefs = directive_table(c["header"])
        try:
            annotated = "rustbindgen" in open(c["header"], errors="replace").read()
        except OSError:
            annotated = False
        if annotated or c.get("callbacks"):
            enums = []          # variants renamed / replaced / hidden on request: names no longer correspond
        roots = {k.split("::")[-1]: k for k in vals if "::" not in k or k.startswith("root::")}
        subjects, plan = [], []
        for n, body in macros.items():
            if n in roots or n in rrej:
                subjects.append({"id": "m:" + n, "expr": n})
                plan.append(("macro", n, "m:" + n, roots.get(n), body))
        enumerator_owner = {}
        for e in enums:
            tname = (("enum " if c["lang"] == "c" else "") + e["tag"]) if e["tag"] else e["typedef"]
            if e["scoped"] and not e["tag"]:
                continue
            for en in e["enumerators"]:
                subjects.append({"id": "e:" + en, "expr": (e["tag"] + "::" + en) if e["scoped"] else en})
                enumerator_owner[en] = (e["tag"] or e["typedef"], tname)
            if tname and not e.get("combo"):
                subjects.append({"id": "t:" + (e["tag"] or e["typedef"]), "type": tname})
        for v in vars_:
            if v in roots or v in rrej:
                subjects.append({"id": "v:" + v, "expr": v})
                plan.append(("var", v, "v:" + v, roots.get(v), ""))
        cvals, crej = (P.c_probe(wd, c["header"], c["lang"], c["clang_args"] + ["-I", os.path.dirname(c["header"])], subjects, "c")
                       if subjects else ({}, {}))
        shutil.rmtree(wd, ignore_errors=True)
        if cvals is None:
            return c, None, "cprobe:" + str(crej)[:160]
        obs, notes = [], {}
        for cls, n, sid, rpath, body in plan:
            cv = cvals.get(sid)
            o_ = observe(cls, n, cv, vals.get(rpath) if rpath else None, rejected=rrej.get(n),
                         kindcheck=(cls == "macro" and not c.get("callbacks") and "--default-macro-constant-type" not in " ".join(c["args"])
                                    and "--fit-macro-constant-types" not in c["args"]),
                         charlit=bool(CHARLIT.match(body)))
            if o_["ckind"] == "char":
                o_["kindcheck"] = False
            obs.append(o_)
            notes[n] = dict(form="corpus", table_why=table_why(n, body, redefs) if cls == "macro" else None,
                            text=("#define %s %s" % (n, body)) if cls == "macro" else n, c=cv,
                            r=vals.get(rpath) if rpath else None, model=None, rejected=rrej.get(n),
                            c_rejected=crej.get(sid))
        # enumerators: the Rust constant whose last path segment is the enumerator, or <enum>_<enumerator>
        for en, (owner, tname) in enumerator_owner.items():
            cv = cvals.get("e:" + en)
            if cv is None:
                continue
            cands = [k for k in vals if k == en or k.endswith("::" + en) or (owner and k == owner + "_" + en)
                     or (owner and k.endswith("::" + owner + "_" + en))]
            if len(cands) != 1:
                continue
            ct = cvals.get("t:" + owner) if owner else None
            rv = vals[cands[0]]
            o_ = observe("enumval", en, cv, rv, ctype_override=(ct["width"] * 8, ct["signed"]) if ct else (rv["width"] * 8, rv["signed"]))
            obs.append(o_)
            notes[en] = dict(form="corpus-enum", text="enumerator %s of %s" % (en, owner), c=cv, r=rv, model=None)
        return c, (obs, notes, skipped, len(plan)), None

    with cf.ThreadPoolExecutor(max_workers=12) as ex:
        results = list(ex.map(one, sel))
    nruns = 0
    fails = {}
    for c, r, err in results:
        stats["headers"] += 1
        if r is None:
            k = err.split(":")[0]
            fails[k] = fails.get(k, 0) + 1
            continue
        obs, notes, skipped, _ = r
        stats["ok"] += 1
        stats["skipped_consts"] += skipped
        stats["macros"] += sum(1 for o in obs if o["cls"] == "macro")
        stats["enumerators"] += sum(1 for o in obs if o["cls"] == "enumval")
        stats["vars"] += sum(1 for o in obs if o["cls"] == "var")
        if not obs:
            continue
        flags = " ".join(c["args"])
        opts = {"signed": "--default-macro-constant-type signed" in flags or "--default-macro-constant-type=signed" in flags,
                "fit": "--fit-macro-constant-types" in flags, "fallback": "--clang-macro-fallback" in flags}
        case = "corpus:" + c["id"]
        runs.add(case, opts, obs)
        for n, kw in notes.items():
            runs.note(case, n, **kw)
        nruns += 1
    res.add(traces_validated_against_impl=nruns, corpus_headers_selected=stats["headers"], corpus_headers_observed=stats["ok"],
            corpus_headers_not_observable=fails, corpus_macros_observed=stats["macros"],
            corpus_enumerators_observed=stats["enumerators"], corpus_variables_observed=stats["vars"],
            corpus_constants_of_non_scalar_type_skipped=stats["skipped_consts"])
    for c, r, err in results:
        if r and r[0]:
            res.sample_case({"corpus_header": c["id"], "observations": len(r[0])})
            break


# =============================================================================================
# judging
# =============================================================================================
def judge(runs, name):
    """Trace_Consts over the collected lines -> (violations, drift, counts, tlc result)"""
    tp = os.path.join(C.workdir("c05-trace-" + name), "trace.ndjson")
    with open(tp, "w") as f:
        for l in runs.lines:
            f.write(json.dumps(l) + "\n")
    r = tlc_back("Trace_Consts.tla", "Trace_Consts.cfg", "tv-" + name, env={"TRACE": tp}, workers=1, dfs=True, timeout=1500)
    if not C.tlc_ok(r):
        raise C.ToolError("trace validation did not complete (%s): %s" % (name, C.tlc_prints(r["out"], "REJECTED") or r["out"][-1500:]))
    viol = C.tlc_prints(r["out"], "VIOL")
    drift = C.tlc_prints(r["out"], "DRIFT")
    counts = C.tlc_prints(r["out"], "COUNTS")
    os.remove(tp)
    return (viol[0] if viol else []), (drift[0] if drift else []), (counts[0] if counts else {}), r


def key_of(v, info):
    if info.get("form") == "table" or (info.get("form") == "corpus" and info.get("table_why") and v["failed"] == ["value"]):
        return "macro-table:%s:%s" % (info.get("table_why"), "+".join(v["failed"]))
    if v["cls"] == "enumty":
        return "enumty:c=%s:rust=%s:%s:form=%s" % (P.kind_name(v["cw"] // 8, v["cs"]), P.kind_name(v["rw"] // 8, v["rs"]),
                                                   "+".join(v["failed"]), info.get("form", "?"))
    return expr_key(v, info)


def report(res, runs, viol, drift):
    for v in viol:
        info = runs.info.get((v["case"], v["name"]), {})
        key = key_of(v, info)
        c, r = info.get("c") or {}, info.get("r") or {}
        res.violation(key, {"case": v["case"], "name": v["name"], "source": info.get("text"), "failed": v["failed"],
                            "c": {k: c.get(k) for k in ("ctype", "value", "bits", "dbits", "bytes") if k in c},
                            "rust": {k: r.get(k) for k in ("kind", "width", "signed", "value", "dbits", "bytes") if k in r},
                            "rustc": info.get("rejected")})
    seen = set()
    for dr in drift:
        info = runs.info.get((dr["case"], dr["name"]), {})
        k = (tuple(dr["failed"]), info.get("form"))
        if k in seen:
            continue
        seen.add(k)
        res.drift.append("%s: %s (%s `%s`; rust %s@%s)" % ("+".join(dr["failed"]), info.get("form"), dr["case"],
                                                          str(info.get("text"))[:80], P.kind_name(dr["rw"] // 8, dr["rs"]) if dr["rw"] else dr["rkind"],
                                                          dr["rreg"]))


def nonvacuity(res, runs):
    """Tampered observations must be rejected by the spec (otherwise the judge guards nothing)."""
    base = None
    for l in runs.lines:
        good = [o for o in l["obs"] if o["emitted"] and o["cdef"] and o["equal"] and o["ckind"] == "int" and o["rkind"] == "int"
                and o["cls"] == "macro" and o["creg"] == 9]
        if good:
            base = (l, good[0])
            break
    if base is None:
        raise C.ToolError("non-vacuity: no clean observation to tamper with")
    l, o = base
    tampered = [("equal-flipped", dict(o, equal=False), "value"),
                ("type-narrowed-to-u8", dict(o, rw=8, rs=False), "holds"),
                ("value-sign-flipped", dict(o, rreg=4, rs=True, equal=False), "sign"),
                ("enum-type-widened", dict(o, cls="enumty", cw=32, cs=False, rw=64, rs=False), "enum-type"),
                ("emitted-invalid-rust", dict(o, rkind="rejected"), "not-valid-rust")]
    t = Runs()
    for name, ob, _ in tampered:
        t.add("tamper:" + name, l["opts"], [dict(ob, name=name)])
    t.add("tamper:clean", l["opts"], [dict(o, name="clean")])
    viol, _, _, _ = judge(t, "tamper")
    got = {v["name"]: v["failed"] for v in viol}
    for name, _, want in tampered:
        if want not in got.get(name, []):
            raise C.ToolError("non-vacuity: tampered observation %s was not rejected (%s)" % (name, got.get(name)))
    if "clean" in got:
        raise C.ToolError("non-vacuity: the untampered observation was rejected")
    res.add(tampered_observations_rejected=len(tampered))


def replay(res, path):
    """Re-run the macro violations of a replay file on the real code (one header, all macro option sets)."""
    with open(path) as f:
        rp = json.load(f)
    C.build()
    d = C.workdir("c05-replay")
    lines, subjects = [], []
    for i, v in enumerate(rp.get("violations", [])):
        src = (v.get("detail") or {}).get("source") or ""
        if src.startswith("#define ") and " / " not in src:
            lines.append(src)
            subjects.append((src.split()[1], v["key"], src))
        elif " / " in src:
            pre = "RP%03d_" % i
            for l in src.split(" / "):
                lines.append(re.sub(r"\b([A-D])\b", pre + r"\1", l))
            subjects.append((pre + v["detail"]["name"].split("_")[-1], v["key"], src))
        elif src and not src.startswith(("const ", "enum", "static ", "int ", "unsigned ")):
            lines.append("#define RP%03d %s" % (i, src))
            subjects.append(("RP%03d" % i, v["key"], src))
    hp = os.path.join(d, "replay.h")
    with open(hp, "w") as f:
        f.write("\n".join(lines) + "\n")
    runs = Runs()
    jobs = [{"id": t, "args": BASE + [hp] + fl + (["--clang-macro-fallback-build-dir", d] if t == "fb" else []),
             "out": os.path.join(d, "replay_%s.rs" % t), "callbacks": None} for t, fl, _ in MACRO_OPTS]
    out = run_bindgen(jobs, "c05-replay-run")
    bind = {j["id"]: j["out"] for j in jobs if out.get(j["id"], {}).get("outcome") == "ok"}
    cvals, crej, rust, _ = probe_pair(d, "replay", hp, "c", [], [{"id": n, "expr": n} for n, _, _ in subjects], bind)
    if cvals is None:
        raise C.ToolError("replay: C probe failed: %s" % crej)
    for t, _, opts in MACRO_OPTS:
        if t not in rust or rust[t][0] is None:
            continue
        vals, _, rrej, _, _ = rust[t]
        obs = []
        for n, key, src in subjects:
            obs.append(observe("macro", n, cvals.get(n), vals.get(n), rejected=rrej.get(n)))
            runs.note("replay:" + t, n, form="replay", text=src, c=cvals.get(n), r=vals.get(n), model=None)
        runs.add("replay:" + t, opts, obs)
    viol, drift, counts, r = judge(runs, "replay")
    res.add(states=r["distinct"], transitions=r["generated"], traces_validated_against_impl=len(runs.lines),
            replayed_items=len(subjects))
    report(res, runs, viol, drift)


def run(res, tier):
    res.assumptions += [
        "the C value of a macro is the value of its expansion after the whole header (what a C user of the header sees), "
        "computed by clang 14 for x86_64-linux; expressions whose evaluation clang diagnoses as undefined (overflow, "
        "division by zero, out-of-range shifts) have no C value and are not compared",
        "the Rust value / type of a constant is what rustc computes for the generated item (probe generated from the syn "
        "inventory); constants of non-scalar type are skipped and counted",
        "64-bit arithmetic is never done in TLC: the harness maps arbitrary-precision values to threshold regions and "
        "computes `equal`; TLC contributes the input space, the typing rules, the table semantics and the judgement",
        "a crash of bindgen on a macro body is a C12 matter: recorded as a note, not a C05 verdict",
    ]
    C.build()
    cex = model(res, tier)
    runs = Runs()
    r_exprs(res, tier, runs)
    r_crashers(res, runs)
    r_table(res, tier, runs, cex)
    r_enums(res, tier, runs)
    r_vars(res, tier, runs)
    t_corpus(res, tier, runs)
    viol, drift, counts, r = judge(runs, "all")
    res.add(states=r["distinct"], transitions=r["generated"], observations_judged=counts.get("obs", 0),
            emitted_constants_judged=counts.get("emitted", 0), trace_lines=counts.get("runs", 0))
    report(res, runs, viol, drift)
    nonvacuity(res, runs)
    res.cov["exhaustive"] = False
    for sub in ("c05-exprs", "c05-table", "c05-enums", "c05-vars", "c05-corpus", "c05-crash"):
        shutil.rmtree(os.path.join(C.WORK, sub), ignore_errors=True)
