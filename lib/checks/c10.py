"""C10 - blocklisted items referenced but never defined; opaque types are exact blobs.

model : Gen_Opaque.tla (CLayout reference): inner record x attribute x marking, predicted blob size /
        alignment, predicted container layout, defined-or-not
T     : Trace_Allowlist / Trace_Analyses invariants on every run (blocklisted never in the emitted sets);
        comp events: opaque composites carry the C size/alignment and no member is exposed
R     : every Gen_Opaque case -> header (member, array element, pointee, parameter, C++: base, template
        argument) -> real bindgen with the marking (option / annotation / blocklist + user definition as raw
        line) -> syn inventory (no definition of blocklisted names, uses still name them, opaque = blob only,
        no accessors) + rustc/clang layout probes of blob and containers
"""
import json
import os
import re
import subprocess

import common as C
import layoutprobe as LP

LEVEL = "model_checking"
LAY = os.path.join(C.SPEC, "layout")
CT = {"c": "signed char", "s": "short", "i": "int", "d": "double", "p": "void *", "a": "char"}


def inner_decl(name, c, annotate):
    attrs = ""
    pre = post = ""
    if c["attr"] == "packed":
        attrs = " __attribute__((packed))"
    elif c["attr"].startswith("aligned"):
        attrs = " __attribute__((aligned(%s)))" % c["attr"][7:]
    elif c["attr"] == "pack2":
        pre, post = "#pragma pack(push, 2)\n", "\n#pragma pack(pop)"
    fields = []
    for j, code in enumerate(c["codes"]):
        if code == "a":
            fields.append("  char g%d[3];" % j)
        elif code == "p":
            fields.append("  void *g%d;" % j)
        else:
            fields.append("  %s g%d;" % (CT[code], j))
    doc = "/** <div rustbindgen opaque></div> */\n" if annotate else ""
    return "%s%sstruct%s %s {\n%s\n};%s" % (pre, doc, attrs, name, "\n".join(fields), post)


def how_blocklisted(k, c):
    """the property names three ways to blocklist a type: by type pattern, by item pattern, by the file that
    declares it - the file reached through a real directory or through a symbolic link"""
    if not c["mark"].startswith("blocklist"):
        return None
    return ["type", "item", "file", "file-symlink"][k % 4]


def render(cases, cxx, w=None):
    lines = []
    if w:
        os.makedirs(os.path.join(w, "inc"), exist_ok=True)
        if not os.path.lexists(os.path.join(w, "lnk")):
            os.symlink("inc", os.path.join(w, "lnk"))
    for k, c in enumerate(cases):
        n = "I%04d" % k
        how = how_blocklisted(k, c)
        if w and how in ("file", "file-symlink"):
            with open(os.path.join(w, "inc", n + ".h"), "w") as f:
                f.write(inner_decl(n, c, False) + "\n")
            lines.append('#include "%s/%s.h"' % ("inc" if how == "file" else "lnk", n))
        else:
            lines.append(inner_decl(n, c, c["mark"] == "opaque-annotation"))
        lines.append("struct C%04d { char pre; struct %s m; struct %s arr[2]; struct %s *p; short post; };" % (k, n, n, n))
        lines.append("void use_%s(struct %s v, const struct %s *q);" % (n, n, n))
        # containers that reach the marked type through exactly one kind of use
        lines.append("struct A%04d { struct %s only_arr[2]; };" % (k, n))
        lines.append("struct M%04d { struct %s only_arr2[2][2]; int tail; };" % (k, n))
        lines.append("struct P%04d { struct %s *only_ptr; };" % (k, n))
        # reached through a typedef, in a struct that needs a hand-written Debug impl (--impl-debug; array > 32)
        lines.append("typedef struct %s %s_t;\nstruct T%04d { %s_t via_td; int big[40]; };" % (n, n, k, n))
        # a function and a variable that share the marked type's name (separate C name spaces)
        if not cxx:
            lines.append("int %s(int x);" % n)
        if cxx:
            lines.append("struct D%04d : %s { int own; };" % (k, n))
            lines.append("template<class T> struct W%04d { T t; int n; };\nstruct U%04d { W%04d<%s> w; };" % (k, k, k, n))
    return "\n".join(lines) + "\n"


def flags_for(cases):
    fl = []
    for k, c in enumerate(cases):
        n = "I%04d" % k
        if c["mark"].startswith("blocklist"):
            il = c["inner"]
            if c["mark"] == "blocklist+opaque":
                fl += ["--opaque-type", n]
            how = how_blocklisted(k, c)
            fl += {"type": ["--blocklist-type", n], "item": ["--blocklist-item", n],
                   "file": ["--blocklist-file", ".*/inc/%s\\.h" % n],
                   "file-symlink": ["--blocklist-file", ".*/lnk/%s\\.h" % n]}[how]
            fl += ["--raw-line",
                   "#[repr(C, align(%d))] #[derive(Copy, Clone)] pub struct %s { pub _b: [u8; %d] }" % (il["align"], n, il["size"])]
        elif c["mark"] == "opaque-option":
            fl += ["--opaque-type", n]
    return fl


def probe(w, tag, header, cases, text, cxx):
    """clang + rustc numbers for inner and container types."""
    names = []
    for k, c in enumerate(cases):
        names += ["I%04d" % k, "C%04d" % k]
        if cxx:
            names += ["D%04d" % k, "U%04d" % k]
    src = os.path.join(w, tag + ".cc" if cxx else tag + ".c")
    with open(src, "w") as f:
        f.write('#include <stdio.h>\n#include <stddef.h>\n#include "%s"\nint main() {\n' % header)
        for k, c in enumerate(cases):
            for n in ["I%04d" % k, "C%04d" % k] + (["D%04d" % k, "U%04d" % k] if cxx else []):
                offs = ""
                if n.startswith("C"):
                    offs = ",".join("(long)offsetof(struct %s, %s)" % (n, m) for m in ("pre", "m", "arr", "p", "post"))
                f.write('printf("{\\"n\\":\\"%s\\",\\"size\\":%%ld,\\"align\\":%%ld,\\"offsets\\":[%s]}\\n",(long)sizeof(struct %s),(long)alignof(struct %s)%s);\n'
                        % (n, ",".join(["%ld"] * (5 if offs else 0)), n, n, ("," + offs) if offs else ""))
        f.write("return 0; }\n")
    exe = os.path.join(w, tag + "-c")
    p = subprocess.run((["clang++", "-std=c++11"] if cxx else ["clang", "-Dalignof=_Alignof"]) + ["-w", "-o", exe, src],
                       stdout=subprocess.PIPE, stderr=subprocess.STDOUT, text=True)
    if p.returncode != 0:
        raise C.ToolError("clang probe failed: " + p.stdout[-1200:])
    cl = {}
    for line in subprocess.run([exe], stdout=subprocess.PIPE, text=True).stdout.splitlines():
        v = json.loads(line)
        cl[v["n"]] = v
    rs = os.path.join(w, tag + ".rs")
    with open(rs, "w") as f:
        f.write("#![allow(warnings)]\npub mod b {\n%s\n}\nfn main() {\n" % text)
        for n in names:
            offs = ""
            if n.startswith("C"):
                offs = ",".join("::std::mem::offset_of!(b::%s, %s)" % (n, m) for m in ("pre", "m", "arr", "p", "post"))
            f.write('{ let o: Vec<usize> = vec![%s]; println!("{{\\"n\\":\\"%s\\",\\"size\\":{},\\"align\\":{},\\"offsets\\":{:?}}}", ::std::mem::size_of::<b::%s>(), ::std::mem::align_of::<b::%s>(), o); }\n'
                    % (offs, n, n, n))
        f.write("}\n")
    exe2 = os.path.join(w, tag + "-r")
    p = subprocess.run(["rustc", "--edition", "2021", "-o", exe2, rs], stdout=subprocess.PIPE, stderr=subprocess.STDOUT, text=True)
    if p.returncode != 0:
        return cl, None, p.stdout
    ru = {}
    for line in subprocess.run([exe2], stdout=subprocess.PIPE, text=True).stdout.splitlines():
        v = json.loads(line)
        ru[v["n"]] = v
    return cl, ru, None


def one_language(res, tier, cases, cxx):
    tag = "cxx" if cxx else "c"
    w = C.workdir("c10-" + tag)
    hp = os.path.join(w, "prog.hpp" if cxx else "prog.h")
    with open(hp, "w") as f:
        f.write(render(cases, cxx, w))
    out = os.path.join(w, "b.rs")
    log = os.path.join(w, "b.ndjson")
    env = dict(os.environ)
    env["BINDGEN_VERIF_LOG"] = log
    p = subprocess.run([C.BINDGEN, hp, "-o", out, "--no-layout-tests", "--formatter=none"] + flags_for(cases),
                       stdout=subprocess.PIPE, stderr=subprocess.PIPE, text=True, env=env, timeout=900)
    if p.returncode != 0:
        res.violation("bindgen-failed:%s" % tag, {"stderr": p.stderr[-1500:]})
        return
    with open(out) as f:
        text = f.read()
    inv = C.inventory([out])[out]
    structs = {}
    for it in inv["items"]:
        if it["kind"] in ("struct", "union"):
            structs.setdefault(it["name"], []).append(it)
    impl_fns = {}
    for it in inv["items"]:
        if it["kind"] == "impl" and not it.get("trait"):
            impl_fns.setdefault(it["name"], []).extend(it.get("fns", []))
    comps = {}
    with open(log) as f:
        for line in f:
            if line.startswith('{"ev":"comp"'):
                e = json.loads(line)
                comps[e["name"]] = e
    cl, ru, err = probe(w, "p", hp, cases, text, cxx)
    if ru is None:
        bad = sorted(set(re.findall(r"\b([ICDUW]\d{4})\b", err)))
        res.violation("bindings-with-markings-rejected-by-rustc:%s" % tag, {"names": bad[:10], "rustc": err[-1200:]})
        return
    uses = re.sub(r"\s+", "", text)
    for k, c in enumerate(cases):
        n, cn = "I%04d" % k, "C%04d" % k
        shape = "%s:%s:%s" % (c["mark"], c["attr"], tag)
        defs = structs.get(n, [])
        if c["mark"].startswith("blocklist"):
            if len(defs) != 1 or defs[0]["fields"] != [["_b", "[u8 ; %d]" % c["inner"]["size"], True]]:
                res.violation("blocklisted-type-defined:" + shape, {"type": n, "definitions": [d.get("tokens") for d in defs]})
            if n in comps:
                res.violation("blocklisted-type-went-through-codegen:" + shape, {"type": n})
            for use in ("pubm:%s," % n, "pubarr:[%s;2usize]" % n, "pubp:*mut%s," % n, "v:%s," % n, "q:*const%s" % n):
                if use not in uses:
                    res.violation("blocklisted-type-use-does-not-name-it:" + shape, {"type": n, "expected_use": use})
                    break
        else:
            if len(defs) != 1:
                res.violation("opaque-type-not-defined-once:" + shape, {"type": n, "n": len(defs)})
                continue
            fields = [f[0] for f in defs[0]["fields"]]
            if fields != ["_bindgen_opaque_blob"]:
                res.violation("opaque-type-exposes-members:" + shape, {"type": n, "fields": fields})
            if impl_fns.get(n):
                res.violation("opaque-type-has-accessors:" + shape, {"type": n, "fns": impl_fns[n]})
            e = comps.get(n)
            if e and (not e["is_opaque"] or e["size"] != cl[n]["size"] or e["align"] != cl[n]["align"]):
                res.violation("opaque-comp-event-numbers:" + shape, {"type": n, "event": [e["size"], e["align"]], "clang": cl[n]})
        # a blocklist / opaque marking of a *type* must not touch a function of the same name
        # (--blocklist-item is the one form that names every kind of item: there the function goes too)
        if how_blocklisted(k, c) == "item":
            if not cxx and ("pubfn%s(x:" % n) in uses:
                res.violation("blocklist-item-leaves-function:" + shape, {"name": n})
        elif not cxx and ("pubfn%s(x:" % n) not in uses:
            res.violation("function-sharing-the-marked-types-name-missing:" + shape, {"name": n})
        # single-use containers: array / nested array / pointer of the marked type
        for pre in ("A", "M", "P"):
            cn2 = "%s%04d" % (pre, k)
            if len(structs.get(cn2, [])) != 1:
                res.violation("single-use-container-missing:" + shape, {"type": cn2})
        # spec vs environment
        if c["inner"]["size"] != cl[n]["size"] or c["inner"]["align"] != cl[n]["align"] or \
                c["container"]["size"] != cl[cn]["size"] or c["container"]["offsets"] != cl[cn]["offsets"]:
            raise C.ToolError("Gen_Opaque prediction disagrees with clang: %s %s vs %s %s" % (c, cl[n], cl[cn], inner_decl(n, c, False)))
        for nm in [n, cn] + (["D%04d" % k, "U%04d" % k] if cxx else []):
            a, b = cl[nm], ru.get(nm)
            if b is None:
                res.violation("type-missing:" + shape, {"type": nm})
            elif (a["size"], a["align"], a["offsets"]) != (b["size"], b["align"], b["offsets"]):
                role = {"I": "marked-type", "C": "container", "D": "derived", "U": "template-user"}[nm[0]]
                res.violation("layout-with-marked-type:%s:%s" % (role, shape),
                              {"type": nm, "clang": a, "rust": b, "decl": inner_decl(n, c, False)})
    res.add(traces_validated_against_impl=len(cases), marked_types=len(cases))


def opaque_typedefs(res):
    """An opaque marking can also name a typedef, and a typedef can carry its own alignment (lower than its
    type's: compat_u64; higher: an over-aligned struct typedef).  The blob must have the TYPEDEF's size and
    alignment: the records that contain it keep clang's offsets and size (bindgen's own layout assertions, which state
    libclang's numbers, are the judge)."""
    from checks.c09 import rustc_batch
    w = C.workdir("c10-typedefs")
    tds = [("compat_u64", "typedef unsigned long long compat_u64 __attribute__((aligned(4)));"),
           ("compat_f64", "typedef double compat_f64 __attribute__((aligned(4)));"),
           ("vec2a", "typedef struct { double x, y; } vec2a __attribute__((aligned(16)));"),
           ("blob32a", "typedef struct { char b[32]; } blob32a __attribute__((aligned(32)));"),
           ("ll_al2", "typedef long long ll_al2 __attribute__((aligned(2)));"),
           ("plain_td", "typedef struct { int a; char b; } plain_td;")]
    text = "\n".join(t for _, t in tds) + "\n"
    for k, (n, _) in enumerate(tds):
        # (no arrays: an array of a typedef whose alignment exceeds its size has no C layout worth the name)
        text += "struct Rec%d { char c; %s m; char d; %s m2; char e; };\n" % (k, n, n)
    text += "struct RecAll { char c; compat_u64 s; char d; vec2a v; char e; compat_f64 f; blob32a b; ll_al2 l; void *p; };\n"
    hp = os.path.join(w, "td.h")
    with open(hp, "w") as f:
        f.write(text)
    out = os.path.join(w, "td.rs")
    fl = [x for n, _ in tds for x in ("--opaque-type", n)]
    p = subprocess.run([C.BINDGEN, hp, "-o", out, "--formatter=none"] + fl, stdout=subprocess.PIPE, stderr=subprocess.PIPE, text=True, timeout=300)
    if p.returncode != 0:
        res.violation("bindgen-failed:opaque-typedefs", {"stderr": p.stderr[-800:]})
        return
    bad, msg = rustc_batch([open(out).read()], w, "td")
    if bad:
        what = "size" if '"Size of' in msg else "align" if '"Alignment of' in msg else "offset" if '"Offset of' in msg else "other"
        res.violation("layout-with-opaque-typedef:%s" % what, {"header": text, "rustc": msg[:900]})
    res.add(opaque_typedefs=len(tds))


def run(res, tier):
    res.assumptions += ["the user definition of a blocklisted type is supplied as a raw line with the C size and alignment",
                        "C++ bases/template arguments are checked for layout on the host only"]
    C.build()
    r = C.tlc(os.path.join(LAY, "Gen_Opaque.tla"), cfg="Gen_Opaque.cfg", workers=4, timeout=900, name="c10-gen")
    if not C.tlc_ok(r):
        raise C.ToolError("Gen_Opaque failed: " + r["out"][-1200:])
    cases = C.tlc_prints(r["out"], "CASE")
    res.tlc_stats(r)
    cases.sort(key=lambda c: json.dumps(c, sort_keys=True))
    if tier == "quick":
        import random
        cases = random.Random(C.seed() + 3).sample(cases, 240)
    res.sample_case(cases[0])
    one_language(res, tier, cases, cxx=False)
    one_language(res, tier, cases[:: 2 if tier == "thorough" else 4], cxx=True)
    opaque_typedefs(res)
    res.cov["exhaustive"] = tier == "thorough"
