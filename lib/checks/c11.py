"""C11 - output is a pure function of inputs across processes, repeats and threads.

model : Generations.tla - all interleavings of 3 threads x 2 generations: the libclang handle is installed on
        the executing thread before parsing on every path, the once-cell is set once, no cross-generation taint;
        the config without the re-install step must fail
R     : Gen_History.tla histories (begin order over threads, input per generation; exhaustive small, simulated
        long) executed by `bvdrive history` in ONE process; every output compared byte-for-byte with the output
        of the same input from a fresh single-generation process; repeated CLI processes (ASLR on/off)
T     : Trace_Generations.tla over the merged hook logs (gen_begin / libclang / parse / gen_exit) of each history
"""
import json
import os
import random
import shutil
import subprocess

import common as C
import gen_orders

LEVEL = "model_checking"
SYS = os.path.join(C.SPEC, "sys")


def model(res):
    r = C.tlc(os.path.join(SYS, "Generations.tla"), cfg="MC_Generations.cfg", workers=8, timeout=1200, name="c11-mc")
    if not C.tlc_ok(r):
        raise C.ToolError("Generations model failed: " + r["out"][-1500:])
    res.tlc_stats(r)
    r2 = C.tlc(os.path.join(SYS, "Generations.tla"), cfg="MC_Generations_noReinstall_fails.cfg", workers=2,
               timeout=300, name="c11-sens")
    if "is violated" not in r2["out"]:
        raise C.ToolError("sensitivity config MC_Generations_noReinstall_fails did not fail")
    res.add(sensitivity_configs_failing_as_expected=1)


def inputs_for(tier, w):
    rnd = random.Random(C.seed() * 977 + 11)
    cases = [c for c in C.corpus_cases()]
    sel = C.sample(cases, 120 if tier == "thorough" else 28, "c11-in")
    inputs = []
    for c in sel:
        a = list(c["args"])
        if "--clang-macro-fallback" in a and not any(x.startswith("--clang-macro-fallback-build-dir") for x in a):
            a = None   # shares fixed file names in the working directory by design of that option
        if a:
            inputs.append({"name": c["id"], "args": a, "callbacks": c["callbacks"]})
    # inputs that switch on lazily generated helper items / unordered containers
    special = {
        "sp-complex.h": ("double _Complex z;\nfloat _Complex cf(float _Complex a);\nstruct hc { double _Complex c; int i; };\n", []),
        "sp-plain.h": ("struct plain { int a; char b; };\nint use_plain(struct plain *p);\n", []),
        "sp-abis.h": ("int __attribute__((stdcall)) s1(int);\nint __attribute__((fastcall)) f1(int);\nint c1(int);\n"
                      "int __attribute__((stdcall)) s2(int);\nint c2(int);\nint __attribute__((fastcall)) f2(int);\nextern int v1;\n",
                      ["--merge-extern-blocks", "--", "--target=i686-unknown-linux-gnu"]),
        "sp-helpers.h": ("struct fl { int n; char d[]; };\nunion un { int i; float f; };\nstruct bf { unsigned a:3; unsigned b:5; };\n"
                         "struct big { char c[40]; };\n", ["--no-derive-copy", "--with-derive-default"]),
    }
    # persistent state on disk: the macro fall-back keeps a precompiled header in its build directory; two
    # inputs share one directory (sequentially - the option is documented to use fixed file names there) with
    # different headers and different -D flags, so a generation must not see what an earlier one left behind
    fbdir = os.path.join(w, "fallback-build")
    os.makedirs(fbdir, exist_ok=True)
    fb = ("#define SHIFT(x) (1u << (x))\n#define MASK ((unsigned)(SHIFT(3) | SHIFT(5)))\n#ifdef VARIANT\n"
          "#define LIMIT ((long)(VARIANT * 100))\n#else\n#define LIMIT ((long)7)\n#endif\nstruct fa { int a; };\n")
    special["sp-zfallback-a.h"] = (fb, ["--clang-macro-fallback", "--clang-macro-fallback-build-dir", fbdir, "--", "-DVARIANT=2"])
    special["sp-zfallback-b.h"] = ("#define WIDE(x) ((unsigned long long)(x) << 40)\n#define TOP (WIDE(3))\n"
                                   "#define LIMIT ((long)(11))\nstruct fbb { long b; };\n",
                                   ["--clang-macro-fallback", "--clang-macro-fallback-build-dir", fbdir, "--", "-DOTHER=1"])
    for nm, (text, fl) in sorted(special.items()):
        hp = os.path.join(w, nm)
        with open(hp, "w") as f:
            f.write(text)
        inputs.append({"name": nm, "args": ["bindgen", "--formatter=none", hp] + fl, "callbacks": None})
    for name, fam in sorted(gen_orders.FAMILIES.items()):
        hp = os.path.join(w, name + (".hpp" if fam["lang"] == "c++" else ".h"))
        order = [("def", d) for d in topo(fam)]
        with open(hp, "w") as f:
            f.write(gen_orders.render(fam, order))
        inputs.append({"name": "fam-" + name, "args": ["bindgen", "--formatter=none", hp] + gen_orders.DERIVES + fam["flags"],
                       "callbacks": None})
    return inputs


def topo(fam):
    done, out = set(), []
    decls = fam["decls"]
    while len(out) < len(decls):
        for d in sorted(decls):
            if d not in done and all(x in done for x in decls[d][2] + decls[d][3] if x != d):
                done.add(d)
                out.append(d)
                break
        else:
            # uses-cycles (pointers): emit remaining in name order after forward declarations are not needed
            for d in sorted(decls):
                if d not in done:
                    done.add(d)
                    out.append(d)
            break
    return out


def baseline(w, inputs):
    """Each input in a fresh single-generation process."""
    base = {}
    for i, inp in enumerate(inputs):
        jf = os.path.join(w, "base%d.json" % i)
        outp = os.path.join(w, "base%d.rs" % i)
        args = list(inp["args"])
        if "--clang-macro-fallback-build-dir" in args:
            # "fresh" includes the disk: the reference generation gets an empty build directory of its own
            k = args.index("--clang-macro-fallback-build-dir")
            args[k + 1] = os.path.join(w, "fallback-fresh-%d" % i)
            shutil.rmtree(args[k + 1], ignore_errors=True)
            os.makedirs(args[k + 1])
        with open(jf, "w") as f:
            json.dump({"threads": 1, "jobs": [{"id": inp["name"], "args": args, "callbacks": inp["callbacks"],
                                                 "out": outp}]}, f)
        p = subprocess.run([C.BVDRIVE, "run", jf], stdout=subprocess.PIPE, stderr=subprocess.PIPE, text=True,
                           cwd=C.TESTS_CWD, timeout=600)
        r = json.loads(p.stdout.splitlines()[0]) if p.stdout.strip() else {"outcome": "crash"}
        base[inp["name"]] = (r["outcome"], open(outp, "rb").read() if os.path.exists(outp) else b"")
    return base


def histories(res, tier):
    out = []
    r = C.tlc(os.path.join(SYS, "Gen_History.tla"), cfg="Gen_History.cfg", workers=4, timeout=600, name="c11-gen")
    if not C.tlc_ok(r):
        raise C.ToolError("Gen_History failed: " + r["out"][-1200:])
    hs = C.tlc_prints(r["out"], "HIST")
    res.add(states=r["distinct"], transitions=r["generated"], histories_enumerated=len(hs))
    rnd = random.Random(C.seed() * 13 + 1)
    hs.sort(key=json.dumps)
    out += rnd.sample(hs, 60 if tier == "thorough" else 18)
    # long histories by simulation of the same spec
    cfg = os.path.join(C.workdir("c11-cfg"), "long.cfg")
    with open(os.path.join(SYS, "Gen_History.cfg")) as f:
        t = f.read().replace("NThreads = 3", "NThreads = 8").replace("Len_ = 4", "Len_ = 40").replace("NInputs = 2", "NInputs = 6")
    with open(cfg, "w") as f:
        f.write(t)
    n = 12 if tier == "thorough" else 4
    r = C.tlc(os.path.join(SYS, "Gen_History.tla"), cfg=cfg, workers=1, simulate=n, depth=41, timeout=600,
              name="c11-sim", extra=["-seed", str(C.seed() + 1)])
    long = C.tlc_prints(r["out"], "HIST")[:n]
    if not long:
        raise C.ToolError("simulation produced no history: " + r["out"][-800:])
    out += long
    # the same builder repeatedly on one thread, and 16 threads with the same input
    out.append({"order": [0] * 6, "inputs": [0] * 6})
    out.append({"order": list(range(16)), "inputs": [1] * 16})
    # every special input after every other one, on one thread and interleaved on two
    out.append({"order": [0] * 12, "inputs": [0, 1, 0, 1, 2, 1, 3, 1, 0, 3, 2, 0], "special": True})
    out.append({"order": [0, 1] * 6, "inputs": [0, 1, 1, 0, 2, 1, 1, 3, 3, 0, 0, 2], "special": True})
    # the two inputs that share a macro fall-back build directory, alternating on one thread
    out.append({"order": [0] * 9, "inputs": [4, 5, 4, 5, 5, 4, 0, 4, 5], "special": True})
    return out


def run_history(w, k, h, inputs, rnd):
    nin = max(h["inputs"]) + 1
    # inputs that share a build directory on disk are only used by the dedicated single-thread history
    pool = [k for k, x in enumerate(inputs) if "fallback" not in x["name"]]
    chosen = rnd.sample(pool, min(nin, len(pool)))
    if h.get("special"):
        sp = [k for k, x in enumerate(inputs) if x["name"].startswith("sp-")]
        chosen = sp[:nin] if len(sp) >= nin else chosen
    nthreads = max(h["order"]) + 1
    threads = [[] for _ in range(nthreads)]
    jobs = []
    for g, (t, i) in enumerate(zip(h["order"], h["inputs"])):
        inp = inputs[chosen[i % len(chosen)]]
        outp = os.path.join(w, "h%03d-g%03d.rs" % (k, g))
        job = {"id": "g%03d" % g, "args": inp["args"], "callbacks": inp["callbacks"], "out": outp, "input": inp["name"]}
        threads[t].append(job)
        jobs.append(job)
    log = os.path.join(w, "h%03d.log" % k)
    jf = os.path.join(w, "h%03d.json" % k)
    with open(jf, "w") as f:
        json.dump({"log": log, "order": h["order"], "threads": threads}, f)
    try:
        p = subprocess.run([C.BVDRIVE, "history", jf], stdout=subprocess.PIPE, stderr=subprocess.PIPE, text=True,
                           cwd=C.TESTS_CWD, timeout=900)
        rc, stdout = p.returncode, p.stdout
    except subprocess.TimeoutExpired:
        rc, stdout = -9, ""
    results = {}
    for line in stdout.splitlines():
        try:
            v = json.loads(line)
            results[v["id"]] = v
        except Exception:
            pass
    events = []
    for t in range(nthreads):
        lp = "%s.t%d" % (log, t)
        if os.path.exists(lp):
            with open(lp) as f:
                for line in f:
                    if line.startswith('{"ev":"') and line[7:line.index('"', 7)] in (
                            "gen_begin", "libclang", "libclang_installed", "parse", "gen_exit"):
                        events.append(json.loads(line))
            os.remove(lp)
    events.sort(key=lambda e: e["seq"])
    return jobs, results, events, rc


def run(res, tier):
    res.assumptions += [
        "--clang-macro-fallback without a private build dir and the default --wrap-static-fns path share fixed file "
        "names by design of those options; generations using them are given private paths / left out",
        "the end order of concurrent generations cannot be forced, only observed (validated by Trace_Generations)",
    ]
    C.build()
    model(res)
    w = C.workdir("c11")
    inputs = inputs_for(tier, w)
    base = baseline(w, inputs)
    rnd = random.Random(C.seed() * 31 + 5)
    hs = histories(res, tier)
    trace = os.path.join(w, "trace.ndjson")
    ngen = 0
    with open(trace, "w") as tf:
        for k, h in enumerate(hs):
            jobs, results, events, rc = run_history(w, k, h, inputs, rnd)
            shape = "threads=%d" % (max(h["order"]) + 1)
            if rc != 0:
                res.violation("history-process-died:%s" % shape, {"history": h, "rc": rc})
            for j in jobs:
                ngen += 1
                exp_outcome, exp_text = base[j["input"]]
                r = results.get(j["id"])
                if r is None:
                    res.violation("generation-did-not-finish:%s" % shape, {"history": h, "input": j["input"]})
                    continue
                got = open(j["out"], "rb").read() if os.path.exists(j["out"]) else b""
                if r["outcome"] != exp_outcome:
                    res.violation("outcome-differs-from-fresh-process:%s" % shape,
                                  {"input": j["input"], "fresh": exp_outcome, "in_history": r["outcome"], "msg": r.get("msg"), "history": h})
                elif got != exp_text:
                    res.violation("output-differs-from-fresh-process:%s" % shape, {"input": j["input"], "history": h})
                if os.path.exists(j["out"]):
                    os.remove(j["out"])
            tf.write(json.dumps({"ev": "proc", "tid": 0, "seq": -1}) + "\n")
            for e in events:
                tf.write(json.dumps(e) + "\n")
    r = C.tlc(os.path.join(SYS, "Trace_Generations.tla"), cfg="Trace_Generations.cfg", env={"TRACE": trace},
              workers=1, dfs=True, timeout=1800, name="c11-tv")
    if not C.tlc_ok(r):
        raise C.ToolError("Trace_Generations did not complete: " + r["out"][-1500:])
    for v in (C.tlc_prints(r["out"], "VIOL") or [[]])[0]:
        res.violation("protocol:%s" % v["kind"], v)
    res.add(states=r["distinct"], transitions=r["generated"], traces_validated_against_impl=len(hs),
            generations_run=ngen, inputs=len(inputs))
    res.sample_case({"history": hs[0], "inputs": [i["name"] for i in inputs[:4]]})
    # repeated processes, ASLR on / off
    nproc = 0
    reps = [x for x in inputs if x["name"].startswith("sp-")] + inputs[: (40 if tier == "thorough" else 8)]
    for inp in reps:
        outs = []
        for pre in ([], ["setarch", "x86_64", "-R"], [], [], ["setarch", "x86_64", "-R"], []):
            env = dict(os.environ)
            env["VERIF_DUMMY_%d" % len(outs)] = "x" * (len(outs) * 37 + 1)   # shifts the environment block
            p = subprocess.run(pre + [C.BINDGEN] + inp["args"][1:], stdout=subprocess.PIPE, stderr=subprocess.PIPE,
                               cwd=C.TESTS_CWD, env=env, timeout=600)
            outs.append((p.returncode, p.stdout))
            nproc += 1
        if inp["callbacks"] is None and len(set(outs)) != 1:
            res.violation("output-differs-across-processes", {"input": inp["name"]})
    res.add(cli_processes_compared=nproc)
    # histories across processes that meet on disk: the same -o path written by a sequence of generations (a build
    # directory that is re-used); what a generation leaves in the file is a function of its own input only
    sp = [x for x in inputs if x["name"].startswith("sp-") and "fallback" not in x["name"]]
    seq = [sp[k % len(sp)] for k in (3, 0, 2, 1, 3, 2, 0)]      # big and small outputs alternate
    outp = os.path.join(w, "shared-output.rs")
    if os.path.exists(outp):
        os.remove(outp)
    nhist = 0
    for step, inp in enumerate(seq):
        ref = subprocess.run([C.BINDGEN] + inp["args"][1:], stdout=subprocess.PIPE, stderr=subprocess.PIPE,
                             cwd=C.TESTS_CWD, timeout=600)
        a = inp["args"][1:]
        k = a.index("--") if "--" in a else len(a)
        p = subprocess.run([C.BINDGEN] + a[:k] + ["-o", outp] + a[k:], stdout=subprocess.PIPE, stderr=subprocess.PIPE,
                           cwd=C.TESTS_CWD, timeout=600)
        if ref.returncode != 0 or p.returncode != 0:
            raise C.ToolError("CLI generation failed in the output-path history: %s" % (p.stderr or ref.stderr)[-300:])
        got = open(outp, "rb").read()
        nhist += 1
        if got != ref.stdout:
            res.violation("output-file-depends-on-earlier-generation",
                          {"step": step, "input": inp["name"], "earlier": [x["name"] for x in seq[:step]],
                           "bytes_expected": len(ref.stdout), "bytes_in_file": len(got)})
            break
    res.add(output_path_history_generations=nhist)
    res.cov["exhaustive"] = False
