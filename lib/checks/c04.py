"""C04 - functions and globals bind the right symbol with a call-compatible signature.

model : MC_Symbols.tla (Symbols.tla x ELF / Mach-O / Win32 name shapes): linker-visible name of the
        Rust item = the compiler's symbol; unique Rust identifiers per module; sensitivity configs;
        configs with the shapes the code does not handle must fail and are re-found on the real code.
R     : Gen_Funcs.tla behaviours (exhaustive sweeps + random libraries) -> header + C definitions ->
        real bindgen -> clang + rustc + link -> executed token protocol vs TLC's predicted checksums;
        rustc type-checks every binding against the function-pointer type the spec predicts.
T     : Trace_Symbols.tla judges every observed binding (identifier, #[link_name], ABI, nm symbols).
thorough: + C++ classes (executed) and Mach-O / Win32 text-only symbol checks (llvm-nm).
"""
import json
import os
import re
from concurrent.futures import ThreadPoolExecutor

import c04_cfgs
import common as C
import ffi
import sym_corpus

LEVEL = "model_checking"
BACK = os.path.join(C.SPEC, "back")
MC = ["MC_Symbols_elf.cfg", "MC_Symbols_macho.cfg", "MC_Symbols_win32.cfg"]
# shapes the model shows the code cannot handle: must fail in the model, then re-found on real code
MC_KNOWN = ["MC_Symbols_k_elf_asmUnderscore.cfg", "MC_Symbols_k_elf_suffixLike.cfg",
            "MC_Symbols_k_macho_noMangling.cfg", "MC_Symbols_k_elf_varLinkOverride.cfg"]
SENSITIVITY = ["MC_Symbols_x_noKeywordLink.cfg", "MC_Symbols_x_noOverloadSuffix.cfg",
               "MC_Symbols_x_noSeen.cfg", "MC_Symbols_x_mangleVerbatim.cfg"]
TAMPER = os.environ.get("VERIF_C04_TAMPER", "")     # swapargs | obs-link | bindings-sign (non-vacuity demonstrations)


def model(res):
    st = tr = 0
    for cfg in MC:
        r = C.tlc(os.path.join(BACK, "MC_Symbols.tla"), cfg=cfg, workers=8, timeout=900, name="c04-" + cfg)
        if not C.tlc_ok(r):
            raise C.ToolError("model %s failed: %s" % (cfg, r["out"][-1500:]))
        st += r["distinct"]
        tr += r["generated"]
    res.add(states=st, transitions=tr, model_configs=len(MC))
    for cfg in MC_KNOWN + SENSITIVITY:
        r = C.tlc(os.path.join(BACK, "MC_Symbols.tla"), cfg=cfg, workers=2, timeout=600, name="c04-" + cfg)
        if "is violated" not in r["out"]:
            raise C.ToolError("config %s was expected to produce a counterexample" % cfg)
    res.add(sensitivity_configs_failing_as_expected=len(SENSITIVITY),
            known_shape_configs_failing_as_expected=len(MC_KNOWN))


# ---------------------------------------------------------------------------------------------
# behaviours
# ---------------------------------------------------------------------------------------------
def generate(res, cfg, simulate=None, seed=0, name=None):
    extra = ["-seed", str(seed + 1)] if simulate else []
    r = C.tlc(os.path.join(BACK, "Gen_Funcs.tla"), cfg=cfg, workers=1 if simulate else 8, simulate=simulate,
              depth=4000 if simulate else None, extra=extra, timeout=1200, name="c04-" + (name or cfg))
    libs = C.tlc_prints(r["out"], "LIB")
    types = C.tlc_prints(r["out"], "TYPES")
    if (not simulate and not C.tlc_ok(r)) or not libs or not types or "is violated" in r["out"]:
        raise C.ToolError("Gen_Funcs %s failed: %s" % (cfg, r["out"][-1500:]))
    if not simulate:
        res.add(states=r["distinct"], transitions=r["generated"])
    return ffi.Types(types[0]), libs


def merge(libs, chunk):
    """Single-declaration behaviours with equal options -> libraries of <= chunk declarations."""
    groups = {}
    for l in libs:
        groups.setdefault(json.dumps(l["opt"], sort_keys=True), []).append(l)
    out = []
    for key, ls in sorted(groups.items()):
        seen, fns = set(), []
        for l in sorted(ls, key=lambda l: l["fns"][0]["cname"]):
            for f in l["fns"]:
                if f["cname"] in seen:
                    continue
                seen.add(f["cname"])
                fns.append(f)
        for i in range(0, len(fns), chunk):
            part = [dict(f, i=j) for j, f in enumerate(fns[i:i + chunk])]
            out.append({"opt": json.loads(key), "fns": part})
    return out


def shape_key(f):
    if f["kind"] == "gvar":
        return "%s:%s:%s%s" % (f["shape"], "gvar", f["ty"], ":const" if f["const"] else "")
    return "%s:%s:%s->%s" % (f["shape"], f["kind"], ",".join(f["args"] + (["..."] + f["va"] if f["va"] else [])), f["ret"])


class Batch:
    """Runs a list of libraries through bindgen, the compilers and the executable."""

    def __init__(self, res, types, libs, name):
        self.res, self.types, self.name = res, types, name
        self.dir = C.workdir("c04-" + name)
        self.libs = [ffi.Library(rec, types, "%s%03d" % (name, i)) for i, rec in enumerate(libs)]
        self.obs = []          # observations for Trace_Symbols
        self.counts = ffi.Counts({"decls": 0, "bindings": 0, "calls_executed": 0, "calls_ok": 0, "globals_ok": 0,
                       "libraries": 0, "exec_libraries": 0})

    def p(self, lib, f):
        return os.path.join(self.dir, lib.name + f)

    def run(self):
        jobs = []
        for lib in self.libs:
            with open(self.p(lib, ".h"), "w") as f:
                f.write(lib.header())
            with open(self.p(lib, "_c.h"), "w") as f:
                f.write(lib.header(for_c=True))
            with open(self.p(lib, ".c"), "w") as f:
                f.write(lib.c_source(lib.name + "_c.h", tamper=TAMPER))
            jobs.append({"id": lib.name, "args": ["bindgen", "--formatter=none", self.p(lib, ".h")] + lib.flags(),
                         "callbacks": lib.callbacks(), "out": self.p(lib, ".rs")})
        out = C.run_jobs(jobs, threads=12, name="c04-jobs-" + self.name, cwd=self.dir)
        for lib in self.libs:
            o = out.get(lib.name, {})
            if o.get("outcome") != "ok":
                # our headers are valid C: a failure / panic here is the code under test
                self.res.violation("bindgen-failed:%s" % o.get("outcome"),
                                   {"library": lib.name, "msg": o.get("msg", "")[:500], "flags": lib.flags()})
                lib.failed = True
            else:
                lib.failed = False
        if TAMPER == "bindings-sign":       # tampered bindings: unsigned short lowered to a signed type
            for l in self.libs:
                if not l.failed:
                    t = open(self.p(l, ".rs")).read().replace("c_ushort", "c_short")
                    open(self.p(l, ".rs"), "w").write(t)
        invs = C.inventory([self.p(l, ".rs") for l in self.libs if not l.failed])
        with ThreadPoolExecutor(max_workers=10) as ex:
            list(ex.map(lambda l: self.one(l, invs.get(self.p(l, ".rs"), {})), [l for l in self.libs if not l.failed]))
        return self

    # -----------------------------------------------------------------------------------------
    def one(self, lib, inv):
        res = self.res
        self.counts.inc("libraries", 1)
        if not inv.get("ok"):
            raise C.ToolError("bindings of %s do not parse: %s" % (lib.name, inv.get("err")))
        items = ffi.foreign_items(inv)
        by_ident = {}
        for it in items:
            by_ident.setdefault(it["ident"], []).append(it)
        # uniqueness of Rust identifiers per module (property predicate)
        for ident, its in by_ident.items():
            if len(its) > 1:
                res.violation("duplicate-ident:%s" % lib.name, {"library": lib.name, "ident": ident})
        present, statics, used = {}, {}, set()
        for f in lib.fns:
            self.counts.inc("decls", 1)
            p = f["pred"]
            cands = by_ident.get(p["ident"], []) if p["emitted"] else []
            it = cands[0] if cands else None
            if it is None:
                # look for a binding of this declaration under another identifier (shape difference)
                for x in items:
                    if x["ident"] not in used and (x["link"]["name"] in (f["csym"], f["cname"]) or x["ident"] == f["name"]):
                        it = x
                        break
                if it is not None and p["emitted"]:
                    res.drift.append("%s: %s bound as `%s`, predicted `%s`" % (lib.name, f["cname"], it["ident"], p["ident"]))
            if it is None:
                if p["emitted"]:
                    res.drift.append("%s: no binding for %s (%s), predicted one" % (lib.name, f["cname"], shape_key(f)))
                continue
            used.add(it["ident"])
            if not p["emitted"]:
                # a binding the spec says is not generated: judged like any other (its symbol must exist)
                res.drift.append("%s: binding for %s (%s) although the spec predicts `%s`" % (lib.name, f["cname"], f["kind"], p["why"]))
                p = dict(p, ident=it["ident"], link=it["link"], abi=it["abi"], sig=None)
                f["unpredicted"] = True
            f["item"] = it
            present[f["i"]] = it["ident"]
            self.counts.inc("bindings", 1)
            if f["kind"] == "gvar":
                statics[f["i"]] = {"mut": it.get("mut", False)}
                if p.get("mut") is not None and it.get("mut") != p["mut"]:
                    res.violation("mutability:%s" % shape_key(f), {"library": lib.name, "decl": f["cname"],
                                                                   "rust": it["tokens"], "const_in_c": f["const"]})
        unpredicted = [f for f in lib.fns if f.get("unpredicted")]
        for f in unpredicted:
            present.pop(f["i"], None)      # not called; only its symbol is judged
        if not self.build_and_run(lib, present, statics, items):
            return
        self.counts.inc("exec_libraries", 1)

    # -----------------------------------------------------------------------------------------
    def build_and_run(self, lib, present, statics, items):
        res = self.res
        rc, _, err = ffi.run(["clang", "-std=gnu11", "-w", "-c", self.p(lib, ".c"), "-o", self.p(lib, ".o")], cwd=self.dir)
        if rc != 0:
            raise C.ToolError("clang rejected generated definitions of %s: %s" % (lib.name, err[:800]))
        cdef, _ = ffi.nm_symbols(self.p(lib, ".o"))
        # symbols the Rust side will reference (L1 model on the host: ELF) that nothing defines: stubs keep
        # the link going, the verdict comes from Trace_Symbols
        stubs = []
        fidx = {f["i"]: f for f in lib.fns}
        for f in lib.fns:
            it = f.get("item")
            if not it:
                continue
            sym = it["link"]["name"] if it["link"]["kind"] != "none" else it["ident"]
            f["rustsym"] = sym
            if not cdef.get(sym, "u").isupper():
                stubs.append((sym, f["kind"] == "gvar"))
                f["stubbed"] = True
        if stubs:
            with open(self.p(lib, "_stubs.c"), "w") as s:
                for n, (sym, var) in enumerate(stubs):
                    if var:
                        s.write('char vf_stub_%d[256] __asm__("%s");\n' % (n, sym))
                    else:
                        s.write('void vf_stub_%d(void) __asm__("%s");\nvoid vf_stub_%d(void) {}\n' % (n, sym, n))
            rc, _, err = ffi.run(["clang", "-c", self.p(lib, "_stubs.c"), "-o", self.p(lib, "_stubs.o")], cwd=self.dir)
            if rc != 0:
                raise C.ToolError("stub compilation failed: %s" % err[:400])
        call = {i: ident for i, ident in present.items() if not fidx[i].get("stubbed")}
        exe = None
        for attempt in range(4):
            src, lines = lib.rust_main(self.p(lib, ".rs"), call, statics)
            with open(self.p(lib, "_main.rs"), "w") as s:
                s.write(src)
            crate = lib.name + "_main"
            cmd = ["rustc", "--edition", "2021", "-C", "codegen-units=1", "-C", "opt-level=0", "-C", "debuginfo=0",
                   "--emit=obj,link", "--crate-name", crate, "--out-dir", self.dir, "--error-format=short",
                   self.p(lib, "_main.rs"), "-C", "link-arg=" + self.p(lib, ".o")]
            if stubs:
                cmd += ["-C", "link-arg=" + self.p(lib, "_stubs.o")]
            rc, out, err = ffi.run(cmd, cwd=self.dir, timeout=900)
            if rc == 0:
                exe = os.path.join(self.dir, crate)
                break
            bad, in_bindings, other = set(), [], []
            for line in err.splitlines():
                m = re.match(r"(.*?):(\d+):\d+: error(\[E\d+\])?: (.*)", line)
                if not m:
                    if "error: linking with" in line or "undefined" in line:
                        other.append(line)
                    continue
                if m.group(1).endswith("_main.rs"):
                    i = lines.get(int(m.group(2)))
                    if i is None:
                        other.append(line)
                    else:
                        bad.add((i, m.group(4)[:160]))
                else:
                    in_bindings.append(line)
            if in_bindings:
                # the bindings themselves are rejected by rustc (e.g. the same name twice)
                code = re.search(r"E\d+", in_bindings[0])
                res.violation("bindings-rejected:%s" % (code.group(0) if code else "error"),
                              {"library": lib.name, "errors": in_bindings[:3], "flags": lib.flags()})
                return False
            if other or not bad:
                raise C.ToolError("rustc failed on the generated caller of %s: %s" % (lib.name, err[-1500:]))
            for i, msg in bad:
                f = fidx[i]
                res.violation("sig-mismatch:%s" % shape_key(f), {"library": lib.name, "decl": f["cname"], "predicted": f["pred"].get("sig") or f["pred"].get("rustty"),
                                                                "binding": f["item"]["tokens"][:300], "rustc": msg})
                call.pop(i, None)
        if exe is None:
            raise C.ToolError("caller of %s still does not compile" % lib.name)
        _, rundef = ffi.nm_symbols(os.path.join(self.dir, lib.name + "_main.o"))
        # observations
        for f in lib.fns:
            it = f.get("item")
            if not it:
                continue
            p = f["pred"]
            link = dict(it["link"])
            if TAMPER == "obs-link" and link["kind"] == "verbatim" and f["shape"] == "keyword":
                link = {"kind": "none", "name": ""}        # tampered observation: must be rejected
            self.obs.append({
                "ev": "obs", "case": "%s/%s" % (lib.name, f["cname"]), "target": "elf",
                "kind": "var" if f["kind"] == "gvar" else "fn", "abi": it["abi"], "variadic": f["kind"] == "variadic",
                "argbytes": 0, "ident": ffi.chars(it["ident"]), "link": {"kind": link["kind"], "name": ffi.chars(link["name"])},
                "csym": ffi.chars(f["csym"]), "wanted": ffi.chars(f["csym"]),
                "defined": cdef.get(f["csym"], "?") in ("DBRCV" if f["kind"] == "gvar" else "TW"),
                "referenced": "na" if f["i"] not in call else ("yes" if f["rustsym"] in rundef else "no"),
                "pred": {"ident": ffi.chars(p["ident"]) if p.get("emitted") else [],
                         "link": {"kind": p["link"]["kind"], "name": ffi.chars(p["link"]["name"])} if p.get("emitted") and isinstance(p.get("link"), dict) else {"kind": "none", "name": []}},
                "shape": shape_key(f), "key": self.sym_key(lib, f)})
        # every symbol the Rust object needs from C is defined by the clang object
        rc, out, err = ffi.run([exe], cwd=self.dir, timeout=120)
        for junk in (exe, os.path.join(self.dir, lib.name + "_main.o"), self.p(lib, ".o"), self.p(lib, "_stubs.o")):
            if os.path.exists(junk):
                os.remove(junk)          # keep the scratch small: sources stay, binaries go
        if rc != 0:
            res.violation("caller-crashed:%s" % lib.name, {"library": lib.name, "rc": rc, "stderr": err[-400:]})
            return False
        got = {}
        for line in out.splitlines():
            parts = line.split()
            if parts and parts[0] in ("F", "G"):
                got[int(parts[1])] = [int(x) for x in parts[2:]]
        for i in call:
            f = fidx[i]
            p = f["pred"]
            g = got.get(i)
            self.counts.inc("calls_executed", 1)
            if g is None:
                res.violation("no-result:%s" % shape_key(f), {"library": lib.name, "decl": f["cname"]})
                continue
            if f["kind"] == "gvar":
                exp = [f["tok"], f["tok2"] if statics[i]["mut"] else -1]
                if g != exp:
                    res.violation("global-value:%s" % shape_key(f), {"library": lib.name, "decl": f["cname"], "read_written_tokens": g,
                                                                      "expected": exp, "binding": f["item"]["tokens"][:200]})
                else:
                    self.counts.inc("globals_ok", 1)
                continue
            exp = [p["code"], -1 if f["ret"] == "void" or f["kind"] == "noreturn" else p["rtok"], -1 if f["kind"] == "noreturn" else p["cbcode"]]
            if g != exp:
                what = "args" if g[0] != exp[0] else ("return" if g[1] != exp[1] else "callback")
                res.violation("%s-mismatch:%s" % (what, shape_key(f)),
                              {"library": lib.name, "decl": f["cname"], "observed[code,ret,cb]": g, "predicted": exp,
                               "binding": f["item"]["tokens"][:300], "flags": lib.flags()})
            else:
                self.counts.inc("calls_ok", 1)
        return True

    def sym_key(self, lib, f):
        extra = ""
        if lib.opt["plink"] and f["kind"] == "gvar":
            extra = ":plink"
        return "symbol:%s:%s%s" % (f["shape"], "gvar" if f["kind"] == "gvar" else "fn", extra)


def validate_symbols(res, obs, name):
    """Trace_Symbols.tla over the observations; returns TLC's verdicts."""
    if not obs:
        return 0
    d = C.workdir("c04-trace-" + name)
    trace = os.path.join(d, "obs.ndjson")
    keys = {}
    with open(trace, "w") as f:
        for o in obs:
            keys[o["case"]] = o.pop("key")
            f.write(json.dumps(o) + "\n")
    r = C.tlc(os.path.join(BACK, "Trace_Symbols.tla"), cfg="Trace_Symbols.cfg", env={"TRACE": trace}, workers=1,
              dfs=True, timeout=1800, name="c04-tv-" + name)
    if not C.tlc_ok(r):
        raise C.ToolError("Trace_Symbols did not complete (%s): %s" % (name, r["out"][-1500:]))
    viol = C.tlc_prints(r["out"], "VIOL")[0]
    drift = C.tlc_prints(r["out"], "DRIFT")[0]
    env = C.tlc_prints(r["out"], "ENVBAD")[0]
    counts = C.tlc_prints(r["out"], "COUNTS")[0]
    if env:
        raise C.ToolError("spec != environment: rustc references another symbol than RustSym predicts: %s" % env[:3])
    for v in viol:
        res.violation(keys.get(v["case"], "symbol:?"), v)
    for dr in drift[:10]:
        res.drift.append("symbol shape: %s ident=%s predicted=%s link=%s predicted=%s" % (
            dr["case"], dr["ident"], dr["pred"], dr["link"], dr["predlink"]))
    res.add(symbol_observations_validated=counts["obs"], trace_states=r["distinct"])
    return counts["obs"]


def cross_symbols(path, target, lang="c", flags=()):
    """Compile a definitions file for another object format and list its symbols (llvm-nm)."""
    obj = path + "." + target + ".o"
    cmd = ["clang", "--target=" + target, "-w", "-c", path, "-o", obj] + list(flags)
    if lang == "c++":
        cmd[1:1] = ["-x", "c++"]
    rc, _, err = ffi.run(cmd)
    if rc != 0:
        raise C.ToolError("clang --target=%s failed on %s: %s" % (target, path, err[:600]))
    defined, _ = ffi.nm_symbols(obj, tool="llvm-nm")
    os.remove(obj)
    return defined


def symbol_containing(defined, cname):
    """The one defined symbol that is the compiler's name of `cname`: C (`cname`, `_cname`, `_cname@N`,
    `@cname@N`), Itanium C++ (<len>cname inside _Z...), MSVC C++ (?cname@...)."""
    c = re.escape(cname)
    pats = [re.compile(r"^[_@]?%s(@\d+)?$" % c), re.compile(r"_Z[A-Z]*%d%s(?![A-Za-z0-9_$]*%s)" % (len(cname), c, "\\$y" if "$" not in cname else "#")),
            re.compile(r"^\?%s@" % c)]
    hits = sorted({s for s in defined for p in pats if p.search(s)})
    if len(hits) != 1:
        raise C.ToolError("cannot identify the compiler's symbol of %s among %s (candidates %s)" % (cname, sorted(defined)[:12], hits))
    return hits[0]


def replay_model_counterexamples(res):
    """The shapes on which MC_Symbols produces counterexamples (MC_KNOWN), rendered and run on the real
    bindgen.  asmUnderscore and varLinkOverride are executed through Gen_Funcs_known*.cfg; here: the
    overload-suffix collision and --distrust-clang-mangling on Mach-O."""
    d = C.workdir("c04-known")
    # (1) UniqueIdents counterexample of MC_Symbols_k_elf_suffixLike: overloads f, f + a function named f1
    hp = os.path.join(d, "suffix.hpp")
    with open(hp, "w") as f:
        f.write("void f(int);\nvoid f(float);\nvoid f1();\n")
    out = C.run_jobs([{"id": "suffix", "args": ["bindgen", "--formatter=none", hp], "out": os.path.join(d, "suffix.rs")}],
                     threads=1, name="c04-known-jobs", cwd=d)
    if out["suffix"]["outcome"] != "ok":
        raise C.ToolError("known-shape header rejected: %s" % out["suffix"])
    inv = C.inventory([os.path.join(d, "suffix.rs")])[os.path.join(d, "suffix.rs")]
    idents = [it["ident"] for it in ffi.foreign_items(inv)]
    dups = sorted({i for i in idents if idents.count(i) > 1})
    rc, _, err = ffi.run(["rustc", "--edition", "2021", "--crate-type", "lib", "--emit=metadata", "--out-dir", d,
                          os.path.join(d, "suffix.rs")])
    if dups:
        res.violation("duplicate-ident:overload-suffix-vs-declared-name",
                      {"header": open(hp).read(), "idents": idents, "rustc_rejects": rc != 0, "rustc": err[:300]})
    else:
        res.notes.append("model counterexample (overload suffix vs declared name) not reproduced on the real code")
    # (2) SymbolsOK counterexample of MC_Symbols_k_macho_noMangling
    hp = os.path.join(d, "nomangle.h")
    with open(hp, "w") as f:
        f.write("int fn(int x);\nint plainfn(int x);\n")
    cp = os.path.join(d, "nomangle.c")
    with open(cp, "w") as f:
        f.write('#include "nomangle.h"\nint fn(int x) { return x; }\nint plainfn(int x) { return x; }\n')
    tgt = "x86_64-apple-darwin"
    out = C.run_jobs([{"id": "nomangle", "args": ["bindgen", "--formatter=none", "--distrust-clang-mangling", hp, "--", "--target=" + tgt],
                       "out": os.path.join(d, "nomangle.rs")}], threads=1, name="c04-known-jobs", cwd=d)
    if out["nomangle"]["outcome"] != "ok":
        raise C.ToolError("known-shape header rejected: %s" % out["nomangle"])
    inv = C.inventory([os.path.join(d, "nomangle.rs")])[os.path.join(d, "nomangle.rs")]
    defined = cross_symbols(cp, tgt)
    obs = []
    for it in ffi.foreign_items(inv):
        cname = "fn" if it["ident"] == "fn_" else it["ident"]
        csym = symbol_containing(defined, cname)
        obs.append({"ev": "obs", "case": "nomangle/" + cname, "target": "macho", "kind": "fn", "abi": it["abi"], "variadic": False,
                    "argbytes": 0, "ident": ffi.chars(it["ident"]), "link": {"kind": it["link"]["kind"], "name": ffi.chars(it["link"]["name"])},
                    "csym": ffi.chars(csym), "wanted": ffi.chars(csym), "defined": True, "referenced": "na",
                    "pred": {"ident": ffi.chars(it["ident"]), "link": {"kind": it["link"]["kind"], "name": ffi.chars(it["link"]["name"])}},
                    "shape": "nomangling", "key": "symbol:nomangling-%s:macho" % ("keyword" if cname == "fn" else "plain")})
    validate_symbols(res, obs, "known")


def corpus(res, tier):
    """T over the repository corpus: every `sym` hook event + the emitted text, judged by Trace_SymEvents.tla."""
    viol, drift, counts = sym_corpus.run(res, tier, "C04")
    for v in viol:
        if v["what"] == "duplicate-ident":
            res.violation("duplicate-ident:corpus:%s" % v["case"], v)
        elif v["what"] == "symbol":
            shape = "linkcb" if v["linkcb"] else ("keyword" if v["keyword"] else ("cxx" if v["cxx"] else "plain"))
            res.violation("symbol:corpus:%s:%s" % (shape, v["target"]), v)
        # `dangling` rows belong to C16
    for dr in drift[:10]:
        res.drift.append("corpus sym event %s: %s %s ident=%s link=%s" % (dr["what"], dr["case"], dr["name"], dr["ident"], dr["link"]))
    res.add(states=counts["states"], transitions=counts["states"], corpus_cases_validated=counts["ran"],
            corpus_sym_events_validated=counts["sym"], traces_validated_against_impl=counts["ran"])
    res.sample_case({"corpus_cases": counts["ran"], "sym_events": counts["sym"], "violations": len(viol), "drift": len(drift)}, cap=12)


def replay_batch(res, types, libs, name, exec_counts):
    b = Batch(res, types, libs, name).run()
    n = validate_symbols(res, b.obs, name)
    for k, v in b.counts.items():
        exec_counts[k] = exec_counts.get(k, 0) + v
    return b


def run(res, tier):
    res.assumptions += [
        "calling-convention compatibility is established by execution on the host ABI (x86-64 SysV, plus ms_abi); on foreign targets the declared ABI string is compared with the convention of clang's LLVM declaration (CallConv.tla), nothing is executed there",
        "RustSym of Symbols.tla is what rustc/LLVM reference for a foreign item (confirmed by nm on every executed library)",
        "C text and boundary values of the type ids come from lib/ffi.py; Rust types, identifiers, link names, checksums from TLC",
    ]
    C.build()
    c04_cfgs.ensure()
    model(res)
    # calling conventions on foreign targets (CallConv.tla): judged against the convention in clang's LLVM IR
    import c04_callconv
    c04_callconv.run(res, tier)
    thorough = tier == "thorough"
    counts = ffi.Counts()
    seed = C.seed()
    # ---- exhaustive sweeps: every type x token as single argument, as return value, as global --------
    sweeps = [("Gen_Funcs_arg1.cfg", 400), ("Gen_Funcs_ret.cfg", 400), ("Gen_Funcs_gvar.cfg", 200),
              ("Gen_Funcs_pairs_t.cfg" if thorough else "Gen_Funcs_pairs_q.cfg", 400),
              ("Gen_Funcs_pad_t.cfg" if thorough else "Gen_Funcs_pad_q.cfg", 400),
              ("Gen_Funcs_known.cfg", 200), ("Gen_Funcs_known_plink.cfg", 200)]
    total_behaviours = 0
    for cfg, chunk in sweeps:
        types, libs = generate(res, cfg)
        total_behaviours += len(libs)
        merged = merge(libs, chunk)
        tag = cfg[len("Gen_Funcs_"):-4]
        replay_batch(res, types, merged, tag, counts)
        f0 = merged[0]["fns"][0]
        res.sample_case({"sweep": tag, "behaviours": len(libs), "libraries": len(merged), "example": f0["cname"],
                         "predicted": {k: f0["pred"].get(k) for k in ("ident", "link", "sig", "code", "rustty")}})
    # ---- colliding identifiers: `match` next to `match_`, `f$x` next to `f_x_`, both orders (libraries of two
    # declarations with the functions_seen / overload tables of Symbols.FnStep live between them)
    types, libs = generate(res, "Gen_Funcs_collide.cfg")
    uniq = {json.dumps(l, sort_keys=True): l for l in libs}
    libs = [uniq[k] for k in sorted(uniq)]
    if not any(f["pred"].get("ident", "").endswith("_1") for l in libs for f in l["fns"]):
        raise C.ToolError("Gen_Funcs_collide generated no renamed duplicate")
    total_behaviours += len(libs)
    replay_batch(res, types, libs, "collide", counts)
    replay_model_counterexamples(res)
    corpus(res, tier)
    # ---- random libraries (TLC -simulate): all kinds, name shapes and options together -----------------
    nsim = 500 if thorough else 36
    types, libs = generate(res, "Gen_Funcs_sim_t.cfg" if thorough else "Gen_Funcs_sim_q.cfg", simulate=nsim, seed=seed, name="sim")
    total_behaviours += len(libs)
    replay_batch(res, types, libs, "sim", counts)
    res.sample_case({"simulated_libraries": len(libs), "example_options": libs[0]["opt"],
                     "example_decls": [f["cname"] for f in libs[0]["fns"][:5]]})
    if thorough:
        import c04_extra
        c04_extra.run(res, counts)
    res.add(traces_validated_against_impl=counts.get("exec_libraries", 0), behaviours_generated=total_behaviours, **counts)
    res.cov["exhaustive"] = False


def replay(res, path):
    """Behaviours are regenerated deterministically from the specification and VERIF_SEED: replaying a
    violation file re-runs the tier that produced it."""
    run(res, "thorough" if "thorough" in os.path.basename(path) else "quick")
