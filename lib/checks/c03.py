"""C03 - bit-field getters, setters and constructors agree bit-for-bit with C.

model : spec/layout/MC_BitUnit.tla   L2 transcription of codegen/bitfield_unit.rs (BitUnit) = L1 bit-vector
                                     reference (BitVec) on every (size, offset, width), both byte orders,
                                     usize = 64 and 32; the region of the known extent>64 defect is characterised
        spec/layout/MC_BitAlloc.tla  L2 transcription of ir/comp.rs allocation units (BitAlloc) against the
                                     SysV/Itanium bit-field layout (CLayoutBits)
R1    : the cases TLC enumerated, with reference result and L2 prediction, are executed by harness/bfsweep on
        the *text* of the repository's bitfield_unit.rs (all eight entry points + the bit accessors, little
        endian and - `cfg!(target_endian = "big")` replaced by `true` - big endian, a checked and a wrapping
        build); real == reference is the property, real == L2 is shape (DRIFT)
R2    : TLC-generated record declarations -> header + C accessors -> real bindgen -> one linked C + Rust
        executable per batch: values written through C are read through the generated accessors and vice versa,
        object compared after every store, constructors included
T     : observations of the generated code (unit offsets/sizes, get_const::<OFF, W> constants) and of clang
        (bit offsets by storing all-ones into a zeroed object) validated by TLC against BitAlloc / CLayoutBits
"""
import json
import os
import random
import re
import subprocess
import threading
import time

import common as C
import c03_r2 as R2

LEVEL = "model_checking"
LAYOUT = os.path.join(C.SPEC, "layout")
BFSWEEP = os.path.join(C.HARNESS, "bfsweep")
SIZES = {"quick": [1, 2, 3, 4, 8, 9, 12, 16], "thorough": list(range(1, 17))}
ENTRY = ["set", "raw_set", "set_const", "raw_set_const", "get", "raw_get", "get_const", "raw_get_const",
         "set_bit", "raw_set_bit", "get_bit", "raw_get_bit"]
STORE = {"set", "raw_set", "set_const", "raw_set_const", "set_bit", "raw_set_bit"}
SENS_UNIT = {"MC_BitUnit_sens_unguarded.cfg": "Conforms", "MC_BitUnit_sens_getmask.cfg": "Conforms",
             "MC_BitUnit_sens_fieldmask.cfg": "Conforms", "MC_BitUnit_sens_rev.cfg": "Conforms"}

K_EXTENT = "bitunit-extent>64"
K_SIGNED = "signed-narrow-getter-zero-extends"
K_UNION = "bitalloc-union-unit-too-small"
K_PRAGMA = "bitalloc-pragma-pack-realign"
K_PLACED = "unit-misplaced-in-struct"


class Agg:
    """violations aggregated per key (a key is a failure shape; thousands of cases share one)."""

    def __init__(self):
        self.v = {}
        self.lock = threading.Lock()

    def add(self, key, witness):
        with self.lock:
            e = self.v.setdefault(key, {"count": 0, "witnesses": []})
            e["count"] += 1
            if len(e["witnesses"]) < 4:
                e["witnesses"].append(witness)

    def flush(self, res):
        for key in sorted(self.v):
            before = dict(res.known_hit)
            res.violation(key, self.v[key])
            for k in res.known_hit:
                if res.known_hit[k] != before.get(k, 0):
                    res.known_hit[k] = before.get(k, 0) + self.v[key]["count"]
        res.add(violation_keys={k: v["count"] for k, v in self.v.items()})


# ---------------------------------------------------------------------------
# bfsweep builds
# ---------------------------------------------------------------------------

def triples(tier):
    return [(n, o, w) for n in SIZES[tier] for o in range(8 * n) for w in range(1, 65) if o + w <= 8 * n]


def build_sweep(tier, profile, out):
    """profile 'checked' (debug assertions + overflow checks) / 'wrap' (neither)."""
    try:
        d = C.workdir("c03-sweep", clean=False)
        lst = os.path.join(d, "const_set_%s.txt" % tier)
        text = "".join("%d %d %d\n" % t for t in triples(tier))
        if not os.path.exists(lst) or open(lst).read() != text:
            with open(lst + ".tmp%s" % profile, "w") as f:
                f.write(text)
            os.replace(lst + ".tmp%s" % profile, lst)
        tdir = os.path.join(C.TARGET, "bfsweep-%s-%s" % (tier, profile))
        env = dict(os.environ)
        env.pop("RUSTFLAGS", None)
        env["BFSWEEP_CONST_SET"] = lst
        env["CARGO_ENCODED_RUSTFLAGS"] = ""       # not the hooks cfg of harness/.cargo/config.toml
        cmd = ["cargo", "build", "--offline", "-q", "--target-dir", tdir]
        if profile == "wrap":
            cmd += ["--profile", "wrap"]
        t0 = time.time()
        p = C.cargo(cmd, cwd=BFSWEEP, env=env, timeout=3000)
        if p.returncode != 0:
            # the text of bitfield_unit.rs not compiling is data about the code under test only if the
            # repository's own build accepted it; C.build() passed, so this is our harness
            out[profile] = C.ToolError("bfsweep build (%s) failed: %s" % (profile, p.stdout[-2500:]))
            return
        exe = os.path.join(tdir, "debug" if profile == "checked" else "wrap", "bfsweep")
        info = json.loads(subprocess.run([exe, "info"], stdout=subprocess.PIPE, text=True).stdout)
        if info["be_sites"] < 1 or info["debug_assertions"] != (profile == "checked"):
            out[profile] = C.ToolError("bfsweep %s: unexpected build info %s" % (profile, info))
            return
        out[profile] = {"exe": exe, "info": info, "wall": time.time() - t0}
    except Exception as e:  # noqa: BLE001
        out[profile] = C.ToolError("bfsweep build (%s): %r" % (profile, e))


# ---------------------------------------------------------------------------
# model
# ---------------------------------------------------------------------------

def expect_violation(module, cfg, inv, name, env=None):
    r = C.tlc(os.path.join(LAYOUT, module), cfg=cfg, workers=4, timeout=900, name=name, env=env)
    if ("Invariant %s is violated" % inv) not in r["out"]:
        raise C.ToolError("sensitivity config %s did not violate %s: %s" % (cfg, inv, r["out"][-800:]))
    return r


def model_bitunit(res, tier):
    """MC of the arithmetic; returns the printed cases (the behaviours replayed by R1)."""
    r = C.tlc(os.path.join(LAYOUT, "MC_BitUnit.tla"), cfg="Gen_BitUnit_%s.cfg" % tier, workers=10,
              timeout=3000, name="c03-bitunit", xmx="12g")
    if not C.tlc_ok(r):
        raise C.ToolError("MC_BitUnit (%s) failed: %s" % (tier, r["out"][-2000:]))
    recs = C.tlc_prints(r["out"], "CASE")
    r["out"] = ""
    if any("raw" in p for p in recs) or not recs:
        raise C.ToolError("could not decode the cases printed by MC_BitUnit")
    return recs, r


def model_side(tier, box):
    """usize = 32 model and the sensitivity self-tests, beside the main model run"""
    try:
        r32 = C.tlc(os.path.join(LAYOUT, "MC_BitUnit.tla"), cfg="MC_BitUnit_usize32_%s.cfg" % tier, workers=4,
                    timeout=3000, name="c03-bitunit32")
        if not C.tlc_ok(r32):
            raise C.ToolError("MC_BitUnit usize=32 failed: %s" % r32["out"][-2000:])
        box["r32"] = r32
        box["nsens"] = sensitivity(None, tier)
    except Exception as e:  # noqa: BLE001
        box["side_err"] = e


def sensitivity(res, tier):
    n = 0
    for cfg, inv in SENS_UNIT.items():
        expect_violation("MC_BitUnit.tla", cfg, inv, "c03-" + cfg)
        n += 1
    d = C.workdir("c03-sens")
    fj = os.path.join(d, "family.json")
    with open(fj, "w") as f:
        json.dump({"alphabet": R2.FAMILIES["basic"], "maxlen": 2, "kinds": ["struct", "union"],
                   "attrs": ["none", "pack4"]}, f)
    r = C.tlc(os.path.join(LAYOUT, "MC_BitAlloc.tla"), cfg="MC_BitAlloc_sens_unguarded.cfg", workers=1,
              timeout=900, name="c03-sens-alloc", env={"FAMILY": fj}, extra=["-continue"])
    for inv in ("Agree", "Covers", "Allocated"):
        if ("Invariant %s is violated" % inv) not in r["out"]:
            raise C.ToolError("unguarded BitAlloc model did not violate %s" % inv)
        n += 1
    with open(fj, "w") as f:
        json.dump({"alphabet": R2.FAMILIES["basic"], "maxlen": 2, "kinds": ["struct"], "attrs": ["none"]}, f)
    expect_violation("MC_BitAlloc.tla", "MC_BitAlloc_sens_floorSize.cfg", "Covers", "c03-sens-floor", env={"FAMILY": fj})
    n += 1
    # straddle test with the offset taken modulo the type's size: visible only with align < size
    with open(fj, "w") as f:
        json.dump({"alphabet": R2.FAMILIES["underaligned"], "maxlen": 2, "kinds": ["struct"], "attrs": ["none"]}, f)
    expect_violation("MC_BitAlloc.tla", "MC_BitAlloc_sens_moduloSize.cfg", "Agree", "c03-sens-modulo", env={"FAMILY": fj})
    n += 1
    return n


# ---------------------------------------------------------------------------
# R1
# ---------------------------------------------------------------------------

def sweep_lines(recs):
    """flatten the TLC records into harness input lines; meta[i] describes line i."""
    lines, meta = [], []
    for p in recs:
        n, off, w, be = p["n"], p["off"], p["w"], p["be"]
        for c in p["cases"]:
            bg = (c["bg"] * n)
            lines.append("%d %d %d %d %d %s %s %s" % (len(meta), 1 if be else 0, n, off, w, bg, c["v"], c["refst"]))
            meta.append((n, off, w, be, c))
    return lines, meta


def run_sweep(exe, lines):
    p = subprocess.run([exe], input="\n".join(lines) + "\n", stdout=subprocess.PIPE, stderr=subprocess.PIPE, text=True,
                       timeout=3000)
    if p.returncode != 0:
        # the harness itself catches panics of the code under test; dying is not data
        raise C.ToolError("bfsweep died rc=%d: %s" % (p.returncode, p.stderr[-1500:]))
    out = p.stdout.splitlines()
    if len(out) != len(lines):
        raise C.ToolError("bfsweep answered %d of %d cases" % (len(out), len(lines)))
    return out


def compare_sweep(profile, out, meta, agg, drift, stats, tamper=None):
    """property: real == reference.  shape: real == L2 prediction."""
    for i, line in enumerate(out):
        f = line.split()
        n, off, w, be, c = meta[i]
        if int(f[0]) != i:
            raise C.ToolError("bfsweep output out of order at %d" % i)
        results = f[1:]
        if tamper is not None and i == tamper[0]:
            results = list(results)
            results[tamper[1]] = tamper[2](results[tamper[1]])
        region = off % 8 + w > 64
        for e, r in zip(ENTRY, results):
            store = e in STORE
            ref = c["refst"] if store else c["refget"]
            if e.endswith("_bit"):
                l2, ovf = ref, False                     # the bit accessors are transcribed as reference-equal
            else:
                l2, ovf = (c["l2set"] if store else c["l2get"]), c["ovf"]
            if r == "-":
                stats["noinst"] += 1
                continue
            stats["executed"] += 1
            if r != ref:
                kind = "panic" if r == "P" else "wrong"
                key = K_EXTENT if region else "bitunit-mismatch:%s:%s:%s:%s" % (e, "be" if be else "le", profile, kind)
                agg.add(key, {"entry": e, "endian": "big" if be else "little", "build": profile, "storage_bytes": n,
                              "bit_offset": off, "bit_width": w, "background": c["bg"], "val": c["v"],
                              "storage_read": c["refst"], "real": r, "reference": ref})
                stats["property_failures"] += 1
            pred = "P" if (ovf and profile == "checked") else l2
            if r != pred:
                stats["shape_diffs"] += 1
                if len(drift) < 6:
                    drift.append("bitfield_unit.rs %s(%s) n=%d off=%d w=%d %s build: real %s, L2 transcription predicts %s"
                                 % (e, "be" if be else "le", n, off, w, profile, r, pred))


def r1(res, tier, recs, builds, agg):
    lines, meta = sweep_lines(recs)
    stats = {"executed": 0, "noinst": 0, "property_failures": 0, "shape_diffs": 0}
    drift = []
    outs = {}
    for profile in ("checked", "wrap"):
        b = builds[profile]
        if isinstance(b, Exception):
            raise b
        outs[profile] = run_sweep(b["exe"], lines)
        compare_sweep(profile, outs[profile], meta, agg, drift, stats)
    if stats["noinst"]:
        raise C.ToolError("%d const-generic instantiations missing from the sweep harness" % stats["noinst"])
    res.drift.extend(drift)
    # the comparator is not vacuous: one flipped bit in one real answer (outside the defect region) is caught
    probe = next(i for i, m in enumerate(meta) if m[1] % 8 + m[2] <= 64 and m[0] == 2 and m[2] == 9)
    t_agg, t_stats = Agg(), {"executed": 0, "noinst": 0, "property_failures": 0, "shape_diffs": 0}
    flip = lambda s: ("%0*x" % (len(s), int(s, 16) ^ 1)) if s not in ("P", "-") else "00"  # noqa: E731
    compare_sweep("wrap", ["0 " + outs["wrap"][probe].split(" ", 1)[1]], [meta[probe]], t_agg, [], t_stats,
                  tamper=(0, 4, flip))
    if not any(k.startswith("bitunit-mismatch:get:") for k in t_agg.v):
        raise C.ToolError("tampered sweep answer was not flagged")
    m = meta[0]
    res.sample_case({"R1_case": {"storage_bytes": m[0], "bit_offset": m[1], "bit_width": m[2], "big_endian": m[3],
                                 "token": m[4]["tok"], "reference_store": m[4]["refst"], "real_checked": outs["checked"][0],
                                 "real_wrap": outs["wrap"][0]}})
    res.add(r1_cases=len(lines), r1_entry_point_executions=stats["executed"],
            r1_property_failures=stats["property_failures"], r1_shape_diffs=stats["shape_diffs"],
            r1_triples=len(recs) // 2, r1_const_instantiations=builds["checked"]["info"]["const_instances"],
            r1_tampered_answer_flagged=1,
            traces_validated_against_impl=len(lines) * 2)


# ---------------------------------------------------------------------------
# R3: big-endian cross-check (clang for powerpc64 initialisers vs the big-endian branch)
# ---------------------------------------------------------------------------

def r3(res, tier, builds, agg):
    alpha = [R2.T("uchar", 4), R2.T("uint", 9), R2.T("int", 3), R2.T("ullong", 60), R2.T("ushort", 16),
             R2.T("short", 7, False), R2.T("bool", 1)]
    recs, g = R2.generate("be", alpha, 3 if tier == "quick" else 4, ["none", "packed"])
    rnd = random.Random(C.seed() * 31 + 5)
    sel = [p for p in recs if p["kind"] == "struct" and len(p["units"]) == 1 and p["units"][0]["start"] == 0]
    sel = R2.select(sel, 150 if tier == "quick" else 800, rnd, per_sig=3)
    decls = [("S%d" % i, p) for i, p in enumerate(sel)]
    n, bad = R2.r3_bigendian(decls, builds["wrap"]["exe"])
    if n == 0:
        raise C.ToolError("big-endian cross-check produced no cases: %s" % json.dumps(bad)[:400])
    for b in bad:
        key = K_EXTENT if b["off"] % 8 + b["w"] > 64 else "bigendian-accessor-mismatch:%s" % b["entry"]
        agg.add(key, {kk: vv for kk, vv in b.items() if kk != "v"})
    res.add(r3_bigendian_cases=n, r3_bigendian_mismatches=len(bad), r3_structs=len(decls),
            states=g["distinct"], transitions=g["generated"], traces_validated_against_impl=n)


# ---------------------------------------------------------------------------
# R4: i686 (long long: size 8, align 4) - T only, nothing is executed
# ---------------------------------------------------------------------------

def r4(res, tier, agg):
    alpha = [R2.T("ullong_a4", 40), R2.T("llong_a4", 20), R2.T("ullong_a4", 9), R2.T("uint", 20), R2.T("uchar", 4),
             R2.T("ullong_a4", 0, False), R2.T("int", 5, False)]
    quick = tier == "quick"
    recs, g = R2.generate("i686", alpha, 3 if quick else 4, ["none", "packed", "pack2", "pack4"])
    rnd = random.Random(C.seed() * 131 + 11)
    # one unit that starts the record: its byte offset in the Rust struct is 0 without compiling for i686
    cand = [p for p in recs if len(p["units"]) == 1 and p["units"][0]["start"] == 0 and all(f["bw"] >= 0 for f in p["fields"])]
    sel = R2.select(cand, 200 if quick else 1200, rnd, per_sig=2 if quick else 6)
    decls = [("S%d" % i, p) for i, p in enumerate(sel)]
    obs, parsed = R2.static_init_observe(decls, R2.I686_TARGET, R2.CTYPE_I686, "r4-i686")
    if obs is None:
        res.notes.append("bindgen failed for i686: %s" % json.dumps(parsed)[:300])
        return
    # non-vacuity: the constants that a straddle test modulo SIZE would generate must be rejected.  The probe
    # is built from the machine's prediction (not from the observed bindings) with one field re-aligned.
    probe, hit = None, None
    for (n, p), o in zip(decls, obs):
        if p["kind"] != "struct" or p["attr"] != "none":
            continue
        bfs = [{"i": x["i"], "unit": 1, "off": x["off"], "w": x["w"]} for x in p["units"][0]["bfs"] if x["named"]]
        for x in bfs:
            f = p["fields"][x["i"] - 1]
            if f["ty"].endswith("_a4") and x["off"] % 64 + x["w"] > 64 and x["off"] % 32 != 0:
                x["off"] = (x["off"] + 31) // 32 * 32
                hit = (n, x["i"])
                break
        if hit:
            probe = dict(o, r_bfs=bfs, r_units=[{"nth": 1, "off": 0, "size": 16}])
            break
    if not hit:
        raise C.ToolError("i686 selection holds no long long bit-field that crosses an 8-byte boundary")
    pv = trace_validate("r4-probe", [probe])[0]
    if not any((v["id"], v["i"]) == hit and v["what"] == "offset" for v in pv):
        raise C.ToolError("re-aligned i686 constant was not rejected by Trace_BitAlloc")
    viol, drift, model, counts, tr = trace_validate("r4-i686", obs)
    if model:
        raise C.ToolError("CLayoutBits (long long as size 8 / align 4) disagrees with clang for i686: %s" % json.dumps(model[:3]))
    dd = dict(decls)
    for v in viol:
        agg.add(t_key(v), {"via": "T (i686, clang static initialisers)", "decl": R2.render_decl(v["id"], dd[v["id"]], R2.CTYPE_I686),
                           "field": "f%d" % v["i"], "what": v["what"], "c_bit_offset_or_needed_bits": v["want"],
                           "generated_code_uses": v["got"], "getter": "_bitfield_%d get<%d,%d>" % (v["unit"], v["off"], v["w"])})
    for dr in drift[:3]:
        res.drift.append("i686 allocation shape differs from BitAlloc (%s, %s): predicted %s observed %s" %
                         (dr["id"], dr["what"], json.dumps(dr["pred"])[:160], json.dumps(dr["obs"])[:160]))
    res.add(r4_i686_structs=len(decls), r4_i686_bitfields=sum(len(o["r_bfs"]) for o in obs), r4_i686_violations=len(viol),
            r4_i686_shape_diffs=len(drift), r4_realigned_constant_rejected=1,
            states=g["distinct"] + tr["distinct"], transitions=g["generated"] + tr["generated"],
            traces_validated_against_impl=len(decls))


# ---------------------------------------------------------------------------
# R2 + T
# ---------------------------------------------------------------------------

def obs_line(name, p, lines_by, parsed):
    bits = {l["f"]: l for l in lines_by.get(name, []) if l["k"] == "bits"}
    rec = [l for l in lines_by.get(name, []) if l["k"] == "rec"][0]
    n = len(p["fields"])
    c_offs, c_w = [-1] * n, [-1] * n
    for i in range(1, n + 1):
        if i in bits and bits[i]["c"]:
            b = bits[i]["c"]
            if b != list(range(b[0], b[0] + len(b))):
                raise C.ToolError("C store of all-ones is not contiguous: %s f%d %s" % (name, i, b))
            c_offs[i - 1], c_w[i - 1] = b[0], len(b)
    g = parsed.get(name, {}).get("getters", {})
    r_bfs = [{"i": int(k[1:]), "unit": v["unit"], "off": v["off"], "w": v["w"]} for k, v in sorted(g.items())]
    return {"id": name, "kind": p["kind"], "attr": p["attr"], "fields": p["fields"], "c_offs": c_offs,
            "c_widths": c_w, "c_size": rec["c_size"], "r_units": rec["units"], "r_bfs": r_bfs}


def trace_validate(name, obs):
    d = C.workdir("c03-tv-" + name)
    tr = os.path.join(d, "trace.ndjson")
    with open(tr, "w") as f:
        for o in obs:
            f.write(json.dumps(o) + "\n")
    r = C.tlc(os.path.join(LAYOUT, "Trace_BitAlloc.tla"), cfg="Trace_BitAlloc.cfg", env={"TRACE": tr}, workers=1,
              dfs=True, timeout=1500, name="c03-tv-" + name)
    if not C.tlc_ok(r):
        raise C.ToolError("Trace_BitAlloc did not accept the trace (%s): %s" %
                          (name, C.tlc_prints(r["out"], "REJECTED") or r["out"][-1500:]))
    g = lambda tag: (C.tlc_prints(r["out"], tag) or [[]])[0]  # noqa: E731
    return g("VIOL"), g("DRIFT"), g("MODEL"), g("COUNTS"), r


def t_key(v):
    """shape of a T violation -> key"""
    if v["what"] == "cover" and v["regionA"]:
        return K_UNION
    if v["what"] in ("offset", "cover") and v["regionB"] and v["pstart"] >= 0 and 8 * v["pstart"] + v["poff"] != v["coff"] \
            and v["off"] == v["poff"]:
        return K_PRAGMA              # the machine itself moves the field away from clang's offset
    if v["what"] == "offset":
        if v["pstart"] >= 0 and 8 * v["pstart"] + v["poff"] == v["want"] and v["ustart"] != v["pstart"] and v["off"] == v["poff"]:
            return K_PLACED          # allocation right, the unit is not where the machine assumes it
    return "bitalloc-%s:%s:%s" % (v["what"], v["kind"], v["attr"])


def x_key(l, p, tkeys):
    """shape of an execution mismatch -> key"""
    s, op = l["s"], l["op"]
    if op == "ctor":
        ks = sorted({tkeys[(s, b["i"])] for u in p["units"] if u["nth"] == l["f"] for b in u["bfs"] if (s, b["i"]) in tkeys})
        if ks:
            return ks[0]
        for u in p["units"]:
            if u["nth"] == l["f"] and any(b["named"] and b["off"] % 8 + b["w"] > 64 for b in u["bfs"]):
                return K_EXTENT
        return "ctor-mismatch:%s:%s" % (p["kind"], p["attr"])
    i = l["f"]
    if (s, i) in tkeys:
        return tkeys[(s, i)]
    f = p["fields"][i - 1]
    g = l.get("_getter")
    w = f["bw"]
    if g and g["off"] % 8 + g["w"] > 64:
        return K_EXTENT
    size, signed = R2.TY[f["ty"]]
    if op in ("get", "get_raw") and l["r"] != "panic" and signed and 0 < w < 8 * size:
        c, r = int(l["c"], 16), int(l["r"], 16)
        if r == c & ((1 << w) - 1) and r >> (w - 1) == 1 and c >> w == (1 << (64 - w)) - 1:
            return K_SIGNED          # observed = ZeroExt(bits), expected = SignExt(bits)
    return "accessor-mismatch:%s:%s:%s" % (op, f["ty"], "panic" if l["r"] == "panic" else "wrong")


def wrap_union_field_calls(text):
    return re.sub(r"(self\s*\.\s*_bitfield_\d+\s*\.\s*as_(?:ref|mut)\s*\(\s*\))", r"unsafe { \1 }", text)


def r2_batch(tag, sel, flags, agg, stats, notes, drifts, samples, seeds, tamper=False):
    decls = [("S%d" % i, p) for i, p in enumerate(sel)]
    lines, parsed, d = R2.build_and_run(tag, decls, flags=flags, seeds=seeds)
    if lines is None and "rustc_errors_in_bindings" in parsed:
        # accessors that do not compile cannot return what C reads
        shape = "union-field-accessors-do-not-compile" if ("--disable-untagged-union" in flags and set(parsed["codes"]) <= {"E0133", "E0054"}) \
            else "generated-accessors-do-not-compile:%s" % ",".join(parsed["codes"])
        agg.add(shape, {"flags": list(flags), "errors": parsed["rustc_errors_in_bindings"], "first_error": parsed["first"],
                        "header": R2.render_decl(*decls[0]), "batch_dir": d})
        if shape != "union-field-accessors-do-not-compile" or tamper:
            return
        # the recorded defect is textual (calls of the unsafe fns as_ref/as_mut outside an unsafe block); with exactly
        # those calls wrapped the accessors of wrapper-style unions compile, and what they read and store is judged
        # like everywhere else (the finding above stays: the repair is the check's, not bindgen's)
        lines, parsed, d = R2.build_and_run(tag + "-unsafe-wrapped", decls, flags=flags, seeds=seeds, patch=wrap_union_field_calls)
        if lines is None:
            notes.append("wrapper-style unions of batch %s not judged by execution (still not compiling after wrapping as_ref/as_mut): %s"
                         % (tag, json.dumps(parsed)[:200]))
            return
        stats["union_wrapper_decls_judged_after_wrapping"] = stats.get("union_wrapper_decls_judged_after_wrapping", 0) + len(decls)
    if lines is None:
        # bindgen refusing / crashing on a valid header: the property says nothing (C12's subject)
        notes.append("bindgen failed on batch %s: %s" % (tag, json.dumps(parsed)[:300]))
        return
    by = {}
    for l in lines:
        by.setdefault(l.get("s"), []).append(l)
    for l in lines:
        if l["k"] == "crash":
            agg.add("generated-accessor-crash", {"batch": tag, "rc": l["rc"], "after": l["after"], "stderr": l["stderr"]})
    dd = dict(decls)
    live = [(n, p) for n, p in decls if any(l["k"] == "done" for l in by.get(n, []))]
    obs = [obs_line(n, p, by, parsed) for n, p in live]
    if tamper and obs:
        # non-vacuity of T: shift one observed getter constant by one bit; TLC must report it
        o = next(o for o in obs if o["r_bfs"] and o["kind"] == "struct" and o["attr"] == "none")
        o["r_bfs"][0]["off"] += 1
    viol, drift, model, counts, tr = trace_validate(tag, obs)
    if model:
        raise C.ToolError("CLayoutBits disagrees with clang (fix the spec): %s" % json.dumps(model[:3]))
    if tamper:
        if not any(v["id"] == o["id"] and v["what"] == "offset" for v in viol):
            raise C.ToolError("tampered observation was not rejected by Trace_BitAlloc")
        stats["tampered_observation_flagged"] += 1
        return
    tkeys = {}
    for v in viol:
        k = t_key(v)
        tkeys[(v["id"], v["i"])] = k
        p = dd[v["id"]]
        agg.add(k, {"via": "T", "decl": R2.render_decl(v["id"], p), "field": "f%d" % v["i"], "what": v["what"],
                    "c_bit_offset_or_needed_bits": v["want"], "generated_code_uses": v["got"],
                    "getter": "_bitfield_%d get<%d,%d>" % (v["unit"], v["off"], v["w"]), "unit_byte_offset": v["ustart"]})
    for dr in drift:
        stats["t_shape_diffs"] += 1
        if len(drifts) < 6:
            drifts.append("allocation shape differs from BitAlloc (%s, %s): predicted %s observed %s; decl %s" %
                          (dr["id"], dr["what"], json.dumps(dr["pred"])[:160], json.dumps(dr["obs"])[:160],
                           R2.render_decl(dr["id"], dd[dr["id"]]).replace("\n", " ")))
    for n, p in live:
        e = parsed.get(n, {"getters": {}})
        for i, f in enumerate(p["fields"], 1):
            if f["bw"] > 0 and f["named"] and ("f%d" % i) not in e["getters"]:
                stats["bitfields_without_accessor"] += 1
                if len(notes) < 30:
                    notes.append("no accessor generated for f%d of %s" % (i, R2.render_decl(n, p).replace("\n", " ")))
        rec = [l for l in by[n] if l["k"] == "rec"][0]
        if rec["c_size"] != rec["r_size"]:
            stats["size_differs"] += 1
        for l in by[n]:
            if l["k"] == "done":
                stats["checks"] += l["checks"]
                stats["assignments"] += l["assignments"]
            if l["k"] == "mismatch":
                if l["op"] != "ctor":
                    l["_getter"] = e["getters"].get("f%d" % l["f"])
                k = x_key(l, p, tkeys)
                w = {kk: vv for kk, vv in l.items() if not kk.startswith("_") and kk not in ("k",)}
                w["decl"] = R2.render_decl(n, p)
                w["flags"] = list(flags)
                if l.get("_getter"):
                    w["getter_constants"] = l["_getter"]
                agg.add(k, w)
                stats["mismatching_accessors"] += 1
    stats["structs"] += len(live)
    stats["bitfields"] += sum(len(o["r_bfs"]) for o in obs)
    stats["trace_states"] += tr["distinct"]
    stats["trace_transitions"] += tr["generated"]
    if len(samples) < 3 and live:
        n, p = live[len(live) // 2]
        samples.append({"R2_decl": R2.render_decl(n, p), "clang_layout_predicted": p["c"], "units_predicted": p["units"],
                        "observed": [l for l in by[n] if l["k"] in ("rec",)][0]})
    return [(n, p) for n, p in live if any(l["k"] == "mismatch" and l.get("r") == "panic" for l in by[n])]


class Sink:
    """what r2 wants to add to the Result; applied by the main thread"""

    def __init__(self):
        self.adds, self.notes, self.drift, self.samples = [], [], [], []

    def add(self, **kw):
        self.adds.append(kw)

    def sample_case(self, s):
        self.samples.append(s)

    def apply(self, res):
        for kw in self.adds:
            res.add(**kw)
        res.notes.extend(self.notes)
        res.drift.extend(self.drift)
        for s in self.samples:
            res.sample_case(s)


def tampered_bindings_selftest(sel, seeds):
    """non-vacuity of R2: the generated code of one setter is changed (offset constant + 1, getter left
    alone so that T cannot see it); the linked executable must report the store."""
    import re
    cand = [p for p in sel if p["kind"] == "struct" and p["attr"] == "none" and len(p["units"]) == 1
            and sum(1 for b in p["units"][0]["bfs"] if b["named"]) >= 2
            and all(b["off"] % 8 + b["w"] <= 64 for b in p["units"][0]["bfs"])][:8]
    if not cand:
        raise C.ToolError("no declaration suitable for the tampered-bindings self-test")
    decls = [("S%d" % i, p) for i, p in enumerate(cand)]
    hit = {}

    def patch(text):
        i = text.index("impl S0 ")
        m = re.compile(r"\bset_const\s*::\s*<\s*(\d+)\s*usize").search(text, i)
        hit["off"] = int(m.group(1))
        return text[:m.start(1)] + str(hit["off"] + 1) + text[m.end(1):]
    lines, parsed, d = R2.build_and_run("tamper-bindings", decls, seeds=seeds, patch=patch)
    bad = [l for l in (lines or []) if l["k"] == "mismatch" and l["s"] == "S0" and l["op"] == "set"]
    others = [l for l in (lines or []) if l["k"] == "mismatch" and l["s"] != "S0" and l["op"] in ("set", "set_raw")]
    if not bad:
        raise C.ToolError("tampered setter constant in the bindings was not reported by the executable")
    return {"tampered_setter_offset": "%d -> %d" % (hit["off"], hit["off"] + 1), "reported": bad[0],
            "untampered_structs_set_mismatches": len(others)}


MUTANTS = [
    ("bit_shift-modulus", "bit_offset % 8", "bit_offset % 4"),
    ("const-value-mask", "(1usize << BIT_WIDTH) - 1", "(1usize << BIT_WIDTH) - 2"),
    ("field-mask-at-64", "!0u64 << bit_shift", "!0u64"),
    ("be-bit-index", "7 - (index % 8)", "(index % 8)"),
    ("bytes_needed-rounding", "(bit_width as usize + bit_shift + 7) / 8", "(bit_width as usize + bit_shift) / 8"),
]


def mutants_selftest(recs):
    """non-vacuity of R1: mutated copies of bitfield_unit.rs (built through $BFSWEEP_SRC, /repo untouched)
    must produce property failures outside the known defect region."""
    d = C.workdir("c03-mutants")
    src = open(os.path.join(C.REPO, "bindgen", "codegen", "bitfield_unit.rs")).read()
    sub = [p for p in recs if p["n"] in (1, 2, 8, 9)]
    lines, meta = sweep_lines(sub)
    lst = os.path.join(d, "const_set.txt")
    with open(lst, "w") as f:
        f.write("".join("%d %d %d\n" % (n, o, w) for n in (1, 2) for o in range(8 * n) for w in range(1, 65) if o + w <= 8 * n))
    out = {}
    for name, a, b in MUTANTS:
        if a not in src:
            out[name] = "site not present any more"
            continue
        mp = os.path.join(d, name + ".rs")
        with open(mp, "w") as f:
            f.write(src.replace(a, b))
        env = dict(os.environ)
        env.pop("RUSTFLAGS", None)
        env.update({"BFSWEEP_CONST_SET": lst, "BFSWEEP_SRC": mp, "CARGO_ENCODED_RUSTFLAGS": ""})
        tdir = os.path.join(C.TARGET, "bfsweep-mutant")
        p = C.cargo(["cargo", "build", "--offline", "-q", "--target-dir", tdir, "--profile", "wrap"], cwd=BFSWEEP,
                    env=env, timeout=1200)
        if p.returncode != 0:
            out[name] = "mutant does not compile"
            continue
        exe = os.path.join(tdir, "wrap", "bfsweep")
        info = json.loads(subprocess.run([exe, "info"], stdout=subprocess.PIPE, text=True).stdout)
        if not info.get("src_override"):
            raise C.ToolError("mutant build did not use $BFSWEEP_SRC")
        a2, st = Agg(), {"executed": 0, "noinst": 0, "property_failures": 0, "shape_diffs": 0}
        compare_sweep("wrap", run_sweep(exe, lines), meta, a2, [], st)
        new = sorted(k for k in a2.v if k != K_EXTENT)
        if not new:
            raise C.ToolError("mutant %s of bitfield_unit.rs was not detected" % name)
        out[name] = {"new_violation_keys": len(new), "example": new[0], "failures": sum(a2.v[k]["count"] for k in new)}
    return out


def r2(res, tier, agg):
    rnd = random.Random(C.seed() * 7919 + 3)
    quick = tier == "quick"
    attrs = R2.ATTRS_QUICK if quick else R2.ATTRS_THOROUGH
    fams = dict(R2.FAMILIES)
    fams["seeded"] = R2.seeded_family(rnd)
    stats = {k: 0 for k in ("structs", "bitfields", "checks", "assignments", "mismatching_accessors", "t_shape_diffs",
                            "bitfields_without_accessor", "size_differs", "trace_states", "trace_transitions",
                            "tampered_observation_flagged", "declarations_enumerated", "gen_states", "gen_transitions")}
    notes, drifts, samples = [], [], []
    seeds = [rnd.getrandbits(64) for _ in range(2)]
    panicky = []
    T0 = time.time()
    for name in sorted(fams):
        C.log("c03: R2 family %s at %.0fs" % (name, time.time() - T0))
        recs, g = R2.generate(name, fams[name], 3 if quick else 4, attrs)
        stats["declarations_enumerated"] += len(recs)
        stats["gen_states"] += g["distinct"]
        stats["gen_transitions"] += g["generated"]
        if not quick:
            # runs of up to 6 fields, sampled by TLC's simulator from the same machine
            more, g2 = R2.generate(name + "-long", fams[name], 6, attrs, simulate=400)
            more = [p for p in more if len(p["fields"]) >= 5]
            stats["declarations_enumerated"] += len(more)
            recs = recs + more
        sel = R2.select(recs, 160 if quick else 900, rnd, per_sig=1 if quick else 3)
        for j in range(0, len(sel), 300):
            pk = r2_batch("%s-%d" % (name, j // 300), sel[j:j + 300], [], agg, stats, notes, drifts, samples, seeds)
            panicky.extend(pk or [])
        if name in ("basic", "boolenum"):
            # unions as structs of __BindgenUnionField: the run-time (non const-generic) accessor forms
            un = [p for p in sel if p["kind"] == "union"][:60 if quick else 200]
            pk = r2_batch(name + "-nounion", un, ["--disable-untagged-union"], agg, stats, notes, drifts, samples, seeds)
        if name == "basic":
            r2_batch("tamper", sel[:40], [], agg, stats, notes, drifts, samples, seeds, tamper=True)
            res.add(r2_tampered_bindings_selftest=tampered_bindings_selftest(recs, seeds))
    # what an unchecked (release) build does where the checked build panicked: witnesses only
    if panicky:
        sub = panicky[:80]
        decls = [("S%d" % i, p) for i, (_, p) in enumerate(sub)]
        lines, parsed, d = R2.build_and_run("unchecked", decls, checked=False, seeds=seeds)
        n_wrong = sum(1 for l in (lines or []) if l["k"] == "mismatch" and l.get("r") != "panic")
        res.add(r2_unchecked_rebuild={"structs": len(decls), "wrong_values": n_wrong,
                                      "still_panicking": sum(1 for l in (lines or []) if l["k"] == "mismatch" and l.get("r") == "panic")})
        for l in (lines or []):
            if l["k"] == "mismatch" and l.get("r") != "panic" and len(res.notes) < 12:
                p = dict(decls)[l["s"]]
                res.notes.append("unchecked build: %s %s f%d of [%s]: C %s, Rust %s" % (
                    l["op"], l["s"], l["f"], R2.render_decl(l["s"], p).replace("\n", " "), l["c"], l["r"]))
    if not stats["tampered_observation_flagged"]:
        raise C.ToolError("the tampered-observation self-test did not run")
    res.drift.extend(drifts)
    res.notes.extend(notes)
    for s in samples:
        res.sample_case(s)
    res.add(r2_structs_executed=stats["structs"], r2_bitfields=stats["bitfields"], r2_accessor_checks=stats["checks"],
            r2_assignments=stats["assignments"], r2_mismatching_accessors=stats["mismatching_accessors"],
            r2_declarations_enumerated=stats["declarations_enumerated"], t_shape_diffs=stats["t_shape_diffs"],
            bitfields_without_accessor=stats["bitfields_without_accessor"], r2_size_differs=stats["size_differs"],
            t_tampered_observation_flagged=stats["tampered_observation_flagged"],
            r2_union_wrapper_decls_judged_after_wrapping=stats.get("union_wrapper_decls_judged_after_wrapping", 0),
            traces_validated_against_impl=stats["structs"],
            states=stats["gen_states"] + stats["trace_states"],
            transitions=stats["gen_transitions"] + stats["trace_transitions"])


# ---------------------------------------------------------------------------

def run(res, tier):
    res.assumptions += [
        "big-endian arithmetic of bitfield_unit.rs is executed on this little-endian host on a copy of the file in "
        "which `cfg!(target_endian = \"big\")` is replaced by `true` (the code addresses storage bytewise only); "
        "the big-endian reference (MSB-first allocation) is bound to a C compiler only through R3 (bytes of static "
        "initialisers compiled by clang for powerpc64 vs the big-endian branch at bindgen's constants for that target)",
        "usize = 32 is model-checked only (MC_BitUnit usize32); the sweep executes usize = 64",
        "CLayoutBits (x86_64 SysV/Itanium) is bound to clang 14 by T: every executed declaration's bit offsets and size "
        "must equal the spec's, else the run is a tool error",
        "under-aligned base types are typedefs with aligned(1|2|4) (R2, executed on x86_64) and long long on i686 (R4: T only, "
        "bit offsets from clang's static initialisers, unit at byte 0 assumed, nothing executed)",
        "bit-fields wider than their type (C++), ms_struct, Objective-C and bit-fields with an aligned attribute on the field "
        "itself are outside the universe",
    ]
    C.build()
    builds = {}
    th = [threading.Thread(target=build_sweep, args=(tier, prof, builds)) for prof in ("checked", "wrap")]
    for t in th:
        t.start()
    agg = Agg()
    box = {}

    sink = Sink()

    def r2_thread():
        try:
            r2(sink, tier, agg)
        except Exception as e:  # noqa: BLE001
            box["err"] = e
    t2 = threading.Thread(target=r2_thread)
    t2.start()
    t3 = threading.Thread(target=model_side, args=(tier, box))
    t3.start()
    t0 = time.time()
    recs, r = model_bitunit(res, tier)
    C.log("c03: MC_BitUnit %.0fs (%d cases)" % (time.time() - t0, len(recs)))
    t3.join()
    if "side_err" in box:
        raise box["side_err"]
    r32, nsens = box["r32"], box["nsens"]
    res.add(states=r["distinct"] + r32["distinct"], transitions=r["generated"] + r32["generated"],
            model_bitunit={"cases": len(recs), "states": r["distinct"], "wall_s": round(r["wall"], 1),
                           "usize32_states": r32["distinct"]})
    res.add(sensitivity_configs_failing_as_expected=nsens)
    for t in th:
        t.join()
    t0 = time.time()
    r1(res, tier, recs, builds, agg)
    C.log("c03: R1 sweep %.0fs" % (time.time() - t0))
    if tier == "thorough" or os.environ.get("VERIF_C03_MUTANTS"):
        t0 = time.time()
        res.add(r1_mutants_of_bitfield_unit_detected=mutants_selftest(recs))
        C.log("c03: mutants %.0fs" % (time.time() - t0))
    t0 = time.time()
    r3(res, tier, builds, agg)
    C.log("c03: R3 big-endian cross-check %.0fs" % (time.time() - t0))
    t0 = time.time()
    r4(res, tier, agg)
    C.log("c03: R4 i686 %.0fs" % (time.time() - t0))
    t0 = time.time()
    t2.join()
    C.log("c03: waited %.0fs more for R2" % (time.time() - t0))
    if "err" in box:
        raise box["err"]
    sink.apply(res)
    agg.flush(res)
    res.cov["exhaustive"] = False


def replay(res, path):
    """Re-run the check; the replay file lists the failing shapes with their witnesses."""
    with open(path) as f:
        data = json.load(f)
    for v in data.get("violations", []):
        C.log("replaying %s: %s" % (v["key"], json.dumps(v["detail"])[:400]))
    run(res, "quick")
