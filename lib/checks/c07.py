"""C07 - inferred type facts are the least fixed point; declaration order is irrelevant.

model  : MC_Analyses.tla (work-list machine x IRRules) over every small graph, all schedules
T1     : Trace_Analyses.tla over hook logs of the repository corpus + generated programs
R1     : forced work-list schedules in the real `analyze` loop (LATENT diagnostics only)
R2     : TLC-enumerated declaration orders of generated C++ programs, inventories compared
"""
import json
import os

import common as C
import gen_orders

LEVEL = "model_checking"
CORE = os.path.join(C.SPEC, "core")
ANALYSES = ["has_vtable", "sizedness", "has_destructor", "has_float", "type_param_in_array",
            "used_template_params", "derive_copy", "derive_debug", "derive_default", "derive_hash",
            "derive_partialeq"]
SENSITIVITY = ["MC_has_vtable_2_any_noTemplateDeclaration.cfg", "MC_has_float_2_noField.cfg",
               "MC_has_destructor_2_noBaseMember.cfg", "MC_derive_copy_2_anySchedule_fails.cfg"]
EVENTS = {"reset", "ir", "vouch", "an_done", "lookup", "gen_end"}


def model(res, tier):
    n = 3 if tier == "thorough" else 2
    cfgs = ["MC_%s_%d.cfg" % (a, n) for a in ANALYSES]
    st = tr = 0
    for cfg in cfgs:
        r = C.tlc(os.path.join(CORE, "MC_Analyses.tla"), cfg=os.path.join("mc", cfg),
                  workers=12, timeout=3000, name="c07-" + cfg)
        if not C.tlc_ok(r):
            # the spec is fixed: a failure here is a defect of the model, not of the code
            raise C.ToolError("model %s failed: %s" % (cfg, r["out"][-1500:]))
        st += r["distinct"]
        tr += r["generated"]
    res.add(states=st, transitions=tr, model_configs=len(cfgs))
    # mechanisms removed => TLC must find the counterexample, or the model guards nothing
    for cfg in SENSITIVITY:
        r = C.tlc(os.path.join(CORE, "MC_Analyses.tla"), cfg=os.path.join("mc", cfg),
                  workers=4, timeout=600, name="c07-" + cfg)
        if "is violated" not in r["out"]:
            raise C.ToolError("sensitivity config %s did not fail" % cfg)
    res.add(sensitivity_configs_failing_as_expected=len(SENSITIVITY))


def validate(res, d, ids, name, prefix="", chunk=250):
    """Run Trace_Analyses over the logs of `ids` (in chunks: one TLC run per `chunk` cases);
    returns (violations, drift, counts, tlc result)."""
    if len(ids) > chunk:
        viol, drift, counts, rr = [], [], {}, {"distinct": 0, "generated": 0}
        for k in range(0, len(ids), chunk):
            v, dr, c, r = validate(res, d, ids[k:k + chunk], "%s-%d" % (name, k // chunk), prefix, chunk)
            viol += v
            drift += dr
            for a, b in c.items():
                counts[a] = counts.get(a, 0) + b if isinstance(b, (int, float)) else b
            rr["distinct"] += r.get("distinct", 0)
            rr["generated"] += r.get("generated", 0)
        return viol, drift, counts, rr
    trace = os.path.join(C.workdir("c07-trace-" + name), "trace.ndjson")
    n = C.build_trace(d, ids, EVENTS, trace, prefix)
    if n == 0:
        return [], [], {"lookups": 0, "cases": 0, "events": 0}, {"distinct": 0, "generated": 0}
    r = C.tlc(os.path.join(CORE, "Trace_Analyses.tla"), cfg="Trace_Analyses.cfg",
              env={"TRACE": trace}, workers=1, dfs=True, timeout=3000, name="c07-tv-" + name)
    if not C.tlc_ok(r):
        rej = C.tlc_prints(r["out"], "REJECTED")
        raise C.ToolError("trace validation did not complete (%s): %s" % (name, (rej or r["out"][-1500:])))
    viol = C.tlc_prints(r["out"], "VIOL")
    drift = C.tlc_prints(r["out"], "DRIFT")
    counts = C.tlc_prints(r["out"], "COUNTS")
    os.remove(trace)
    return (viol[0] if viol else []), (drift[0] if drift else []), (counts[0] if counts else {}), r


def report(res, viol, latent=False):
    for v in viol:
        key = "%s:%s:%s:item=%s" % (v.get("kind"), v.get("analysis"), v.get("case"), v.get("item"))
        if latent:
            res.notes.append("LATENT (forced schedule only) " + key)
        else:
            res.violation(key, v)


def run(res, tier):
    res.assumptions += [
        "the rules of spec/core/IRRules.tla are the inference rules (transcribed from the analyses' documented rules; "
        "the whole repository corpus agrees with them on every consulted node)",
        "front end (clang AST -> IR) is observed at its output only",
        "forced work-list schedules that no declaration order induces are diagnostic (LATENT), not violations",
    ]
    C.build()
    model(res, tier)

    # ---- T1: repository corpus, natural schedule -------------------------------------------
    cases = C.corpus_cases()
    sel = C.sample(cases, None if tier == "thorough" else 150, "c07-t1")
    d, out = C.run_cases_logged(sel, "c07-corpus")
    viol, drift, counts, r = validate(res, d, [c["id"] for c in sel], "corpus")
    report(res, viol)
    for dr in drift:
        res.drift.append("analysis %(analysis)s differs from the LFP on %(count)s unconsulted node(s) in %(case)s" % dr)
    res.add(traces_validated_against_impl=counts.get("cases", 0), lookups_checked=counts.get("lookups", 0),
            trace_events=counts.get("events", 0), trace_states=r["distinct"])
    res.sample_case({"trace_case": sel[0]["id"], "args": sel[0]["args"][1:8]})

    # ---- R1: forced schedules (diagnostic) ----------------------------------------------------
    nsched = 60 if tier == "thorough" else 25
    sub = C.sample([c for c in sel if out.get(c["id"], {}).get("outcome") == "ok"], nsched, "c07-r1")
    scheds = ["fifo", "rand:%d" % (C.seed() * 7 + 1), "rand:%d" % (C.seed() * 7 + 2)]
    latent = 0
    for s in scheds:
        tag = s.replace(":", "")
        d2, out2 = C.run_cases_logged(sub, "c07-sched-" + tag, schedule=s)
        v2, _, c2, _ = validate(res, d2, [c["id"] for c in sub], "sched-" + tag, prefix=tag + "/")
        report(res, v2, latent=True)
        latent += len(v2)
        for c in sub:
            a = os.path.join(d, c["id"] + ".rs")
            b = os.path.join(d2, c["id"] + ".rs")
            if os.path.exists(a) and os.path.exists(b) and open(a).read() != open(b).read():
                res.notes.append("LATENT output differs under schedule %s: %s" % (s, c["id"]))
                latent += 1
        res.add(traces_validated_against_impl=c2.get("cases", 0), lookups_checked=c2.get("lookups", 0))
    res.add(forced_schedule_runs=len(sub) * len(scheds), latent_diagnostics=latent)

    # ---- R2: declaration orders enumerated by TLC ----------------------------------------------
    gen_orders.run(res, tier, validate, report)
    res.cov["exhaustive"] = False
