"""C16 - static-function wrappers compile and behave like the wrapped functions.

model : MC_Wrappers.tla (Wrappers.tla over Symbols.FnStep with --wrap-static-fns): wrapper <-> binding
        bijection, no dangling binding, variadic statics unbound; sensitivity configs; the shapes on
        which the model yields a dangling binding (C++ mangling, Rust-keyword names, link-name override)
        must fail in the model and are re-found on the real code.
R     : Gen_Statics.tla behaviours -> headers (by path / two headers / in-memory contents, custom suffix
        and path, wrap-as-variadic callback) -> real bindgen through the library driver -> clang compiles
        the emitted source with the same flags -> nm -> link -> token protocol: wrapper call from Rust vs
        direct call from a C translation unit vs TLC's prediction.
T     : Trace_Wrappers.tla judges every library (bindings, nm symbol sets).
"""
import json
import os
import re
import subprocess
from concurrent.futures import ThreadPoolExecutor

import c16_cfgs
import common as C
import ffi
import ffi_statics
import sym_corpus

LEVEL = "model_checking"
BACK = os.path.join(C.SPEC, "back")
MC = ["MC_Wrappers_c.cfg"]
MC_KNOWN = ["MC_Wrappers_k_cxx.cfg", "MC_Wrappers_k_keyword.cfg", "MC_Wrappers_k_linkov.cfg"]
SENSITIVITY = ["MC_Wrappers_x_wrapVariadic.cfg", "MC_Wrappers_x_bindPlain.cfg", "MC_Wrappers_x_defaultSuffix.cfg"]
TAMPER = os.environ.get("VERIF_C16_TAMPER", "")   # dropwrapper | swapwrapper | swapargs (non-vacuity demonstrations)


def model(res):
    st = tr = 0
    for cfg in MC:
        r = C.tlc(os.path.join(BACK, "MC_Wrappers.tla"), cfg=cfg, workers=8, timeout=900, name="c16-" + cfg)
        if not C.tlc_ok(r):
            raise C.ToolError("model %s failed: %s" % (cfg, r["out"][-1500:]))
        st += r["distinct"]
        tr += r["generated"]
    res.add(states=st, transitions=tr, model_configs=len(MC))
    for cfg in MC_KNOWN + SENSITIVITY:
        r = C.tlc(os.path.join(BACK, "MC_Wrappers.tla"), cfg=cfg, workers=2, timeout=600, name="c16-" + cfg)
        if "is violated" not in r["out"]:
            raise C.ToolError("config %s was expected to produce a counterexample" % cfg)
    res.add(sensitivity_configs_failing_as_expected=len(SENSITIVITY),
            known_shape_configs_failing_as_expected=len(MC_KNOWN))


def generate(res, cfg, simulate=None, seed=0, name=None):
    extra = ["-seed", str(seed + 1)] if simulate else []
    r = C.tlc(os.path.join(BACK, "Gen_Statics.tla"), cfg=cfg, workers=1 if simulate else 8, simulate=simulate,
              depth=4000 if simulate else None, extra=extra, timeout=1200, name="c16-" + (name or cfg))
    libs = C.tlc_prints(r["out"], "LIB")
    types = C.tlc_prints(r["out"], "TYPES")
    if (not simulate and not C.tlc_ok(r)) or not libs or not types or "is violated" in r["out"]:
        raise C.ToolError("Gen_Statics %s failed: %s" % (cfg, r["out"][-1500:]))
    if not simulate:
        res.add(states=r["distinct"], transitions=r["generated"])
    return ffi.Types(types[0]), libs


def merge(libs, chunk):
    """Single-function behaviours with equal options -> libraries of <= chunk functions."""
    groups = {}
    for l in libs:
        groups.setdefault(json.dumps(l["opt"], sort_keys=True), []).append(l)
    out = []
    for key, ls in sorted(groups.items()):
        seen, fns = set(), []
        for l in sorted(ls, key=lambda l: l["fns"][0]["cname"]):
            f = l["fns"][0]
            if f["cname"] not in seen:
                seen.add(f["cname"])
                fns.append(f)
        for i in range(0, len(fns), chunk):
            part = [dict(f, i=j) for j, f in enumerate(fns[i:i + chunk])]
            defs = [f["pred"].get("wrapper", "") if f["pred"]["binding"] == "wrapped" else "" for f in part]
            out.append({"opt": json.loads(key), "fns": part,
                        "file": dict(ls[0]["file"], defs=defs, written=any(defs))})
    return out


def shape_key(lib, f):
    return "%s:%s:%s%s" % (lib.opt["lang"], f["shape"], f["kind"], ":plink" if lib.opt["plink"] else "")


def norm_error(err):
    for line in err.splitlines():
        m = re.search(r"error: (.*)", line)
        if m:
            msg = m.group(1)
            if "unknown type name 'bool'" in msg:
                return "unknown-type-bool"
            return re.sub(r"'[^']*'", "'_'", msg)[:60].replace(" ", "-")
    return "unknown"


class Batch:
    def __init__(self, res, types, libs, name):
        self.res, self.types, self.name = res, types, name
        self.dir = C.workdir("c16-" + name)
        self.libs = [ffi_statics.StaticsLib(rec, types, "%s%03d" % (name, i), self.dir) for i, rec in enumerate(libs)]
        self.obs = []
        self.counts = ffi.Counts({"functions": 0, "bindings": 0, "wrappers_defined": 0, "wrapper_sources_compiled": 0,
                       "wrapper_calls_executed": 0, "wrapper_calls_equal_direct_and_predicted": 0,
                       "libraries": 0, "exec_libraries": 0})

    def run(self):
        jobs = []
        for lib in self.libs:
            for n, t in lib.headers():
                with open(os.path.join(self.dir, n), "w") as f:
                    f.write(t)
            jobs.append(lib.job())
        jf = os.path.join(self.dir, "jobs.json")
        with open(jf, "w") as f:
            json.dump({"jobs": jobs}, f)
        try:
            p = subprocess.run([C.BVDRIVE, "statics", jf], cwd=self.dir, stdout=subprocess.PIPE, stderr=subprocess.PIPE,
                               text=True, timeout=1800)
        except subprocess.TimeoutExpired:
            raise C.ToolError("bvdrive statics timed out")
        out = {}
        for line in p.stdout.splitlines():
            try:
                r = json.loads(line)
                out[r["id"]] = r
            except ValueError:
                pass
        if p.returncode != 0 and len(out) < len(jobs):
            for j in jobs:
                out.setdefault(j["id"], {"outcome": "crash:%d" % p.returncode, "msg": p.stderr[-500:]})
        good = []
        for lib in self.libs:
            o = out.get(lib.name, {"outcome": "missing", "msg": ""})
            if o["outcome"] != "ok":
                self.res.violation("bindgen-failed:%s:%s" % (o["outcome"], lib.opt["lang"]),
                                   {"library": lib.name, "msg": o.get("msg", "")[:600], "options": lib.opt})
            else:
                good.append(lib)
        invs = C.inventory([os.path.join(self.dir, l.name + ".rs") for l in good])
        with ThreadPoolExecutor(max_workers=10) as ex:
            list(ex.map(lambda l: self.one(l, invs.get(os.path.join(self.dir, l.name + ".rs"), {})), good))
        return self

    def cc(self, lib, src, obj):
        cmd = ["clang", "-w", "-I" + self.dir] + (["-x", "c++"] if lib.cxx else ["-std=gnu11"]) + ["-c", src, "-o", obj]
        return ffi.run(cmd, cwd=self.dir)

    def one(self, lib, inv):
        res = self.res
        self.counts.inc("libraries", 1)
        if not inv.get("ok"):
            raise C.ToolError("bindings of %s do not parse: %s" % (lib.name, inv.get("err")))
        items = [it for it in ffi.foreign_items(inv) if it["kind"] == "fn"]
        by_ident = {}
        for it in items:
            by_ident.setdefault(it["ident"], []).append(it)
        used = set()
        for f in lib.fns:
            self.counts.inc("functions", 1)
            p = f["pred"]
            it = None
            for cand in ([p["ident"]] if p["binding"] != "none" else []) + [f["cname"], f["cname"] + "_", f["cname"] + "_wrapped"]:
                if cand in by_ident and cand not in used:
                    it = by_ident[cand][0]
                    break
            if it is not None:
                used.add(it["ident"])
                f["item"] = it
                self.counts.inc("bindings", 1)
        # ---- the emitted wrapper source, compiled with the flags bindgen was given -----------------
        wsrc = lib.wrap_path + (".cpp" if lib.cxx else ".c")
        other = lib.wrap_path + (".c" if lib.cxx else ".cpp")
        wrapperdefs, compiled = [], False
        if os.path.exists(other) and not os.path.exists(wsrc):
            res.drift.append("%s: wrapper source written as %s" % (lib.name, os.path.basename(other)))
            wsrc = other
        if os.path.exists(wsrc):
            # file assembly (Gen_Statics FilePred.assembly): includes of every input header, or the contents
            text = open(wsrc).read()
            if lib.file["assembly"] == "contents":
                missing = [n for n, t in lib.headers() if t.strip() not in text]
                if missing:
                    res.violation("wrapper-file-assembly:contents-missing",
                                  {"library": lib.name, "input": "header_contents", "source_head": text[:300]})
                    return
            else:
                missing = [n for n, _ in lib.headers() if '#include "%s"' % os.path.join(self.dir, n) not in text]
                if missing:
                    res.violation("wrapper-file-assembly:include-missing", {"library": lib.name, "missing": missing, "source_head": text[:300]})
                    return
            if TAMPER == "dropwrapper":
                txt = open(wsrc).read().splitlines()
                for i in range(len(txt) - 1, -1, -1):
                    if lib.suffix + "(" in txt[i]:
                        del txt[i]              # tampered observation: one wrapper removed
                        break
                open(wsrc, "w").write("\n".join(txt) + "\n")
            if TAMPER == "swapwrapper":     # the wrapper forwards its first two arguments swapped
                open(wsrc, "w").write(re.sub(r"\{ (return )?(\w+)\((\w+), (\w+)", r"{ \1\2(\4, \3", text))
            rc, _, err = self.cc(lib, wsrc, lib.wrap_path + ".o")
            if rc != 0:
                res.violation("wrapper-source-rejected:%s:%s" % (lib.opt["lang"], norm_error(err)),
                              {"library": lib.name, "clang": err[:700], "options": lib.opt,
                               "source_tail": open(wsrc).read()[-600:]})
                return      # no object to look at: the symbol-level predicates cannot be observed
            else:
                compiled = True
                self.counts.inc("wrapper_sources_compiled", 1)
                defined, _ = ffi.nm_symbols(lib.wrap_path + ".o")
                wrapperdefs = sorted(s for s, t in defined.items() if t in "TW")
                self.counts.inc("wrappers_defined", len(wrapperdefs))
        with open(os.path.join(self.dir, lib.name + "_helpers.c"), "w") as f:
            f.write(lib.helpers_c())
        hobj = os.path.join(self.dir, lib.name + "_helpers.o")
        rc, _, err = self.cc(lib, os.path.join(self.dir, lib.name + "_helpers.c"), hobj)
        if rc != 0:
            raise C.ToolError("clang rejected the generated helper unit of %s: %s" % (lib.name, err[:800]))
        hdef, _ = ffi.nm_symbols(hobj)
        externsyms = []
        for f in lib.fns:
            if f["kind"] == "extern":
                if lib.cxx:
                    cands = [s for s, t in hdef.items() if t == "T" and f["cname"] in s]
                    if len(cands) != 1:
                        raise C.ToolError("cannot identify the symbol of %s" % f["cname"])
                    f["csym"] = cands[0]
                else:
                    f["csym"] = f["cname"]
                    if hdef.get(f["csym"]) != "T":
                        raise C.ToolError("generated definition of %s missing" % f["cname"])
                externsyms.append(f["csym"])
        # ---- observation for Trace_Wrappers ---------------------------------------------------------
        def pred_of(f):
            p = f["pred"]
            if p["binding"] == "none":
                return {"binding": "none", "ident": [], "link": {"kind": "none", "name": []}}
            return {"binding": p["binding"], "ident": ffi.chars(p["ident"]),
                    "link": {"kind": p["link"]["kind"], "name": ffi.chars(p["link"]["name"])}}
        bindings, unbound = [], []
        for f in lib.fns:
            it = f.get("item")
            if it is None:
                unbound.append({"cname": f["cname"], "internal": f["internal"], "variadic": f["kind"] == "variadic_static",
                                "pred": pred_of(f)})
                continue
            bindings.append({"cname": f["cname"], "internal": f["internal"], "variadic": f["kind"] == "variadic_static",
                             "kind": f["kind"], "shape": f["shape"], "ident": ffi.chars(it["ident"]), "abi": it["abi"],
                             "link": {"kind": it["link"]["kind"], "name": ffi.chars(it["link"]["name"])}, "pred": pred_of(f)})
        self.obs.append({"ev": "lib", "case": lib.name, "target": "elf", "suffix": ffi.chars(lib.suffix), "opaque": lib.cxx,
                         "bindings": bindings, "unbound": unbound, "wrapperdefs": [ffi.chars(w) for w in wrapperdefs],
                         "externsyms": [ffi.chars(s) for s in externsyms],
                         "meta": {"lang": lib.opt["lang"], "plink": lib.opt["plink"]}})
        # file assembly (shape): extension and existence as predicted
        if lib.file["written"] != os.path.exists(wsrc):
            res.drift.append("%s: wrapper source %s, predicted %s" % (
                lib.name, "written" if os.path.exists(wsrc) else "absent", "written" if lib.file["written"] else "absent"))
        if lib.cxx or not compiled and lib.file["written"]:
            return
        self.execute(lib, set(wrapperdefs) | set(externsyms))

    def execute(self, lib, avail):
        res = self.res
        call = {}
        for f in lib.fns:
            it = f.get("item")
            if not it or f["pred"]["binding"] == "none" or not f["pred"].get("callable"):
                continue
            sym = it["link"]["name"] if it["link"]["kind"] != "none" else it["ident"]
            if sym in avail:
                call[f["i"]] = it["ident"]
        if not call:
            return
        d = self.dir
        dsrc = os.path.join(d, lib.name + "_direct.c")
        with open(dsrc, "w") as f:
            f.write(lib.direct_c(sorted(call)))
        rc, _, err = self.cc(lib, dsrc, os.path.join(d, lib.name + "_direct.o"))
        if rc != 0:
            raise C.ToolError("clang rejected the direct-call unit of %s: %s" % (lib.name, err[:800]))
        objs = [os.path.join(d, lib.name + "_helpers.o"), os.path.join(d, lib.name + "_direct.o")]
        if os.path.exists(lib.wrap_path + ".o"):
            objs.append(lib.wrap_path + ".o")
        exe = None
        for attempt in range(4):
            src, lines = lib.rust_main(os.path.join(d, lib.name + ".rs"), call)
            if TAMPER == "swapargs":
                src = re.sub(r"fp\((vf_tok_\w+\(\d+\)), (vf_tok_\w+\(\d+\))", r"fp(\2, \1", src)
            mp = os.path.join(d, lib.name + "_main.rs")
            with open(mp, "w") as f:
                f.write(src)
            cmd = ["rustc", "--edition", "2021", "-C", "codegen-units=1", "-C", "opt-level=0", "-C", "debuginfo=0",
                   "--crate-name", lib.name + "_main", "--out-dir", d, "--error-format=short", mp]
            for o in objs:
                cmd += ["-C", "link-arg=" + o]
            rc, _, err = ffi.run(cmd, cwd=d, timeout=900)
            if rc == 0:
                exe = os.path.join(d, lib.name + "_main")
                break
            bad, fatal = set(), []
            for line in err.splitlines():
                m = re.match(r"(.*?):(\d+):\d+: error(\[E\d+\])?: (.*)", line)
                if m and m.group(1).endswith("_main.rs") and int(m.group(2)) in lines:
                    bad.add((lines[int(m.group(2))], m.group(4)[:160]))
                elif m or "error: linking" in line:
                    fatal.append(line)
            if TAMPER == "swapargs" and bad:
                for i, msg in bad:
                    call.pop(i, None)
                continue
            if fatal or not bad:
                raise C.ToolError("rustc failed on the caller of %s: %s" % (lib.name, err[-1500:]))
            for i, msg in bad:
                f = lib.fns[i]
                res.violation("sig-mismatch:%s:%s->%s" % (shape_key(lib, f), ",".join(f["args"]), f["ret"]),
                              {"library": lib.name, "fn": f["cname"], "predicted": f["pred"]["sig"],
                               "binding": f["item"]["tokens"][:300], "rustc": msg})
                call.pop(i, None)
        if exe is None:
            raise C.ToolError("caller of %s still does not compile" % lib.name)
        rc, out, err = ffi.run([exe], cwd=d, timeout=120)
        for junk in [exe] + objs:
            if os.path.exists(junk):
                os.remove(junk)          # keep the scratch small: sources stay, binaries go
        if rc != 0:
            res.violation("caller-crashed:%s" % lib.opt["lang"], {"library": lib.name, "rc": rc, "stderr": err[-300:]})
            return
        self.counts.inc("exec_libraries", 1)
        W, D = {}, {}
        for line in out.splitlines():
            parts = line.split()
            if parts and parts[0] in ("W", "D"):
                (W if parts[0] == "W" else D)[int(parts[1])] = [int(x) for x in parts[2:]]
        for i in call:
            f = lib.fns[i]
            p = f["pred"]
            exp = [p["code"], -1 if f["ret"] == "void" else p["rtok"], p["cbcode"]]
            self.counts.inc("wrapper_calls_executed", 1)
            if W.get(i) == exp and D.get(i) == exp:
                self.counts.inc("wrapper_calls_equal_direct_and_predicted", 1)
                continue
            if D.get(i) != exp:
                raise C.ToolError("direct C call of %s disagrees with the specification: %s vs %s (renderer bug)" % (f["cname"], D.get(i), exp))
            res.violation("wrapper-behaviour:%s:%s->%s" % (shape_key(lib, f), ",".join(f["args"]), f["ret"]),
                          {"library": lib.name, "fn": f["cname"], "through_wrapper[code,ret,cb]": W.get(i), "direct_call": D.get(i),
                           "predicted": exp, "binding": f["item"]["tokens"][:300]})


def validate(res, obs, name):
    if not obs:
        return
    d = C.workdir("c16-trace-" + name)
    trace = os.path.join(d, "obs.ndjson")
    meta = {}
    with open(trace, "w") as f:
        for o in obs:
            meta[o["case"]] = o.pop("meta")
            f.write(json.dumps(o) + "\n")
    r = C.tlc(os.path.join(BACK, "Trace_Wrappers.tla"), cfg="Trace_Wrappers.cfg", env={"TRACE": trace}, workers=1,
              dfs=True, timeout=1800, name="c16-tv-" + name)
    if not C.tlc_ok(r):
        raise C.ToolError("Trace_Wrappers did not complete (%s): %s" % (name, r["out"][-1500:]))
    viol = C.tlc_prints(r["out"], "VIOL")[0]
    drift = C.tlc_prints(r["out"], "DRIFT")[0]
    counts = C.tlc_prints(r["out"], "COUNTS")[0]
    for v in viol:
        m = meta.get(v["case"], {})
        key = "%s:%s:%s:%s%s" % (v["what"], m.get("lang", "?"), v.get("shape") or "-", v.get("kind") or "-",
                                 ":plink" if m.get("plink") else "")
        res.violation(key, v)
    for dr in drift[:10]:
        res.drift.append("decision/name differs from Gen_Statics: %s %s ident=%s predicted=%s" % (dr["case"], dr["cname"], dr["ident"], dr["pred"]))
    res.add(libraries_validated_by_tlc=counts["libs"], bindings_validated_by_tlc=counts["bindings"], trace_states=r["distinct"])


def report_sym(res, viol, drift, where):
    """Verdicts of Trace_SymEvents.tla that belong to C16."""
    for v in viol:
        if v["what"] == "dangling":
            shape = "keyword" if v["keyword"] else "plain"
            res.violation("dangling:%s:%s:static%s" % ("cxx" if v["cxx"] else "c", shape, ":plink" if v["linkcb"] else ""), dict(v, source=where))
    for dr in drift[:10]:
        if dr["what"] in ("should-wrap-rule", "hook-vs-text"):
            res.drift.append("%s sym event %s: %s %s ident=%s link=%s" % (where, dr["what"], dr["case"], dr["name"], dr["ident"], dr["link"]))


def replay_libs(res, types, libs, name, counts):
    b = Batch(res, types, libs, name).run()
    validate(res, b.obs, name)
    # T: the hook's own account of the decision (sym events of every library) against Wrappers.tla
    entries = [{"id": l.name, "log": os.path.join(b.dir, l.name + ".ndjson"), "rs": os.path.join(b.dir, l.name + ".rs"),
                "meta": {"target": "elf", "wrapstatic": True, "linkcb": l.opt["plink"], "cxx": l.cxx}} for l in b.libs]
    viol, drift, c = sym_corpus.validate_logs(entries, "c16-sym-" + name)
    report_sym(res, viol, drift, "generated")
    counts["sym_events_validated"] = counts.get("sym_events_validated", 0) + c["sym"]
    res.add(states=c["states"], transitions=c["states"])
    for k, v in b.counts.items():
        counts[k] = counts.get(k, 0) + v
    return b


def run(res, tier):
    res.assumptions += [
        "equivalence is established by execution on the host (x86-64 SysV); C++ libraries are judged at symbol level (nm) only",
        "C text and boundary values of the type ids come from lib/ffi.py; decisions, names, signatures, checksums from TLC",
    ]
    C.build()
    c16_cfgs.ensure()
    model(res)
    thorough = tier == "thorough"
    counts, total = {}, 0
    plan = [("Gen_Statics_one_t.cfg" if thorough else "Gen_Statics_one_q.cfg", 150),
            ("Gen_Statics_ret.cfg", 150), ("Gen_Statics_kinds.cfg", 100),
            ("Gen_Statics_k_cxx.cfg", 40), ("Gen_Statics_k_keyword.cfg", 40), ("Gen_Statics_k_plink.cfg", 40),
            ("Gen_Statics_k_nostdbool.cfg", 40)]
    if thorough:
        plan.append(("Gen_Statics_pairs_t.cfg", 200))
    for cfg, chunk in plan:
        types, libs = generate(res, cfg)
        total += len(libs)
        merged = merge(libs, chunk)
        tag = cfg[len("Gen_Statics_"):-4]
        replay_libs(res, types, merged, tag, counts)
        f0 = merged[0]["fns"][0]
        res.sample_case({"sweep": tag, "behaviours": len(libs), "libraries": len(merged), "example": f0["cname"],
                         "predicted": {k: f0["pred"].get(k) for k in ("binding", "ident", "link", "wrapper", "sig", "code")}}, cap=8)
    viol, drift, c = sym_corpus.run(res, tier, "C16")
    report_sym(res, viol, drift, "corpus")
    counts["sym_events_validated"] = counts.get("sym_events_validated", 0) + c["sym"]
    counts["corpus_cases_validated"] = c["ran"]
    res.add(states=c["states"], transitions=c["states"])
    nsim = 300 if thorough else 30
    types, libs = generate(res, "Gen_Statics_sim_t.cfg" if thorough else "Gen_Statics_sim_q.cfg", simulate=nsim, seed=C.seed(), name="sim")
    total += len(libs)
    replay_libs(res, types, libs, "sim", counts)
    res.sample_case({"simulated_libraries": len(libs), "example_options": libs[0]["opt"],
                     "example_functions": [f["cname"] for f in libs[0]["fns"][:4]]}, cap=9)
    # histories: the same wrapper path generated into again and again while the headers change, and
    # functions the serializer rejects next to ordinary ones (spec/back/WrapperHistory.tla)
    import c16_hist
    c16_hist.run(res, tier)
    res.add(traces_validated_against_impl=counts.get("libraries", 0), behaviours_generated=total, **counts)
    res.cov["exhaustive"] = False


def replay(res, path):
    """Behaviours are regenerated deterministically from the specification and VERIF_SEED: replaying a
    violation file re-runs the tier that produced it."""
    run(res, "thorough" if "thorough" in os.path.basename(path) else "quick")
