"""C06 - embedded layout assertions are complete and state the C compiler's numbers.

model : LayoutAsserts.tla (expected assertion set per composite), Gen_Layout.tla (declarations)
T     : Trace_Asserts.tla - for every run: comp events (libclang's numbers) + the assertion items parsed
        from the emitted text; observed set = expected set (completeness, numbers, nothing extra, nothing
        at all with layout tests off); repository corpus and every replay run
R     : Gen_Layout declarations x 8 targets: asserted numbers = `clang --target=<t>` constant table;
        const-block and #[test] forms (rust targets on both sides of offset_of); --no-layout-tests changes
        nothing else; template instantiations get size+align assertions
"""
import json
import os
import random
import re
import subprocess

import common as C
import layoutprobe as LP

LEVEL = "model_checking"
LAY = os.path.join(C.SPEC, "layout")
TARGETS = ["x86_64-unknown-linux-gnu", "i686-unknown-linux-gnu", "aarch64-unknown-linux-gnu",
           "armv7-unknown-linux-gnueabihf", "riscv64-unknown-linux-gnu", "x86_64-pc-windows-msvc",
           "i686-pc-windows-msvc", "wasm32-unknown-unknown"]

MSG = r'"(Sizeoftemplatespecialization:|Alignoftemplatespecialization:|Sizeof|Alignmentof|Offsetoffield:)([^"]*)"'
CONST_FORM = re.compile(r"\[" + MSG + r"\]\[(.*?)-(\d+)usize\];")
TEST_FORM = re.compile(r"assert_eq!\(((?:(?!assert_eq!).)*?),(\d+)usize," + MSG + r"\)")


def parse_asserts(text):
    """-> (items [[what, type, member, value]], form counts)"""
    t = re.sub(r"\s+", "", text)
    items, forms = [], {"const": 0, "test": 0}
    for m in CONST_FORM.finditer(t):
        items.append(mk(m.group(1), m.group(2), int(m.group(4)), m.group(3)))
        forms["const"] += 1
    for m in TEST_FORM.finditer(t):
        items.append(mk(m.group(3), m.group(4), int(m.group(2)), m.group(1)))
        forms["test"] += 1
    return items, forms


def mk(kind, rest, value, expr):
    if kind == "Sizeof":
        ok = "size_of::<" in expr
        return ["size" if ok else "size?", rest, "", value]
    if kind == "Alignmentof":
        ok = "align_of::<" in expr
        return ["align" if ok else "align?", rest, "", value]
    if kind == "Offsetoffield:":
        ty, _, member = rest.partition("::")
        ok = ("offset_of!(" in expr) or ("addr_of!((*ptr)." in expr)
        return ["offset" if ok else "offset?", ty, member, value]
    # template instantiation: the Rust type the number is asserted of tells instantiations apart whose
    # message names coincide (same unqualified argument names in different namespaces)
    m = re.search(r"(?:size_of|align_of)::<(.*)>\(\)", expr)
    return ["inst", kind + rest, m.group(1) if m else "", value]


KEYWORDS = set("""abstract alignof as async await become box break const continue crate do dyn else enum extern
false final fn for gen if impl in let loop macro match mod move mut offsetof override priv proc pub pure ref return
Self self sizeof static struct super trait true try type typeof unsafe unsized use virtual where while yield str bool
f32 f64 usize isize u128 i128 u64 i64 u32 i32 u16 i16 u8 i8 _""".split())


def rust_mangle(name):
    """ir/context.rs::rust_mangle (field names appear mangled in the assertion messages)"""
    if any(ch in name for ch in "@?$") or name in KEYWORDS:
        return name.replace("@", "_").replace("?", "_").replace("$", "_") + "_"
    return name


def comps_of(logpath):
    comps, ir = [], None
    with open(logpath) as f:
        for line in f:
            if line.startswith('{"ev":"comp"'):
                comps.append(json.loads(line))
            elif line.startswith('{"ev":"ir"'):
                ir = json.loads(line)
    for c in comps:
        n = (ir or {}).get("nodes", {}).get(c["id"], {})
        c["tparams"] = len(n.get("all_tparams", []))
        for f in c["fields"]:
            f["name"] = rust_mangle(f["name"])
    return comps, ir


def emit_case(o, case, layout_tests, comps, items):
    o.write(json.dumps({"ev": "reset", "case": case}) + "\n")
    o.write(json.dumps({"ev": "opts", "layout_tests": layout_tests}) + "\n")
    for c in comps:
        o.write(json.dumps(c) + "\n")
    o.write(json.dumps({"ev": "asserts", "items": items}) + "\n")


def validate(res, trace, name):
    r = C.tlc(os.path.join(LAY, "Trace_Asserts.tla"), cfg="Trace_Asserts.cfg", env={"TRACE": trace}, workers=1,
              dfs=True, timeout=3000, name="c06-tv-" + name)
    if not C.tlc_ok(r):
        raise C.ToolError("Trace_Asserts did not complete (%s): %s" % (name, r["out"][-1500:]))
    for v in (C.tlc_prints(r["out"], "VIOL") or [[]])[0]:
        it = v["item"]
        res.violation("%s:%s:%s" % (v["kind"], it[0], name.split("-")[0]), {"case": v["case"], "assertion": it})
    counts = (C.tlc_prints(r["out"], "COUNTS") or [{}])[0]
    res.add(states=r["distinct"], transitions=r["generated"], composites_checked=counts.get("comps", 0),
            assertions_checked=counts.get("asserts", 0))
    os.remove(trace)


def corpus(res, tier):
    cases = [c for c in C.corpus_cases() if "--no-layout-tests" not in c["args"]]
    sel = C.sample(cases, None if tier == "thorough" else 200, "c06-t")
    d, out = C.run_cases_logged(sel, "c06-corpus")
    trace = os.path.join(C.workdir("c06-trace"), "corpus.ndjson")
    n = 0
    with open(trace, "w") as o:
        for c in sel:
            if out.get(c["id"], {}).get("outcome") != "ok":
                continue
            comps, ir = comps_of(os.path.join(d, c["id"] + ".ndjson"))
            if ir is None:
                continue
            with open(os.path.join(d, c["id"] + ".rs")) as f:
                items, _ = parse_asserts(f.read())
            # composites with duplicate canonical names in different modules cannot be told apart by message
            names = [x["name"] for x in comps]
            if len(set(names)) != len(names):
                continue
            emit_case(o, c["id"], bool(ir["opt"].get("layout_tests", True)), comps, items)
            n += 1
    validate(res, trace, "corpus")
    res.add(traces_validated_against_impl=n)


def clang_table(w, header, names, decls, target):
    src = os.path.join(w, "tbl.c")
    with open(src, "w") as f:
        f.write('#include "%s"\n' % header)
        for n, d in zip(names, decls):
            offs = "".join(", __builtin_offsetof(%s %s, f%d)" % (d["kind"], n, j) for j in range(len(d["codes"])))
            f.write("const unsigned long long tbl_%s[] = { sizeof(%s %s), _Alignof(%s %s)%s };\n" %
                    (n, d["kind"], n, d["kind"], n, offs))
    p = subprocess.run(["clang", "--target=" + target, "-w", "-S", "-emit-llvm", "-o", "-", src],
                       stdout=subprocess.PIPE, stderr=subprocess.PIPE, text=True)
    if p.returncode != 0:
        raise C.ToolError("clang --target=%s failed: %s" % (target, p.stderr[-1200:]))
    out = {}
    for m in re.finditer(r"@tbl_(S\d+) = [^\n]*?\[([^\]]*)\], align", p.stdout):
        nums = [int(x.split()[-1]) for x in m.group(2).split(",")]
        out[m.group(1)] = {"size": nums[0], "align": nums[1], "offsets": nums[2:]}
    if len(out) != len(names):
        raise C.ToolError("could not read the constant table for %s (%d of %d)" % (target, len(out), len(names)))
    return out


def run_bindgen_logged(w, tag, args):
    log = os.path.join(w, tag + ".ndjson")
    outp = os.path.join(w, tag + ".rs")
    if os.path.exists(log):
        os.remove(log)
    env = dict(os.environ)
    env["BINDGEN_VERIF_LOG"] = log
    p = subprocess.run([C.BINDGEN, args[0], "-o", outp] + args[1:], stdout=subprocess.PIPE, stderr=subprocess.PIPE, text=True,
                       env=env, timeout=1200)
    return p, log, outp


def targets(res, tier, decls):
    rnd = random.Random(C.seed() * 7 + 3)
    per = 600 if tier == "thorough" else 120
    total = 0
    for t in TARGETS:
        w = C.workdir("c06-" + t)
        pool = [d for d in decls if "msvc" not in t or (not d["malign"] and not d["aligned"] and "z" not in d["codes"])]
        sub = rnd.sample(pool, min(per, len(pool)))
        names = ["S%05d" % i for i in range(len(sub))]
        hp = os.path.join(w, "decls.h")
        with open(hp, "w") as f:
            f.write(LP.PRELUDE)
            for n, d in zip(names, sub):
                f.write(LP.c_decl(n, d) + "\n")
        tbl = clang_table(w, hp, names, sub, t)
        p, log, outp = run_bindgen_logged(w, "b", [hp, "--", "--target=" + t])
        if p.returncode != 0:
            res.violation("bindgen-failed:%s" % t, {"stderr": p.stderr[-1200:]})
            continue
        with open(outp) as f:
            items, forms = parse_asserts(f.read())
        got = {}
        for it in items:
            got[(it[0], it[1], it[2])] = it[3]
        for n, d in zip(names, sub):
            c = tbl[n]
            exp = {("size", n, ""): c["size"], ("align", n, ""): c["align"]}
            for j in range(len(d["codes"])):
                exp[("offset", n, "f%d" % j)] = c["offsets"][j]
            for k, v in exp.items():
                if k not in got:
                    res.violation("assertion-missing:%s:%s" % (k[0], t), {"decl": LP.c_decl(n, d), "assertion": k})
                elif got[k] != v:
                    res.violation("assertion-states-wrong-number:%s:%s:%s" % (k[0], t, "ld" if "l" in d["codes"] else "nold"),
                                  {"decl": LP.c_decl(n, d), "assertion": k, "asserted": got[k], "clang": v})
        comps, ir = comps_of(log)
        trace = os.path.join(w, "t.ndjson")
        with open(trace, "w") as o:
            emit_case(o, t, True, comps, items)
        validate(res, trace, "target-" + t)
        total += len(sub)
        if t == TARGETS[1]:
            res.sample_case({"target": t, "decl": LP.c_decl(names[0], sub[0]), "clang": tbl[names[0]]})
    res.add(traces_validated_against_impl=len(TARGETS), target_records=total, targets=len(TARGETS))


def forms_and_off(res, tier, decls):
    """#[test] form below offset_of (1.77), const form at/above; --no-layout-tests removes only assertions."""
    w = C.workdir("c06-forms")
    # every attribute class is represented (a stride over the list can miss a whole class, e.g. member-level aligned(N))
    from checks.c02 import attr_class
    by = {}
    for d in decls:
        by.setdefault((d["kind"], attr_class(d)), []).append(d)
    per = max(4, 150 // max(1, len(by)))
    sub = [d for k in sorted(by) for d in by[k][:: max(1, len(by[k]) // per)][:per]]
    names = ["S%05d" % i for i in range(len(sub))]
    hp = os.path.join(w, "decls.h")
    with open(hp, "w") as f:
        f.write(LP.PRELUDE)
        for n, d in zip(names, sub):
            f.write(LP.c_decl(n, d) + "\n")
    seen = {}
    for tag, extra in [("new", []), ("old", ["--rust-target", "1.76"]), ("ns", ["--enable-cxx-namespaces"]),
                       ("off", ["--no-layout-tests"])]:
        p, log, outp = run_bindgen_logged(w, tag, [hp, "--formatter=none"] + extra)
        if p.returncode != 0:
            res.violation("bindgen-failed:%s" % tag, {"stderr": p.stderr[-1200:]})
            continue
        with open(outp) as f:
            text = f.read()
        items, forms = parse_asserts(text)
        seen[tag] = (items, forms, text)
        comps, ir = comps_of(log)
        trace = os.path.join(w, "t-%s.ndjson" % tag)
        with open(trace, "w") as o:
            emit_case(o, tag, tag != "off", comps, items)
        validate(res, trace, "form-" + tag)
    if "new" in seen and seen["new"][1]["test"]:
        res.violation("assertion-form:test-fn-with-offset_of-target", {"forms": seen["new"][1]})
    if "old" in seen and seen["old"][1]["const"]:
        res.violation("assertion-form:const-block-below-offset_of-target", {"forms": seen["old"][1]})
    if "old" in seen and "new" in seen and sorted(seen["old"][0]) != sorted(seen["new"][0]):
        res.violation("assertion-set-differs-between-forms", {"old": len(seen["old"][0]), "new": len(seen["new"][0])})
    if "off" in seen and "new" in seen:
        if seen["off"][0]:
            res.violation("assertion-emitted-with-layout-tests-off", {"items": seen["off"][0][:3]})
        inv = C.inventory([os.path.join(w, "new.rs"), os.path.join(w, "off.rs")])
        a = [(i["kind"], i.get("name"), i.get("tokens")) for i in inv[os.path.join(w, "new.rs")]["items"]
             if not (i["kind"] == "const" and i.get("name") == "_")]
        b = [(i["kind"], i.get("name"), i.get("tokens")) for i in inv[os.path.join(w, "off.rs")]["items"]]
        if a != b:
            res.violation("no-layout-tests-changes-other-items", {"n_with": len(a), "n_without": len(b)})
    res.add(traces_validated_against_impl=len(seen))


INST_FAMILIES = [
    # (name, header, {rust type without `root::` and blanks: (size, align)}, names that must not be asserted)
    ("basic",
     "template<class T> struct Wr { T t; int n; };\ntemplate<class T, class U> struct Pr { T a; U b; };\n"
     "struct X { Wr<int> wi; Wr<double> wd; Pr<char, long> p; Wr<Wr<short> > ww; };\n"
     "template<class T> struct Gen { Wr<T> inner; };\n",
     {"Wr<c_int>": (8, 4), "Wr<f64>": (16, 8), "Pr<c_char,c_long>": (16, 8), "Wr<Wr<c_short>>": (12, 4)}, ["Gen"]),
    # the same unqualified argument name in two namespaces: one message name, two instantiations
    ("same-arg-name",
     "template <typename T> struct Box { T value; T other; };\n"
     "namespace small { typedef char Elem; struct Holder { Box<Elem> b; }; }\n"
     "namespace big { typedef long long Elem; struct Holder { Box<Elem> b; }; }\n",
     {"Box<small::Elem>": (2, 1), "Box<big::Elem>": (16, 8)}, []),
    # the same template name in two namespaces, the same argument
    ("same-template-name",
     "namespace a { template<class T> struct W { T t; }; struct UA { W<int> w; W<char> c; }; }\n"
     "namespace b { template<class T> struct W { T t; T u; }; struct UB { W<int> w; }; }\n",
     {"a::W<c_int>": (4, 4), "a::W<c_char>": (1, 1), "b::W<c_int>": (8, 4)}, []),
    # a concrete instantiation written directly inside a class template (and used nowhere else)
    ("inside-template",
     "template<class T> struct Pair { T lo; T hi; };\n"
     "template<class K> struct Registry { K* keys; Pair<int> range; Pair<double> weights; };\n"
     "struct UsesReg { Registry<char> r; };\n",
     {"Pair<c_int>": (8, 4), "Pair<f64>": (16, 8)}, []),
    # one instantiation used from several places, and an instantiation only used through a pointer
    ("many-uses",
     "template<class T> struct Wr { T t; int n; };\n"
     "struct Y { Wr<long> a; Wr<long> b; }; struct Z { Wr<long> c; Wr<short> d[2]; };\n",
     {"Wr<c_long>": (16, 8), "Wr<c_short>": (8, 4)}, []),
]


def inst_key(ty):
    """`root::Box<root::small::Elem>` / `Box<small_Elem>` -> Box<small::Elem>; ::std::os::raw:: dropped"""
    t = re.sub(r"::std::os::raw::|::core::ffi::|root::", "", ty)
    return t


def instantiations(res, tier):
    """every concrete instantiation that appears in the bindings gets a size and an alignment assertion with
    clang's numbers - in both forms (const block / #[test] fn), with and without C++ namespaces"""
    w = C.workdir("c06-inst")
    n = 0
    for fname, text, want, never in INST_FAMILIES:
        hp = os.path.join(w, fname + ".hpp")
        with open(hp, "w") as f:
            f.write(text)
        for form, fargs in (("const", []), ("test", ["--rust-target", "1.70"])):
            for ns, nargs in (("ns", ["--enable-cxx-namespaces"]), ("flat", [])):
                tag = "%s-%s-%s" % (fname, form, ns)
                p, log, outp = run_bindgen_logged(w, tag, [hp, "--formatter=none"] + fargs + nargs)
                if p.returncode != 0:
                    raise C.ToolError("instantiation family %s failed: %s" % (tag, p.stderr[-800:]))
                with open(outp) as f:
                    items, forms = parse_asserts(f.read())
                inst = [i for i in items if i[0] == "inst"]
                got = {}
                for i in inst:
                    k = inst_key(i[2])
                    if ns == "flat":
                        k = k.replace("small_Elem", "small::Elem").replace("big_Elem", "big::Elem") \
                             .replace("a_W", "a::W").replace("b_W", "b::W")
                    what = "size" if i[1].startswith("Sizeof") else "align"
                    got.setdefault(k, {}).setdefault(what, set()).add(i[3])
                where = {"family": fname, "form": form, "namespaces": ns == "ns", "header": text,
                         "asserted": {k: {a: sorted(b) for a, b in v.items()} for k, v in got.items()}}
                for ty, (sz, al) in want.items():
                    g = got.get(ty)
                    if not g or "size" not in g or "align" not in g:
                        res.violation("instantiation-assertion-missing:%s" % form, dict(where, instantiation=ty))
                    elif g["size"] != {sz} or g["align"] != {al}:
                        res.violation("instantiation-assertion-wrong-number", dict(where, instantiation=ty, clang=[sz, al]))
                    n += 1
                if any(x in k for k in got for x in never):
                    res.violation("assertion-for-template-definition", where)
                if forms["test" if form == "const" else "const"]:
                    res.drift.append("%s: assertions in the other form than the target selects" % tag)
    res.add(instantiation_assertions=n, instantiation_families=len(INST_FAMILIES))


HARMLESS_ATTRS = ["deprecated", "unused", "may_alias", "warn_unused", "visibility(\"default\")", "nodebug",
                  "annotate(\"x\")", "designated_init"]


def attributes(res, tier):
    """attributes that do not change the layout do not change the assertions: every record of a header is
    declared once plain and once with an attribute on the record or on a member; the two assertion sets must
    be the same (modulo the name), in both forms"""
    w = C.workdir("c06-attrs")
    plain, attributed = [], []
    for k, a in enumerate(HARMLESS_ATTRS):
        at = "__attribute__((%s))" % a
        body = "{ char c; int i; long l; short s[3]; }"
        plain.append("struct R%d %s;\nunion V%d { int i; double d; char c[3]; };\nstruct F%d { int a; char b; long z; };" % (k, body, k, k))
        on_field = a in ("deprecated", "unused", "annotate(\"x\")", "nodebug")
        attributed.append("struct %s R%d %s;\nunion %s V%d { int i; double d; char c[3]; };\nstruct F%d { int a %s; char b; long z %s; };"
                          % (at if a != "nodebug" else "", k, body, at if a not in ("nodebug", "designated_init") else "", k, k,
                             at if on_field else "", at if on_field and a != "nodebug" else ""))
    n = 0
    for form, fargs in (("const", []), ("test", ["--rust-target", "1.70"])):
        sets = {}
        for tag, lines in (("plain", plain), ("attr", attributed)):
            hp = os.path.join(w, "%s.h" % tag)
            with open(hp, "w") as f:
                f.write("\n".join(lines) + "\n")
            if subprocess.run(["clang", "-fsyntax-only", "-w", hp]).returncode != 0:
                raise C.ToolError("attribute header not accepted by clang: " + hp)
            p, log, outp = run_bindgen_logged(w, "%s-%s" % (tag, form), [hp, "--formatter=none"] + fargs)
            if p.returncode != 0:
                raise C.ToolError("attribute family failed: " + p.stderr[-600:])
            with open(outp) as f:
                items, _ = parse_asserts(f.read())
            sets[tag] = sorted(map(tuple, items))
            n += len(items)
        if not sets["plain"]:
            raise C.ToolError("no assertions in the plain attribute family")
        if sets["plain"] != sets["attr"]:
            missing = [x for x in sets["plain"] if x not in sets["attr"]]
            extra = [x for x in sets["attr"] if x not in sets["plain"]]
            res.violation("assertions-differ-for-attributed-records:%s" % form,
                          {"missing": missing[:12], "unexpected": extra[:12], "attributes": HARMLESS_ATTRS})
    res.add(attribute_family_assertions=n)


def run(res, tier):
    res.assumptions += [
        "clang --target=<t> (constant table in LLVM IR) is the C compiler of each target; no sysroot is needed for the generated records",
        "repository-corpus runs whose composites share a canonical name across modules are skipped (messages cannot be told apart)",
    ]
    C.build()
    from checks.c02 import generate
    decls = generate(res, "quick")
    corpus(res, tier)
    targets(res, tier, decls)
    forms_and_off(res, tier, decls)
    instantiations(res, tier)
    attributes(res, tier)
    res.cov["exhaustive"] = False
