"""C14 - bindings use only features of the selected Rust target, monotonically.

model : spec/front/Features.tla  (L1 release history, L2 features.rs + Builder::generate + codegen gates)
        MC_Features.cfg (laws of the flag table / editions / defaults / parser, must hold),
        MC_Features_sens_*.cfg (one mechanism broken each, must fail),
        MC_Features_strict_*.cfg (the property on emitted constructs and on the parser: a counterexample
        is a prediction that is replayed on the real CLI before anything is concluded)
R     : Gen_Features.cfg prints every (version string form, minor, edition option) with the predicted
        outcome and construct set; every one is run through the real hooks-on CLI on a trigger header
        set, the output is token-scanned (bvdrive constructs) and judged against L1 (property
        predicates) and against the L2 prediction (shape, DRIFT only).
Exhaustive in both tiers.
"""
import concurrent.futures
import json
import os
import re
import subprocess

import common as C

LEVEL = "model_checking"
FRONT = os.path.join(C.SPEC, "front")
SPEC = os.path.join(FRONT, "Features.tla")
SENSITIVITY = {
    "MC_Features_sens_offsetTooEarly.cfg": "FlagSound",
    "MC_Features_sens_cstrNoEdition.cfg": "FlagSound",
    "MC_Features_sens_vectorcallStable.cfg": "FlagSound",
    "MC_Features_sens_edition2024At84.cfg": "LatestEditionRule",
    "MC_Features_sens_compatExact.cfg": "FlagMonotone",
    "MC_Features_sens_latestEditionFirst.cfg": "LatestEditionRule",
    "MC_Features_sens_nightlyUnderflow.cfg": "ParseTotal",
    "MC_Features_sens_fnptrOverrideUngated.cfg": "SiteSound",
}
STRICT = ["MC_Features_strict_constructs.cfg"]
CONSTRUCTS = {"unsafe_extern", "offset_of", "cstr_literal", "const_cstr", "core_ffi_c", "core_ffi_cstr",
              "abi:C-unwind", "abi:efiapi", "abi:thiscall", "abi:vectorcall", "ptr_metadata",
              "layout_for_ptr"}

# ---- trigger header sets -------------------------------------------------------------------------
TRIG_C = """\
/* every gated construct of C14 has a trigger here */
int plain_fn(int a, unsigned char b, long c);
extern int a_static;
extern const char a_const_static;
#define STR_CONST "hello"
#define STR_CONST2 "with \\"quote\\" and \\\\ backslash"
const char str_var[] = "world";
struct flex { int len; short data[]; };
struct plain { char c; int i; long l; unsigned short us; };
union un { int i; float f; };
void abi_this(int);
void abi_efi(int);
void abi_unwind(int);
void abi_vec(int);
void __attribute__((vectorcall)) attr_vec(int);
void __attribute__((thiscall)) attr_this(int);
void __attribute__((stdcall)) attr_std(int);
typedef void (__attribute__((vectorcall)) *vec_fnptr)(int);
struct holder { vec_fnptr p; void (__attribute__((thiscall)) *q)(int); };
"""
TRIG_C_ARGS = ["--generate-cstr", "--flexarray-dst", "--use-core",
               "--override-abi", "abi_this=thiscall", "--override-abi", "abi_efi=efiapi",
               "--override-abi", "abi_unwind=C-unwind", "--override-abi", "abi_vec=vectorcall"]
TRIG_C_CLANG = ["--target=i686-pc-windows-msvc"]
TRIG_C_TRIGGERS = set(CONSTRUCTS)

TRIG_CPP = """\
// methods, constructors, destructors and static members go through the same extern-block sites
class Klass {
public:
    int field;
    long other;
    static int counter;
    Klass(int);
    ~Klass();
    int method(short s) const;
    static void smethod(unsigned long);
};
template<class T> struct Tpl { T t; char c; };
struct UsesTpl { Tpl<int> ti; Tpl<double> td; };
extern "C" unsigned char c_linkage(signed char);
"""
TRIG_CPP_ARGS = ["--use-core", "--generate-cstr"]
TRIG_CPP_CLANG = ["-x", "c++", "--target=x86_64-unknown-linux-gnu"]
TRIG_CPP_TRIGGERS = {"unsafe_extern", "offset_of", "core_ffi_c"}


# the ABI sites of Features.tla (AbiSites) that TRIG_C does not have: --override-abi reaching function
# POINTER types through the name of a typedef, a field or a parameter
TRIG_FP = """\
typedef void (*ovr_unwind_cb)(int code);
typedef int (*ovr_efi_cb)(void *image);
typedef void (*ovr_this_cb)(void *self_);
typedef float (*ovr_vec_cb)(float x);
struct ovr_handlers {
    ovr_unwind_cb a; ovr_efi_cb b; ovr_this_cb c; ovr_vec_cb d;
    void (*ovr_unwind_field)(int code);
    int (*ovr_efi_field)(void *image);
    void (*ovr_this_field)(void *self_);
    float (*ovr_vec_field)(float x);
};
void install(void (*ovr_unwind_param)(int code), int (*ovr_efi_param)(void *image),
             void (*ovr_this_param)(void *self_), float (*ovr_vec_param)(float x));
"""
TRIG_FP_ARGS = ["--override-abi", "ovr_unwind_.*=C-unwind", "--override-abi", "ovr_efi_.*=efiapi",
                "--override-abi", "ovr_this_.*=thiscall", "--override-abi", "ovr_vec_.*=vectorcall"]
TRIG_FP_CLANG = ["--target=x86_64-unknown-linux-gnu"]
TRIG_FP_TRIGGERS = {"abi:C-unwind", "abi:efiapi", "abi:thiscall", "abi:vectorcall"}


def version_string(form, n):
    return {"1.N": "1.%d", "1.N.0": "1.%d.0", "1.N.P": "1.%d.7", "1.N-beta": "1.%d-beta",
            "1.N.0-beta.2": "1.%d.0-beta.2", "1.N-nightly": "1.%d-nightly",
            "1.N.P-nightly": "1.%d.3-nightly"}[form] % n


def target_args(rec):
    a = []
    if rec["form"] == "nightly":
        a += ["--rust-target", "nightly"]
    elif rec["form"] != "default":
        a += ["--rust-target", version_string(rec["form"], rec["n"])]
    if rec["eopt"]:
        a += ["--rust-edition", str(rec["eopt"])]
    return a


def run_cli(job):
    """One real CLI run -> observation dict (no scan yet)."""
    cmd = [C.BINDGEN, job["header"], "--formatter", "none", "--disable-header-comment"] + job["opts"] + \
        job["targs"] + ["-o", job["out"], "--"] + job["clang"]
    env = dict(os.environ)
    env["RUST_BACKTRACE"] = "0"
    env.pop("BINDGEN_VERIF_LOG", None)
    try:
        p = subprocess.run(cmd, stdout=subprocess.PIPE, stderr=subprocess.PIPE, text=True, timeout=120,
                           env=env, errors="replace")
        rc, err = p.returncode, p.stderr
    except subprocess.TimeoutExpired:
        rc, err = -999, "timeout"
    kind = "ok"
    loc = ""
    m = re.search(r"panicked at ([^\s:]+:\d+)", err)
    if m or rc == 101 or rc < 0 and rc != -999:
        kind = "panic"
        loc = (m.group(1) if m else "signal:%d" % rc).replace(C.REPO + "/", "")
    elif rc == -999:
        kind = "hang"
    elif rc == 2 and "error: invalid value" in err:
        kind = "clap_reject"
    elif rc != 0 and "is not available on Rust" in err:
        kind = "edition_reject"
    elif rc != 0:
        kind = "error"
    return {"id": job["id"], "kind": kind, "rc": rc, "loc": loc, "cmd": cmd[1:],
            "stderr": "\n".join(l for l in err.splitlines() if not l.startswith("clang diag"))[-400:]}


def scan(paths):
    out = {}
    for i in range(0, len(paths), 300):
        p = subprocess.run([C.BVDRIVE, "constructs"] + paths[i:i + 300], stdout=subprocess.PIPE,
                           stderr=subprocess.PIPE, text=True)
        for line in p.stdout.splitlines():
            try:
                v = json.loads(line)
            except Exception:
                continue
            out[v["file"]] = v
    return out


def obs_set(constructs):
    """monotone observation: the c-string literal replaces the const call (both are 'a &CStr constant')"""
    s = set(constructs) - {"const_cstr", "cstr_literal"}
    if {"const_cstr", "cstr_literal"} & set(constructs):
        s.add("cstr_const")
    return s


# ---- judging -------------------------------------------------------------------------------------

def judge(rec, ob, triggers):
    """Property predicates for one configuration. Returns (violations [(key, detail)], drift [str])."""
    viol, drift = [], []
    cfg = "%s n=%s edition=%s" % (rec["form"], rec["n"], rec["eopt"] or "-")
    wit = {"config": cfg, "cmd": " ".join(ob["cmd"]), "rc": ob["rc"], "stderr": ob["stderr"][-300:]}
    if ob["kind"] == "panic":
        viol.append(("panic:" + ob["loc"], wit))
        return viol, drift
    if ob["kind"] == "hang":
        viol.append(("hang", wit))
        return viol, drift
    if ob["kind"] == "ok":
        seen = set(ob["constructs"]) & CONSTRUCTS
        for c in sorted(seen - set(rec["allowed"])):
            viol.append(("newer-than-target:" + c, dict(wit, construct=c, where=ob["where"].get(c),
                                                        meant_version=rec["meant"], edition=rec["edition_l1"])))
        if rec["must_reject"]:
            viol.append(("unsupported-edition-accepted:%s" % rec["eopt"], wit))
        if rec["parse"] == "ok" and rec["gen"] == "ok":
            pred = set(rec["predicted"]) & triggers
            if seen & triggers != pred:
                drift.append("constructs differ from the L2 prediction at %s: observed-only %s, predicted-only %s"
                             % (cfg, sorted((seen & triggers) - pred), sorted(pred - seen)))
        else:
            drift.append("accepted by the CLI but the L2 model says %s/%s: %s" % (rec["parse"], rec["gen"], cfg))
    else:
        # rejected (clap / edition / other error): never a violation by itself
        if rec["must_reject"] and ob["kind"] != "edition_reject" and rec["parse"] == "ok":
            drift.append("unsupported edition rejected with an unexpected message at %s: rc=%s %s"
                         % (cfg, ob["rc"], ob["stderr"][-120:]))
        if rec["parse"] == "ok" and rec["gen"] == "ok":
            drift.append("rejected by the CLI (%s) but the L2 model accepts: %s" % (ob["kind"], cfg))
        if rec["parse"] in ("too_early", "rejected") and ob["kind"] != "clap_reject":
            drift.append("too-early target not rejected by the argument parser: %s (%s)" % (cfg, ob["kind"]))
        if rec["gen"] == "unsupported_edition" and ob["kind"] == "edition_reject":
            want = "edition %s is not available on Rust" % rec["eopt"]
            if want not in ob["stderr"]:
                drift.append("edition rejection message does not name the edition: %s" % cfg)
    return viol, drift


def monotone(recs, obs):
    """every construct seen at version v is seen at every later accepted version (same form, edition)."""
    viol = []
    groups = {}
    for r in recs:
        if r["form"] in ("default",):
            continue
        groups.setdefault((r["form"] if r["form"] != "nightly" else None, r["eopt"]), []).append(r)
    nightly = {r["eopt"]: r for r in recs if r["form"] == "nightly"}
    for (form, eopt), rs in groups.items():
        if form is None:
            continue
        rs = sorted(rs, key=lambda r: r["n"])
        if eopt in nightly:
            rs = rs + [nightly[eopt]]
        prev = None
        for r in rs:
            ob = obs[r["id"]]
            if ob["kind"] != "ok":
                continue
            cur = obs_set(set(ob["constructs"]) & CONSTRUCTS)
            if prev is not None:
                for c in sorted(prev[1] - cur):
                    viol.append(("non-monotone:" + c, {
                        "construct": c, "present_at": " ".join(obs[prev[0]["id"]]["cmd"]),
                        "absent_at": " ".join(ob["cmd"])}))
            prev = (r, cur)
    return viol


def selftest(recs, obs, triggers):
    """non-vacuity: tampered observations must be flagged by the very same judge."""
    n = 0
    pick = next(r for r in recs if r["form"] == "1.N" and r["n"] == 60 and r["eopt"] == 0)
    ob = json.loads(json.dumps(obs[pick["id"]]))
    ob["constructs"]["unsafe_extern"] = 1
    ob["where"]["unsafe_extern"] = "(tampered)"
    v, _ = judge(pick, ob, triggers)
    if not any(k == "newer-than-target:unsafe_extern" for k, _ in v):
        raise C.ToolError("self-test: injected `unsafe extern` at 1.60 not flagged")
    n += 1
    pick = next(r for r in recs if r["form"] == "1.N" and r["n"] == 79 and r["eopt"] == 2018)
    ob = json.loads(json.dumps(obs[pick["id"]]))
    ob["constructs"]["cstr_literal"] = 1
    v, _ = judge(pick, ob, triggers)
    if not any(k == "newer-than-target:cstr_literal" for k, _ in v):
        raise C.ToolError("self-test: injected c\"..\" literal in edition 2018 not flagged")
    n += 1
    obs2 = dict(obs)
    pick = next(r for r in recs if r["form"] == "1.N" and r["n"] == 80 and r["eopt"] == 0)
    ob = json.loads(json.dumps(obs[pick["id"]]))
    ob["constructs"].pop("offset_of", None)
    obs2[pick["id"]] = ob
    if not any(k == "non-monotone:offset_of" for k, _ in monotone(recs, obs2)):
        raise C.ToolError("self-test: offset_of removed at 1.80 not flagged as non-monotone")
    n += 1
    pick = next(r for r in recs if r["form"] == "1.N" and r["n"] == 84 and r["eopt"] == 2024)
    ob = json.loads(json.dumps(obs[next(r for r in recs if r["form"] == "1.N" and r["n"] == 86 and r["eopt"] == 2024)["id"]]))
    v, _ = judge(pick, ob, triggers)
    if not any(k.startswith("unsupported-edition-accepted") for k, _ in v):
        raise C.ToolError("self-test: accepted 1.84 + edition 2024 not flagged")
    n += 1
    return n


# ---- L2 tables vs features.rs --------------------------------------------------------------------

def scan_features_rs():
    src = open(os.path.join(C.REPO, "bindgen", "features.rs")).read()
    m = re.search(r"\ndefine_rust_targets! \{(.*?)\n\}\n", src, re.S)
    rows, nightly = [], []
    if m:
        body = m.group(1)
        for rm in re.finditer(r"(Nightly|Stable_1_\d+\((\d+)\)) => \{(.*?)\}", body, re.S):
            feats = []
            for fm in re.finditer(r"(\w+)((?:\(\d+\)\|?)*)\s*(?::\s*#\d+)?", rm.group(3)):
                eds = sorted(int(x) for x in re.findall(r"\((\d+)\)", fm.group(2)))
                feats.append({"f": fm.group(1), "eds": eds})
            if rm.group(1) == "Nightly":
                nightly = feats
            else:
                rows.append({"minor": int(rm.group(2)), "feats": feats})
    em = re.search(r"\ndefine_rust_editions! \{(.*?)\n\}\n", src, re.S)
    eds = [{"e": int(a), "minor": int(b)} for a, b in re.findall(r"Edition\d+\((\d+)\) => (\d+)", em.group(1))] if em else []
    return {"targets": rows, "nightly": nightly, "editions": eds}


def norm_tables(t):
    return {"targets": sorted(([r["minor"], sorted((f["f"], tuple(sorted(f["eds"]))) for f in r["feats"])]
                               for r in t["targets"]), key=lambda x: x[0]),
            "nightly": sorted((f["f"], tuple(sorted(f["eds"]))) for f in t["nightly"]),
            "editions": [(e["e"], e["minor"]) for e in t["editions"]]}


# ---- main ----------------------------------------------------------------------------------------

def model(res):
    r = C.tlc(SPEC, cfg="MC_Features.cfg", workers=4, timeout=600, coverage=True, name="c14-mc")
    if not C.tlc_ok(r):
        raise C.ToolError("MC_Features failed (model error): " + r["out"][-1500:])
    zero = [a for a in C.coverage_zero_actions(r["out"]) if a in ("DoParse", "DoGenerate")]
    if zero:
        raise C.ToolError("vacuous model run, actions never taken: %s" % zero)
    res.tlc_stats(r)
    for cfg, law in SENSITIVITY.items():
        s = C.tlc(SPEC, cfg=cfg, workers=2, timeout=300, name="c14-" + cfg)
        if "Invariant %s is violated" % law not in s["out"]:
            raise C.ToolError("sensitivity config %s did not violate %s" % (cfg, law))
    res.add(model_configs=1, sensitivity_configs_failing_as_expected=len(SENSITIVITY))
    pred = []
    for cfg in STRICT:
        s = C.tlc(SPEC, cfg=cfg, workers=1, timeout=300, name="c14-" + cfg)
        m = re.search(r"Invariant (\w+) is violated", s["out"])
        if m:
            im = re.findall(r"inp = (\[[^\]]*\])", s["out"])
            pred.append({"law": m.group(1), "input": im[-1] if im else "?"})
        elif not C.tlc_ok(s):
            raise C.ToolError("strict config %s broke: %s" % (cfg, s["out"][-800:]))
    return pred


def run(res, tier):
    res.assumptions += [
        "L1 table of spec/front/Features.tla (stabilisation releases and editions) is the Rust release history",
        "the trigger header set makes every gated codegen site emit its construct when its flag is on "
        "(checked: at `nightly` every construct is observed)",
        "constructs are recognised on tokens (bvdrive constructs); comments and string contents never match",
        "a `1.N-nightly` string means release N for the 'no newer feature' predicate (lenient upper bound)",
    ]
    C.build()
    predicted_cex = model(res)

    g = C.tlc(SPEC, cfg="Gen_Features.cfg", workers=4, timeout=600, name="c14-gen")
    if not C.tlc_ok(g):
        raise C.ToolError("Gen_Features failed: " + g["out"][-1500:])
    res.tlc_stats(g)
    recs = C.tlc_prints(g["out"], "CFG")
    tables = C.tlc_prints(g["out"], "TABLES")
    if len(recs) < 2000 or not tables or any("raw" in r for r in recs):
        raise C.ToolError("Gen_Features printed %d records" % len(recs))
    tables = tables[0]
    code = scan_features_rs()
    if norm_tables(code) != norm_tables(tables):
        res.drift.append("L2 tables of Features.tla differ from a scan of bindgen/features.rs: spec %s, code %s"
                         % (norm_tables(tables), norm_tables(code)))
    for i, r in enumerate(recs):
        r["id"] = "c%04d" % i

    d = C.workdir("c14")
    hc = os.path.join(d, "trig.h")
    hpp = os.path.join(d, "trig.hpp")
    open(hc, "w").write(TRIG_C)
    open(hpp, "w").write(TRIG_CPP)
    jobs = []
    for r in recs:
        jobs.append({"id": r["id"], "header": hc, "opts": TRIG_C_ARGS, "clang": TRIG_C_CLANG,
                     "targs": target_args(r), "out": os.path.join(d, r["id"] + ".rs")})
    cpp_recs = [dict(r, id="p" + r["id"][1:]) for r in recs if r["form"] in ("1.N", "nightly", "default")]
    for r in cpp_recs:
        jobs.append({"id": r["id"], "header": hpp, "opts": TRIG_CPP_ARGS, "clang": TRIG_CPP_CLANG,
                     "targs": target_args(r), "out": os.path.join(d, r["id"] + ".rs")})
    hfp = os.path.join(d, "trigfp.h")
    open(hfp, "w").write(TRIG_FP)
    fp_recs = [dict(r, id="f" + r["id"][1:]) for r in recs if r["form"] in ("1.N", "1.N-nightly", "nightly", "default")]
    for r in fp_recs:
        jobs.append({"id": r["id"], "header": hfp, "opts": TRIG_FP_ARGS, "clang": TRIG_FP_CLANG,
                     "targs": target_args(r), "out": os.path.join(d, r["id"] + ".rs")})
    obs = {}
    with concurrent.futures.ThreadPoolExecutor(max_workers=12) as ex:
        for ob in ex.map(run_cli, jobs):
            obs[ob["id"]] = ob
    outs = [j["out"] for j in jobs if obs[j["id"]]["kind"] == "ok"]
    sc = scan(outs)
    for j in jobs:
        ob = obs[j["id"]]
        if ob["kind"] != "ok":
            continue
        s = sc.get(j["out"])
        if not s or not s.get("ok"):
            # output that does not even lex as Rust is reported, but is C01's business
            raise C.ToolError("cannot scan output of %s: %s" % (" ".join(ob["cmd"]), s and s.get("err")))
        ob["constructs"], ob["where"] = s["constructs"], s["where"]

    # the trigger set must really trigger everything (else the absence of a construct means nothing)
    nb = next(r for r in recs if r["form"] == "nightly" and r["eopt"] == 0)
    missing = TRIG_C_TRIGGERS - set(obs[nb["id"]].get("constructs", {})) - {"const_cstr"}
    e18 = next(r for r in recs if r["form"] == "nightly" and r["eopt"] == 2018)
    if "const_cstr" not in obs[e18["id"]].get("constructs", {}):
        missing.add("const_cstr")
    if missing:
        raise C.ToolError("trigger header set does not trigger %s at nightly" % sorted(missing))

    agg = {}
    ndrift = 0
    missing = TRIG_FP_TRIGGERS - set(obs["f" + nb["id"][1:]].get("constructs", {}))
    if missing:
        raise C.ToolError("function-pointer trigger header does not trigger %s at nightly" % sorted(missing))
    for rs, trig in ((recs, TRIG_C_TRIGGERS), (cpp_recs, TRIG_CPP_TRIGGERS), (fp_recs, TRIG_FP_TRIGGERS)):
        for r in rs:
            v, dr = judge(r, obs[r["id"]], trig)
            for k, det in v:
                agg.setdefault(k, []).append(det)
            for x in dr:
                ndrift += 1
                if len(res.drift) < 20:
                    res.drift.append(x)
        for k, det in monotone(rs, obs):
            agg.setdefault(k, []).append(det)

    # defaults: no --rust-target == newest known stable release with its newest edition
    latest = tables["latest"]
    for rs in (recs, cpp_recs, fp_recs):
        by = {(r["form"], r["n"], r["eopt"]): r for r in rs}
        for eopt in (0, 2018, 2021, 2024):
            dflt, expl = by[("default", 0, eopt)], by[("1.N", latest, eopt)]
            a, b = obs[dflt["id"]], obs[expl["id"]]
            same = a["kind"] == b["kind"] and (a["kind"] != "ok" or open(os.path.join(d, dflt["id"] + ".rs")).read() ==
                                               open(os.path.join(d, expl["id"] + ".rs")).read())
            if not same:
                agg.setdefault("default-target", []).append({"default": " ".join(a["cmd"]), "explicit": " ".join(b["cmd"]),
                                                             "kinds": [a["kind"], b["kind"]]})
        dflt = by[("default", 0, 0)]
        newest_ed = dflt["edition_l1"]
        expl = by[("1.N", latest, newest_ed)]
        if obs[dflt["id"]]["kind"] != "ok" or open(os.path.join(d, dflt["id"] + ".rs")).read() != \
                open(os.path.join(d, expl["id"] + ".rs")).read():
            agg.setdefault("default-edition", []).append({"default": " ".join(obs[dflt["id"]]["cmd"]),
                                                          "explicit": " ".join(obs[expl["id"]]["cmd"])})
    h = subprocess.run([C.BINDGEN, "--help"], stdout=subprocess.PIPE, stderr=subprocess.PIPE, text=True).stdout
    if "Defaults to 1.%d.0" % latest not in h:
        res.drift.append("--help does not document 1.%d.0 as the default target" % latest)

    for k, dets in sorted(agg.items()):
        dets.sort(key=lambda x: (not str(x.get("config", "")).startswith("1.N n="), str(x.get("config", ""))))
        res.violation(k, {"count": len(dets), "first": dets[0], "last": dets[-1],
                          "configs": [x.get("config") for x in dets[:40] if isinstance(x, dict) and x.get("config")]})

    # model-level counterexamples (strict laws) vs. what the real code did
    for p in predicted_cex:
        confirmed = (p["law"] == "ParseTotal" and any(k.startswith("panic:") for k in agg)) or \
                    (p["law"] == "ConstructSound" and any(k.startswith("newer-than-target:") for k in agg))
        res.notes.append("strict law %s: TLC counterexample %s -> %s on the real CLI" %
                         (p["law"], p["input"], "CONFIRMED" if confirmed else "not reproduced (L2 model stale)"))
        if not confirmed:
            res.drift.append("L2 model predicts a violation of %s (%s) that the real CLI does not show" % (p["law"], p["input"]))
    npred = sum(1 for r in recs if r["newer"] or r["parse"] == "panic")
    nconf = sum(1 for r in recs if (r["newer"] and set(r["newer"]) <= set(obs[r["id"]].get("constructs", {})))
                or (r["parse"] == "panic" and obs[r["id"]]["kind"] == "panic"))
    tampered = selftest(recs, obs, TRIG_C_TRIGGERS)

    kinds = {}
    for ob in obs.values():
        kinds[ob["kind"]] = kinds.get(ob["kind"], 0) + 1
    res.add(traces_validated_against_impl=len(jobs), configurations_enumerated=len(recs),
            cli_runs=len(jobs), cli_outcomes=kinds, outputs_scanned=len(outs),
            model_counterexample_configs=npred, model_counterexamples_confirmed_on_cli=nconf,
            tampered_observations_flagged=tampered, drift_total=ndrift, exhaustive=True,
            version_forms=sorted({r["form"] for r in recs}), minors="0..88 + nightly + default",
            strict_laws=predicted_cex)
    for want in (("1.N", 60, 0), ("1.N", 82, 2021), ("1.N-nightly", 78, 2018), ("nightly", 0, 0), ("1.N", 84, 2024)):
        r = next(x for x in recs if (x["form"], x["n"], x["eopt"]) == want)
        ob = obs[r["id"]]
        res.sample_case({"target_args": " ".join(target_args(r)) or "(none: defaults)", "outcome": ob["kind"],
                         "predicted": sorted(r["predicted"]), "allowed": sorted(r["allowed"]),
                         "observed": sorted(set(ob.get("constructs", {})) & CONSTRUCTS)})
    for f in outs:
        try:
            os.remove(f)
        except OSError:
            pass


def replay(res, path):
    """Re-run the witnesses of a replay file on the real CLI."""
    C.build()
    data = json.load(open(path))
    d = C.workdir("c14", clean=False)
    open(os.path.join(d, "trig.h"), "w").write(TRIG_C)
    open(os.path.join(d, "trig.hpp"), "w").write(TRIG_CPP)
    for v in data.get("violations", []):
        first = v["detail"].get("first") or {"cmd": v["detail"].get("replayed")}
        cmd = first.get("cmd") or first.get("absent_at") or first.get("default")
        if not cmd:
            continue
        argv = cmd.split(" ")
        p = subprocess.run([C.BINDGEN] + argv, stdout=subprocess.PIPE, stderr=subprocess.PIPE, text=True)
        C.log("replay %s: rc=%d %s" % (v["key"], p.returncode, p.stderr[-200:]))
        kind, _, what = v["key"].partition(":")
        if kind == "panic" and (p.returncode == 101 or "panicked at" in p.stderr):
            res.violation(v["key"], {"replayed": cmd, "rc": p.returncode})
        elif kind == "newer-than-target" and p.returncode == 0 and "-o" in argv:
            out = argv[argv.index("-o") + 1]
            sc = scan([out]).get(out, {})
            if what in sc.get("constructs", {}):
                res.violation(v["key"], {"replayed": cmd, "where": sc["where"].get(what)})
        elif kind == "unsupported-edition-accepted" and p.returncode == 0:
            res.violation(v["key"], {"replayed": cmd})
        res.notes.append("replayed %s rc=%d" % (v["key"], p.returncode))
    res.add(states=1, transitions=1, traces_validated_against_impl=len(data.get("violations", [])))
