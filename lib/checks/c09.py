"""C09 - allowlisting yields a self-contained, minimal, consistent subset of bindings.

model : MC_Allowlist.tla (traversal machine = reachability, any queue discipline), Regex.tla
T     : Trace_Allowlist.tla over the `ir` events (roots / allowlisted / codegen sets) of real runs
R     : Regex vectors replayed on the real RegexSet; Gen_Allow.tla behaviours (patterns x blocklist x
        recursion) rendered to flags and run through the real CLI, inventories compared with the
        spec's expected set, with the full bindings (token identity) and compiled with rustc.
"""
import json
import os
import re
import subprocess

import common as C

LEVEL = "model_checking"
FRONT = os.path.join(C.SPEC, "front")


def chars(s):
    return list(s)


def decl(kind, name, deps, emits, names=None, blockable=False, alt=True, edges=None, carry=()):
    names = names or [name]
    return {"kind": kind, "chars": chars(name), "match": chars(names[0]), "names": [chars(n) for n in names],
            "deps": deps, "edge": edges or ["TypeReference"] * len(deps), "emits": emits,
            "blockable": blockable, "alt": alt, "carry": list(carry)}


FAMILIES = {
    "lib": {
        "ext": ".h", "flags": [],
        "text": """typedef unsigned int u32_t;
struct leaf { u32_t a; float f; };
struct node { struct leaf l; struct node* next; };
struct other { int z; };
typedef struct node node_t;
enum color { RED, GREEN };
union val { int i; enum color c; };
int walk(node_t* n, union val v);
int walkabout(struct other* o);
struct request { int id; };
struct response { int code; };
typedef int (*handler)(struct request* rq, struct response* rs);
struct server { handler h; int port; };
extern struct leaf g_leaf;
extern int g_count;
enum { ANON_A = 1, ANON_B };
#define M_ONE 1
enum { LATER_A = 5, LATER_B };
""",
        "decls": {
            "u32_t": decl("type", "u32_t", [], ["u32_t"]),
            "leaf": decl("type", "leaf", ["u32_t"], ["leaf"], blockable=True),
            "node": decl("type", "node", ["leaf"], ["node"]),
            "other": decl("type", "other", [], ["other"], blockable=True),
            "node_t": decl("type", "node_t", ["node"], ["node_t"]),
            "color": decl("type", "color", [], ["color", "color_RED", "color_GREEN"]),
            "val": decl("type", "val", ["color"], ["val"]),
            # types reached only through a function pointer's signature (FunctionParameter edges)
            "request": decl("type", "request", [], ["request"]),
            "response": decl("type", "response", [], ["response"]),
            "handler": decl("type", "handler", ["request", "response"], ["handler"], edges=["FunctionParameter", "FunctionParameter"]),
            "server": decl("type", "server", ["handler"], ["server"]),
            "walk": decl("function", "walk", ["node_t", "val"], ["walk"]),
            "walkabout": decl("function", "walkabout", ["other"], ["walkabout"]),
            "g_leaf": decl("var", "g_leaf", ["leaf"], ["g_leaf"]),
            "g_count": decl("var", "g_count", [], ["g_count"]),
            "anon": decl("anonenum", "ANON_A", [], ["ANON_A", "ANON_B", "_bindgen_ty_1"],
                         names=["ANON_A", "ANON_B"], alt=False),
            "M_ONE": decl("var", "M_ONE", [], ["M_ONE"], alt=False),
            # a second unnamed enum: its generated type name must not depend on what else is selected
            "anon2": decl("anonenum", "LATER_A", [], ["LATER_A", "LATER_B", "_bindgen_ty_2"],
                          names=["LATER_A", "LATER_B"], alt=False),
        }},
    # one declaration per kind of type constructor, each over a typedef that nothing else mentions: the
    # traversal has to follow the edge of every TypeKind (vector, array, pointer, qualified, function return)
    "kinds": {
        "ext": ".h", "flags": [], "one_file_per_line": True,
        "text": """typedef float sample_t;
typedef sample_t frame_t __attribute__((vector_size(16)));
struct mixer { frame_t gain; int channels; };
typedef short elem_t;
typedef elem_t row_t[4];
struct grid { row_t rows[2]; };
typedef long tick_t;
struct timer { tick_t *deadline; };
typedef unsigned char byte_t;
typedef byte_t (*getter_t)(void);
struct source { getter_t get; };
typedef int qual_t;
struct cq { const volatile qual_t q; };
void mixer_apply(struct mixer *m);
struct iq_sample { double _Complex z; int gain; };
struct iq_burst { struct iq_sample s[2]; float _Complex carrier; };
struct raw_lanes { __attribute__((vector_size(16))) float lanes; int n; };
""",
        "decls": {
            "sample_t": decl("type", "sample_t", [], ["sample_t"]),
            "frame_t": decl("type", "frame_t", ["sample_t"], ["frame_t"], edges=["VectorElement"]),
            "mixer": decl("type", "mixer", ["frame_t"], ["mixer"]),
            "elem_t": decl("type", "elem_t", [], ["elem_t"], blockable=True),
            "row_t": decl("type", "row_t", ["elem_t"], ["row_t"], edges=["ArrayElement"]),
            "grid": decl("type", "grid", ["row_t"], ["grid"]),
            "tick_t": decl("type", "tick_t", [], ["tick_t"]),
            "timer": decl("type", "timer", ["tick_t"], ["timer"], edges=["Pointee"], blockable=True),
            "byte_t": decl("type", "byte_t", [], ["byte_t"]),
            "getter_t": decl("type", "getter_t", ["byte_t"], ["getter_t"], edges=["FunctionReturn"]),
            "source": decl("type", "source", ["getter_t"], ["source"]),
            "qual_t": decl("type", "qual_t", [], ["qual_t"]),
            "cq": decl("type", "cq", ["qual_t"], ["cq"]),
            "mixer_apply": decl("function", "mixer_apply", ["mixer"], ["mixer_apply"]),
            # members of builtin kinds that are not named declarations (complex, vector): nothing to allowlist,
            # nothing that could be missing - the items must come out exactly as in the full bindings
            "iq_sample": decl("type", "iq_sample", [], ["iq_sample"]),
            "iq_burst": decl("type", "iq_burst", ["iq_sample"], ["iq_burst"]),
            "raw_lanes": decl("type", "raw_lanes", [], ["raw_lanes"]),
        }},
    "ns": {
        "ext": ".hpp", "flags": ["--enable-cxx-namespaces"],
        "text": """namespace ns {
  struct In { int x; void meth(); static int smeth(int); };
  typedef In InT;
  int nsfn(InT* p);
  struct Inner2 { In i; double d; };
}
namespace outer {
  struct Out { ns::In i; ns::Inner2* p; };
  struct Outsider { char c; };
  int use_out(Out* o);
}
struct Top { outer::Out o; };
int topfn(Top t);
namespace codec { enum { CODEC_A = 1, CODEC_B }; }
""",
        "decls": {
            # methods are items of their own, reached over Method edges: blocklisting the class does
            # not blocklist them (the traversal continues through blocklisted items)
            "ns::In": decl("type", "ns::In", ["ns::In_meth", "ns::In_smeth"], ["root::ns::In"], blockable=True,
                           edges=["Method", "Method"],
                           # a class that is emitted is emitted with its methods (CompInfo::codegen)
                           carry=["root::ns::In_meth", "root::ns::In_smeth"]),
            "ns::In_meth": decl("method", "ns::In_meth", ["ns::In"], ["root::ns::In_meth"], alt=False),
            "ns::In_smeth": decl("method", "ns::In_smeth", [], ["root::ns::In_smeth"], alt=False),
            "ns::InT": decl("type", "ns::InT", ["ns::In"], ["root::ns::InT"]),
            "ns::nsfn": decl("function", "ns::nsfn", ["ns::InT"], ["root::ns::nsfn"]),
            "ns::Inner2": decl("type", "ns::Inner2", ["ns::In"], ["root::ns::Inner2"]),
            "outer::Out": decl("type", "outer::Out", ["ns::In", "ns::Inner2"], ["root::outer::Out"]),
            "outer::Outsider": decl("type", "outer::Outsider", [], ["root::outer::Outsider"], blockable=True),
            "outer::use_out": decl("function", "outer::use_out", ["outer::Out"], ["root::outer::use_out"]),
            "Top": decl("type", "Top", ["outer::Out"], ["root::Top"]),
            "topfn": decl("function", "topfn", ["Top"], ["root::topfn"]),
            # an unnamed enum inside a namespace is selected through the paths of its variants
            "codec::anon": decl("anonenum", "codec::CODEC_A", [],
                                ["root::codec::codec_CODEC_A", "root::codec::codec_CODEC_B", "root::codec::_bindgen_ty_1"],
                                names=["codec::CODEC_A", "codec::CODEC_B"], alt=False),
        }},
}

NAMED = {"struct", "union", "enum", "type", "const", "static", "fn", "foreign_fn", "foreign_static"}
FLAG = {"type": "--allowlist-type", "function": "--allowlist-function", "var": "--allowlist-var",
        "item": "--allowlist-item"}


def names_of(inv):
    out = {}
    for it in inv.get("items", []):
        if it.get("kind") in NAMED:
            q = (it["mod"] + "::" if it.get("mod") else "") + it["name"]
            # the block attributes/abi belong to a foreign item's identity
            tok = it.get("tokens", "")
            if it["kind"].startswith("foreign_"):
                tok = json.dumps([it.get("abi"), it.get("unsafety"), it.get("block_attrs"), tok])
            out.setdefault(q, []).append(tok)
    return out


def helper_name(q):
    """bindgen's own support types are related to whatever needs them."""
    n = q.split("::")[-1]
    return n.startswith("__Bindgen") or n.startswith("__Incomplete")


def strip_derive(tok):
    import re
    return re.sub(r"# \[derive \([^)]*\)\] ?", "", tok)


def closure(fam, dn):
    seen, todo = set(), [dn] if dn else []
    while todo:
        x = todo.pop()
        if x in seen:
            continue
        seen.add(x)
        todo.extend(fam["decls"][x]["deps"])
    return seen


def model(res, tier):
    st = tr = 0
    runs = [("MC_Allowlist.tla", "MC_Allowlist.cfg")]
    if tier == "thorough":
        runs.append(("MC_Allowlist.tla", "MC_Allowlist_fifo.cfg"))
    for mod, cfg in runs:
        r = C.tlc(os.path.join(FRONT, mod), cfg=cfg, workers=10, timeout=2400, name="c09-" + cfg)
        if not C.tlc_ok(r):
            raise C.ToolError("model %s failed: %s" % (cfg, r["out"][-1500:]))
        st += r["distinct"]
        tr += r["generated"]
    for mod, cfg in [("MC_Allowlist.tla", "MC_Allowlist_skipBlocked_fails.cfg"),
                     ("Regex.tla", "MC_Regex_unanchored_fails.cfg")]:
        r = C.tlc(os.path.join(FRONT, mod), cfg=cfg, workers=2, timeout=600, name="c09-" + cfg)
        if "is violated" not in r["out"]:
            raise C.ToolError("sensitivity config %s did not fail" % cfg)
    res.add(states=st, transitions=tr, sensitivity_configs_failing_as_expected=2)


def regex_replay(res, tier):
    cfg = os.path.join(C.workdir("c09-regex"), "MC_Regex.cfg")
    with open(os.path.join(FRONT, "MC_Regex.cfg")) as f:
        text = f.read()
    if tier == "thorough":
        text = text.replace("MaxLen = 3", "MaxLen = 4").replace("Depth = 1", "Depth = 2")
    with open(cfg, "w") as f:
        f.write(text)
    r = C.tlc(os.path.join(FRONT, "Regex.tla"), cfg=cfg, workers=8, timeout=2400, name="c09-regex-gen")
    if not C.tlc_ok(r):
        raise C.ToolError("Regex model failed: " + r["out"][-1200:])
    vecs = C.tlc_prints(r["out"], "VEC")
    res.add(states=r["distinct"], transitions=r["generated"])
    lines = [{"ps": [v["p"]], "s": v["s"], "build": True, "want": v["m"], "search": v["search"]} for v in vecs]
    # set-level vectors: empty set, unbuilt set, two patterns, names that are proper prefixes
    extra = [([], "a", True, False), (["a"], "a", False, False), (["a", "b"], "b", True, True),
             (["foo"], "foobar", True, False), (["foo"], "foo", True, True), (["bar"], "foobar", True, False),
             (["foo.*"], "foobar", True, True), (["(foo|bar)"], "bar", True, True), (["foo|bar"], "foobar", True, False),
             (["foo|bar"], "bar", True, True), (["[a-c]x"], "bx", True, True), (["[a-c]x"], "dx", True, False),
             (["ns::In"], "ns::In", True, True), (["ns::In"], "ns::InT", True, False), (["In"], "ns::In", True, False)]
    for ps, s, build, want in extra:
        lines.append({"ps": ps, "s": s, "build": build, "want": want, "search": None})
    vf = os.path.join(C.workdir("c09-regex", clean=False), "vectors.ndjson")
    with open(vf, "w") as f:
        for ln in lines:
            f.write(json.dumps(ln) + "\n")
    p = subprocess.run([C.BVDRIVE, "regex", vf], stdout=subprocess.PIPE, text=True)
    got = {}
    for line in p.stdout.splitlines():
        v = json.loads(line)
        got[v["i"]] = v
    if len(got) != len(lines):
        raise C.ToolError("regex driver returned %d of %d results" % (len(got), len(lines)))
    nontrivial = 0
    for i, ln in enumerate(lines):
        if ln["search"] and not ln["want"]:
            nontrivial += 1   # anchoring matters for this vector
        if got[i].get("m") != ln["want"]:
            kind = "unanchored" if (got[i].get("m") and not ln["want"]) else "mismatch"
            res.violation("regex-%s:%s" % (kind, "built" if ln["build"] else "unbuilt"),
                          {"patterns": ln["ps"], "string": ln["s"], "want": ln["want"], "got": got[i].get("m")})
    res.add(regex_vectors=len(lines), regex_vectors_where_anchoring_matters=nontrivial)
    res.sample_case({"regex_vector": lines[7]})
    return len(lines)


def trace_corpus(res, tier):
    cases = C.corpus_cases()
    sel = C.sample(cases, None if tier == "thorough" else 150, "c09-t")
    d, out = C.run_cases_logged(sel, "c09-corpus")
    trace = os.path.join(C.workdir("c09-trace"), "t.ndjson")
    C.build_trace(d, [c["id"] for c in sel], {"reset", "ir"}, trace)
    r = C.tlc(os.path.join(FRONT, "Trace_Allowlist.tla"), cfg="Trace_Allowlist.cfg", env={"TRACE": trace},
              workers=1, dfs=True, timeout=2400, name="c09-tv")
    if not C.tlc_ok(r):
        raise C.ToolError("Trace_Allowlist did not complete: " + r["out"][-1500:])
    viol = (C.tlc_prints(r["out"], "VIOL") or [[]])[0]
    counts = (C.tlc_prints(r["out"], "COUNTS") or [{}])[0]
    for v in viol:
        res.violation("%s:%s" % (v["kind"], v["case"]), v)
    res.add(traces_validated_against_impl=counts.get("graphs", 0))
    os.remove(trace)
    return trace


def excerpt(out, width=400, follow=14):
    """rustc prints whole source lines and unformatted bindings are one line: keep, for every diagnostic,
    its head line and the next few lines, each cut to `width` characters"""
    lines = out.split("\n")
    keep, left = [], 0
    for ln in lines:
        if re.match(r"(error|warning: unused)", ln):
            left = follow
            keep.append(ln[:width])
        elif left > 0:
            left -= 1
            keep.append(ln[:width] if len(ln) <= width else ln[:width // 2] + " ... " + ln[-width // 2:])
    return "\n".join(keep)[:200000]


def rustc_batch(texts, workdir, name, edition="2021"):
    """Compile many bindings texts as separate modules of one crate; returns list of failing indexes."""
    def compile_(idx):
        src = os.path.join(workdir, name + ".rs")
        with open(src, "w") as f:
            f.write("#![allow(warnings)]\n")
            for i in idx:
                f.write("pub mod c%d {\n%s\n}\n" % (i, texts[i]))
        for attempt in range(3):
            p = subprocess.run(["rustc", "--edition", edition, "--crate-type", "lib", "--emit=metadata", "-o",
                                os.path.join(workdir, name + ".rmeta"), src],
                               stdout=subprocess.PIPE, stderr=subprocess.STDOUT, text=True)
            # a compiler that dies without a diagnostic (killed, out of memory) says nothing about the bindings
            if p.returncode == 0 or re.search(r"^error", p.stdout, re.M):
                return p.returncode == 0, p.stdout
        raise C.ToolError("rustc failed without a diagnostic (rc=%s): %s" % (p.returncode, p.stdout[-400:]))
    ok, out = compile_(list(range(len(texts))))
    if ok:
        return [], ""
    # bisect
    bad = []
    first_msg = excerpt(out)

    def rec(idx):
        if not idx:
            return
        ok, o = compile_(idx)
        if ok:
            return
        if len(idx) == 1:
            bad.append(idx[0])
            return
        h = len(idx) // 2
        rec(idx[:h])
        rec(idx[h:])
    rec(list(range(len(texts))))
    return bad, first_msg


def replay_family(res, tier, name, fam):
    w = C.workdir("c09-fam-" + name)
    hp = os.path.join(w, "prog" + fam["ext"])
    by_file = fam.get("one_file_per_line")
    if by_file:
        # every declaration (one per line, in the order of the `decls` table) lives in a file of its own, so that
        # a set of roots can also be named with --allowlist-file
        lines = [l for l in fam["text"].splitlines() if l.strip()]
        names = list(fam["decls"])
        if len(lines) != len(names):
            raise C.ToolError("family %s: %d lines for %d declarations" % (name, len(lines), len(names)))
        with open(hp, "w") as f:
            for dn, line in zip(names, lines):
                with open(os.path.join(w, "d_%s.h" % dn), "w") as g:
                    g.write(line + "\n")
                f.write('#include "d_%s.h"\n' % dn)
    else:
        with open(hp, "w") as f:
            f.write(fam["text"])
    fj = os.path.join(w, "family.json")
    with open(fj, "w") as f:
        json.dump({"decls": fam["decls"], "maxroots": 2 if tier == "thorough" else 1}, f)
    r = C.tlc(os.path.join(FRONT, "Gen_Allow.tla"), cfg="Gen_Allow.cfg", env={"FAMILY": fj}, workers=8,
              timeout=2400, name="c09-gen-" + name)
    if not C.tlc_ok(r):
        raise C.ToolError("Gen_Allow failed on %s: %s" % (name, r["out"][-1500:]))
    cases = C.tlc_prints(r["out"], "CASE")
    res.add(states=r["distinct"], transitions=r["generated"])
    total = len(cases)
    limit = 1500 if tier == "thorough" else 250
    if total > limit:
        import random
        rnd = random.Random(C.seed() * 31 + len(name))
        cases.sort(key=json.dumps)
        cases = rnd.sample(cases, limit)
    base_args = ["bindgen", "--formatter=none", "--disable-header-comment", "--no-layout-tests", hp] + fam["flags"]
    jobs = [{"id": "full", "args": base_args, "callbacks": None}]
    for i, c in enumerate(cases):
        a = list(base_args)
        if by_file and i % 2 == 1 and c["roots"] and c.get("fns", True):
            # the same roots, selected by the files that declare them
            for rname in c["roots"]:
                a += ["--allowlist-file", ".*/d_%s\\.h" % rname]
            c["by_file"] = True
        else:
            for p in c["pats"]:
                a += [FLAG[p["flag"]], p["re"]]
        for b in c["bl"]:
            if by_file and i % 3 == 2:
                # the blocklist names the file, the allowlist (possibly the very same declaration) the name:
                # the blocklist wins
                a += ["--blocklist-file", ".*/d_%s\\.h" % b]
                c["bl_by_file"] = True
            else:
                a += ["--blocklist-item", b]
        if not c["rec"]:
            a.append("--no-recursive-allowlist")
        if not c.get("fns", True):
            a.append("--ignore-functions")
        jobs.append({"id": "c%05d" % i, "args": a, "callbacks": None})
    d, out = C.run_cases_logged(jobs, "c09-run-" + name)
    invs = C.inventory([os.path.join(d, j["id"] + ".rs") for j in jobs])
    full = names_of(invs.get(os.path.join(d, "full.rs"), {}))
    all_emits = set()
    for dn, dd in fam["decls"].items():
        all_emits |= set(dd["emits"])
    if {n for n in full if not helper_name(n)} != all_emits:
        raise C.ToolError("family %s: model of emitted names is wrong: only-real=%s only-model=%s" %
                          (name, sorted(n for n in set(full) - all_emits if not helper_name(n)), sorted(all_emits - set(full))))
    compile_texts, compile_ids = [], []
    for i, c in enumerate(cases):
        jid = "c%05d" % i
        o = out.get(jid, {})
        if o.get("outcome") != "ok":
            res.violation("allowlisted-run-failed:%s" % o.get("outcome"), {"family": name, "case": c, "msg": o.get("msg")})
            continue
        got = names_of(invs.get(os.path.join(d, jid + ".rs"), {}))
        want = set()
        for dn in c["expected"]:
            want |= set(fam["decls"][dn]["emits"]) | set(fam["decls"][dn]["carry"])
        blocked_names = set()
        for b in c["bl"]:
            blocked_names |= set(fam["decls"][b]["emits"])
        missing = sorted(want - set(got))
        extra = sorted(n for n in set(got) - want if not helper_name(n))
        shape = "%s:rec=%s:bl=%d%s:fns=%s" % ("file" if c.get("by_file") else "+".join(sorted(p["flag"] for p in c["pats"])),
                                            c["rec"], len(c["bl"]), "f" if c.get("bl_by_file") else "", c.get("fns", True))
        if blocked_names & set(got):
            res.violation("blocklisted-emitted:" + shape, {"family": name, "case": c, "names": sorted(blocked_names & set(got))})
        elif missing:
            res.violation("not-self-contained:" + shape, {"family": name, "case": c, "missing": missing})
        elif extra:
            res.violation("not-minimal:" + shape, {"family": name, "case": c, "extra": extra})
        # (iii) token identity with the full bindings. An item whose dependency closure is not
        # completely emitted (blocklisted or, without recursion, not allowlisted dependencies) may
        # legitimately lose derives / change union representation (C10: no derive through a
        # blocklisted type), so it is compared modulo `#[derive]` and skipped on a union/struct flip.
        expected = set(c["expected"])
        owner = {}
        for dn, dd in fam["decls"].items():
            for e in dd["emits"]:
                owner[e] = dn
        for q, toks in got.items():
            if q not in full:
                continue
            a, b = sorted(toks), sorted(full[q])
            if not closure(fam, owner.get(q)) <= expected:
                if any("__BindgenUnionField" in t for t in a + b):
                    continue
                a = [strip_derive(t) for t in a]
                b = [strip_derive(t) for t in b]
            if a != b:
                res.violation("item-differs-from-full-bindings:" + shape,
                              {"family": name, "case": c, "item": q, "allowlisted": toks[:1], "full": full[q][:1]})
                break
        if c["rec"] and not c["bl"]:
            compile_ids.append(i)
            with open(os.path.join(d, jid + ".rs")) as f:
                compile_texts.append(f.read())
    bad, msg = rustc_batch(compile_texts, w, "batch")
    for k in bad:
        c = cases[compile_ids[k]]
        res.violation("allowlisted-output-does-not-compile", {"family": name, "case": c, "rustc": msg})
    res.add(traces_validated_against_impl=len(cases), allowlist_cases_enumerated=total,
            allowlist_outputs_compiled=len(compile_texts))
    if cases:
        res.sample_case({"family": name, "case": cases[min(3, len(cases) - 1)]})


def run(res, tier):
    res.assumptions += [
        "traversal continues through blocklisted items (only their own emission is suppressed): minimality is "
        "judged against reachability over all edges",
        "the families' name/dependency model is checked against the full bindings before use (mismatch = tool error)",
    ]
    C.build()
    model(res, tier)
    regex_replay(res, tier)
    trace_corpus(res, tier)
    for name, fam in sorted(FAMILIES.items()):
        replay_family(res, tier, name, fam)
    res.cov["exhaustive"] = False
