"""C01 - generated bindings compile for every accepted header and option set.

model : Names.tla - identifier mangling (keywords, '$'), colliding pairs enumerated by TLC; closure predicate
        NameSites.tla - every site where a C name becomes a Rust identifier, and what the code writes there (lib/c01_sites.py)
        Overloads.tla - names of overloaded methods (probing), functions (counter) and method externs (two layers), replayed (lib/c01_overloads.py)
        Gen_Options.tla - option vectors of the property's flag space (builder dependencies respected)
R     : header families (C07 orders, C08 shapes, name families incl. every TLC collision pair, C/C++ feature
        families) x pairwise-covering option vectors x editions -> real CLI -> rustc --edition <e> --crate-type
        lib (batched as modules, bisected on failure); repository corpus x option vectors
T     : Trace_Closure.tla - Defs/Uses closure of every emitted module evaluated by TLC on the syn inventory
"""
import json
import os
import random
import re
import subprocess

import common as C
import gen_orders
from checks import c08

LEVEL = "model_checking"
BACK = os.path.join(C.SPEC, "back")

NAME_FAMILIES = {
    "keywords": ("c", "struct type { int fn; int match; int self; int Self; int loop; };\n"
                      "typedef struct type impl;\nint as(int mod, impl *use);\nextern int dyn;\nenum box { async, await, try };\n"
                      "union crate { int in; float ref; };\nint move(enum box yield);\n"),
    "tags-vs-typedefs": ("c", "struct foo { int a; };\ntypedef struct foo foo;\nstruct bar { int b; };\ntypedef struct baz bar_t;\n"
                              "struct baz { struct bar b; };\nenum foo_e { foo_a };\ntypedef enum foo_e foo_e;\nint foo_fn(foo f, bar_t *b);\n"),
    "fn-vs-type": ("c", "struct thing { int x; };\nint thing(struct thing *t);\nextern int thing_var;\ntypedef int (*thing_cb)(struct thing);\n"),
    "anon": ("c", "struct outer { struct { int a; union { int b; float c; }; } in; union { char d; short e; }; enum { X1, X2 } en; };\n"
                  "typedef struct { int q; } anon_td;\ntypedef union { int r; } anon_un;\ntypedef enum { V0 } anon_en;\n"),
    "flex-bitfields": ("c", "struct fl { int n; char data[]; };\nstruct bf { unsigned a:3; int b:5; unsigned long long c:40; _Bool d:1; };\n"
                            "struct __attribute__((packed)) pbf { char x; unsigned y:9; };\nstruct big { char a[33]; int m[3][4]; };\n"),
    "fnptrs": ("c", "typedef int (*cb_t)(int, const char *);\nstruct ops { cb_t cb; void (*v)(void); int (*va)(int, ...); };\n"
                    "void reg(cb_t c, struct ops *o);\nint variadic(int n, ...);\n_Noreturn void die(void);\n"),
    "cxx-basic": ("c++", "namespace a { namespace b { struct S { int x; }; } struct T { b::S s; }; }\n"
                         "class Base { public: virtual ~Base(); virtual int f(); int x; };\nclass Der : public Base { public: int f() override; float y; };\n"
                         "struct Ov { void m(); void m(int); static int s(); Ov(); Ov(int); ~Ov(); };\n"
                         "template<class T, class U> struct Tm { T t; U *u; }; struct UsesTm { Tm<int, float> a; Tm<char, Tm<int,int> > b; };\n"
                         "struct Nest { struct In { int i; } in; enum E { A } e; };\n"),
    # enumerators that repeat a value (they become associated constants under the rust enum styles) and are spelled
    # like Rust keywords; named, typedef'd and nested enums
    "enum-alias-keywords": ("c", "enum token_kind { first = 0, type = 0, match = 1, other = 1, ref = 1, move = 2 };\n"
                                 "typedef enum { k_a = 5, loop = 5, impl = 5 } td_enum;\n"
                                 "struct has_enum { enum { in_a = 1, where = 1 } e; enum token_kind k; };\n"
                                 "enum only_kw { fn = 1, mod = 2, use = 2 };\n"),
    # the same entity declared several times: extern declaration then definition (with initializer), tentative
    # definitions, prototype then definition, forward declaration then definition of a tag
    "redeclarations": ("c", "extern const int LIMIT;\nextern const unsigned MASK;\nextern int counter;\nint tentative;\nint tentative;\n"
                            "struct node;\nint visit(struct node *n);\nconst int LIMIT = 5;\nconst unsigned MASK = 0xffu;\nint counter = 3;\n"
                            "struct node { struct node *next; int v; };\nint visit(struct node *n);\nstatic const int LOCAL = 9;\n"
                            "extern const int LIMIT;\nenum tag_e;\n"),
    # types that are reachable from the roots only through the signature of a function pointer
    "fnptr-signature-types": ("c", "struct io_ctx { int fd; };\nstruct io_stat { long n; };\ntypedef struct io_stat io_stat_t;\nenum io_mode { IO_R, IO_W };\n"
                                   "struct io_ops { int (*open)(struct io_ctx *c, const char *p, enum io_mode m); io_stat_t (*stat)(struct io_ctx *c);\n"
                                   "  void (*each)(void (*inner)(struct io_ctx *)); };\nstruct io_user { struct io_ops *ops; int n; };\n"),
    # overload suffixes (`f`, `f1`, `f2`...) next to members and functions that are literally called `f1`, in
    # every declaration order; constructors and static methods as well
    "cxx-overload-names": ("c++", "struct Chan { void send(const char *); void send1(); void send(int); void send(int, int); void send2(); };\n"
                                  "struct Chan2 { void put(int); void put(long); void put1(); void put2(long); void put(char); };\n"
                                  "struct Mk { Mk(); Mk(int); void new1(); static int make(); static int make(int); int make1(); Mk(int, int); };\n"
                                  ),
    "cxx-overload-fn-names": ("c++", "int over(int); int over1(); int over(double); int over(char, char); int over2();\n"),
    # every lazily emitted helper type is needed from inside a named namespace only
    "cxx-helpers-in-namespace": ("c++", "namespace wire { namespace v1 { struct Packet { unsigned len; unsigned char payload[]; }; } }\n"
                                        "namespace bits { struct Flags { unsigned a:3; unsigned b:9; }; }\n"
                                        "namespace un { union U { int i; float f; }; struct HU { U u; }; }\n"
                                        "namespace cx { struct Z { double _Complex c; }; }\n"
                                        "namespace big { struct Blob { char raw[40]; }; struct __attribute__((aligned(64))) Al { int i; }; }\n"),
    "cxx-floats-via-bases": ("c++", "struct Vec2 { float x; float y; };\nstruct Tagged : Vec2 { int tag; };\nstruct Tagged2 : Tagged { char c; };\n"
                                    "struct Scene { Tagged2 items[4]; };\nstruct IntBase { int i; };\nstruct IntDer : IntBase { short s; };\n"),
    "cxx-unused-tparams": ("c++", "template<class T> struct Unused { int x; };\ntemplate<class T, class U> struct Half { T t; };\n"
                                  "struct H { Unused<float> u; Half<int, double> h; };\ntemplate<class T> using Alias = Half<T, int>;\nstruct HA { Alias<char> a; };\n"),
}


def name_collision_family(pairs):
    """C declarations for every TLC collision pair (same C namespace: struct tags), '$' allowed by clang."""
    lines = []
    for k, p in enumerate(pairs):
        lines.append("struct %s { int x%d; };" % (p["a"], k))
        lines.append("struct %s { int y%d; };" % (p["b"], k))
    return "\n".join(lines) + "\n"


def flags_of(o):
    b = o["o"]
    f = []
    m = {"derive_default": "--with-derive-default", "derive_hash": "--with-derive-hash",
         "derive_partialeq": "--with-derive-partialeq", "derive_eq": "--with-derive-eq",
         "derive_partialord": "--with-derive-partialord", "derive_ord": "--with-derive-ord",
         "no_derive_copy": "--no-derive-copy", "no_derive_debug": "--no-derive-debug", "impl_debug": "--impl-debug",
         "impl_partialeq": "--impl-partialeq", "namespaces": "--enable-cxx-namespaces", "c_naming": "--c-naming",
         "explicit_padding": "--explicit-padding", "flexarray_dst": "--flexarray-dst", "use_core": "--use-core",
         "no_layout_tests": "--no-layout-tests", "sort": "--sort-semantically", "merge": "--merge-extern-blocks",
         "wrap_unsafe_ops": "--wrap-unsafe-ops", "no_prepend_enum_name": "--no-prepend-enum-name"}
    for k, v in m.items():
        if b[k]:
            f.append(v)
    if b["ctypes_prefix"]:
        f += ["--ctypes-prefix", "::core::ffi"]
    f += ["--default-enum-style", o["enumstyle"], "--default-alias-style", o["aliasstyle"],
          "--default-non-copy-union-style", o["unionstyle"], "--rust-edition", o["edition"]]
    if o["edition"] == "2024":
        f += ["--rust-target", "1.85"]      # the edition is only available from 1.85 on
    return f


def pick_options(res, tier):
    r = C.tlc(os.path.join(BACK, "Gen_Options.tla"), cfg="Gen_Options.cfg", workers=1, simulate=4000 if tier == "thorough" else 1500,
              depth=23, timeout=900, name="c01-opts", extra=["-seed", str(C.seed() + 7)])
    sets = C.tlc_prints(r["out"], "OPTS")
    if len(sets) < 50:
        raise C.ToolError("Gen_Options produced too few vectors: " + r["out"][-800:])
    res.add(states=max(r["distinct"], len(sets)), transitions=max(r["generated"], len(sets)))
    uniq = {json.dumps(s, sort_keys=True): s for s in sets}
    pool = list(uniq.values())
    rnd = random.Random(C.seed() + 23)
    rnd.shuffle(pool)
    n = 40 if tier == "thorough" else 12
    names = sorted(pool[0]["o"]) + ["enumstyle", "aliasstyle", "unionstyle", "edition"]

    def val(s, k):
        return s["o"][k] if k in s["o"] else s[k]

    def pairs(s):
        return {(a, val(s, a), b, val(s, b)) for i, a in enumerate(names) for b in names[i + 1:]}
    chosen, covered = [], set()
    while pool and len(chosen) < n:
        best = max(pool[:150], key=lambda s: len(pairs(s) - covered))
        chosen.append(best)
        covered |= pairs(best)
        pool.remove(best)
    return chosen, len(uniq)


def classify(msg):
    codes = sorted(set(re.findall(r"error\[(E\d+)\]", msg)))
    first = ""
    m = re.search(r"error(?:\[E\d+\])?: ([^\n]+)", msg)
    if m:
        first = re.sub(r"`[^`]*`", "X", m.group(1))[:60].strip().replace(" ", "-")
    return "+".join(codes) or "noerrcode", first


def name_class(name):
    """what kind of name does not resolve: one of bindgen's helper types, a --c-naming composite name, a
    template parameter, or something else"""
    if re.match(r"(__Bindgen|__IncompleteArrayField|__BindgenUnionField|__BindgenFloat16|__BindgenLongDouble)", name):
        return "helper"
    if re.search(r"(^|_)(struct|union|enum)_", name):
        return "tagged-name"
    if re.fullmatch(r"[A-Z]\w{0,2}", name):
        return "type-parameter"
    return "other"


def signature(msg, code):
    """what the first diagnostic with this error code is about, without declaration names"""
    m = re.search(r"error\[%s\]: ([^\n]*)\n((?:(?!\nerror).)*)" % code, msg, re.S)
    if not m:
        return "-"
    head, body = m.group(1), m.group(2)[:3000]
    if code == "E0080":
        a = re.search(r'\["(Size|Alignment|Offset) of', body)
        return {"Size": "size-assert", "Alignment": "align-assert", "Offset": "offset-assert"}.get(a.group(1), "-") if a else "-"
    if code in ("E0412", "E0425", "E0433", "E0432"):
        n = re.search(r"`([^`]*)`", head)
        return name_class(n.group(1) if n else "")
    if code == "E0277":
        t = re.search(r"the trait `([A-Za-z]+)(?:<[^`]*>)?` is not implemented for `([^`]*)`", head + body) or \
            re.search(r"`([^`]*)` doesn't implement `([A-Za-z]+)", head + body)
        trait, ty = "-", ""
        if t and "doesn't implement" in t.group(0):
            ty, trait = t.group(1), t.group(2)
        elif t:
            trait, ty = t.group(1), t.group(2)
        elif "can't compare" in head:
            trait = "PartialOrd" if "<" in body[:2000] and "no implementation for `" in body and " < " in body else "PartialEq"
            ty = (re.search(r"can't compare `([^`]*)`", head) or [None, ""])[1]
        h = re.search(r"__Bindgen[A-Za-z]+|__IncompleteArrayField", ty)
        return "%s:%s" % (trait, h.group(0) if h else "other")
    return "-"


def compile_all(res, w, entries, label):
    """entries: list of (key-prefix, detail, text, edition). Batched per edition, bisected on failure."""
    from checks.c09 import rustc_batch
    by_ed = {}
    for e in entries:
        by_ed.setdefault(e[3], []).append(e)
    n = 0
    for ed, es in sorted(by_ed.items()):
        bad, msg = rustc_batch([e[2] for e in es], w, "%s-%s" % (label, ed), edition=ed)
        n += len(es)
        for k in bad:
            bad1, m1 = rustc_batch([es[k][2]], w, "%s-single" % label, edition=ed)
            if not bad1:
                # compiles on its own: the failure inside the batch was not about this module
                res.notes.append("module %s failed only inside a batch; compiles alone" % es[k][1].get("case"))
                continue
            codes, first = classify(m1)
            d = dict(es[k][1])
            d["rustc"] = m1[:3000]
            # one module can show several independent defects: one violation per error code, so that
            # each is matched (or not) on its own
            for code in codes.split("+"):
                res.violation("%s:%s:%s" % (es[k][0], code, signature(m1, code)), d)
    return n


def closure_trace(res, w, outputs):
    """Defs/Uses per module of every output -> Trace_Closure.tla"""
    invs = C.inventory([p for _, p in outputs])
    trace = os.path.join(w, "closure.ndjson")
    prim = {"u8", "u16", "u32", "u64", "u128", "i8", "i16", "i32", "i64", "i128", "usize", "isize", "f32", "f64", "bool",
            "char", "str", "Self", "Option", "Box", "Default", "Copy", "Clone"}
    n = 0
    with open(trace, "w") as o:
        for cid, p in outputs:
            inv = invs.get(p, {})
            if not inv.get("ok"):
                o.write(json.dumps({"ev": "module", "case": cid, "mod": "", "defs": [], "uses": ["<unparsable output>"], "allowed": []}) + "\n")
                n += 1
                continue
            defs, uses = {}, {}
            for it in inv["items"]:
                m = it.get("mod", "")
                if it["kind"] in ("struct", "union", "enum", "type", "foreign_type"):
                    defs.setdefault(m, set()).add(it["name"])
                if it["kind"] == "mod":
                    defs.setdefault(m, set()).add(it["name"])
                if it["kind"] == "use":
                    last = re.split(r"[:\s{},]+", it["name"].strip("; "))
                    for x in last:
                        if x and x not in ("self", "super", "as", "pub", "use", "*"):
                            defs.setdefault(m, set()).add(x)
                tp = set(it.get("tparams") or [])
                for u in it.get("uses") or []:
                    if u.startswith("::") or u in prim or u in tp:
                        continue
                    first = u.split("::")[0]
                    if first in ("std", "core", "self", "super", "crate", "root", "Self", "libloading", "objc", "block", "FAM"):
                        continue
                    if first in tp:
                        continue
                    uses.setdefault(m, set()).add(first)
            for m in sorted(set(defs) | set(uses)):
                o.write(json.dumps({"ev": "module", "case": cid, "mod": m, "defs": sorted(defs.get(m, ())),
                                    "uses": sorted(uses.get(m, ())), "allowed": []}) + "\n")
                n += 1
    r = C.tlc(os.path.join(BACK, "Trace_Closure.tla"), cfg="Trace_Closure.cfg", env={"TRACE": trace}, workers=1, dfs=True,
              timeout=1800, name="c01-tv")
    if not C.tlc_ok(r):
        raise C.ToolError("Trace_Closure did not complete: " + r["out"][-1200:])
    for v in (C.tlc_prints(r["out"], "VIOL") or [[]])[0]:
        res.violation("unresolved-name:%s:%s" % (v["case"].split("@")[0], name_class(str(v.get("name", "")))), v)
    res.add(states=r["distinct"], transitions=r["generated"], modules_closure_checked=n)


def run(res, tier):
    res.assumptions += [
        "option vectors respect the implications the builder itself enforces (ord => partialord & eq, eq => partialeq)",
        "Objective-C headers and headers for non-host targets of the corpus are compiled only as far as the host allows (objc crate absent)",
        "token-level mutants of repository headers are exercised by the C12 check; here the corpus runs under extra option vectors",
    ]
    C.build()
    # ---- model -------------------------------------------------------------------------------
    r = C.tlc(os.path.join(BACK, "Names.tla"), cfg="MC_Names.cfg", workers=4, timeout=900, name="c01-names")
    if not C.tlc_ok(r):
        raise C.ToolError("Names model failed: " + r["out"][-1200:])
    res.tlc_stats(r)
    pairs = {}
    for p in C.tlc_prints(r["out"], "COLLISION"):
        k = tuple(sorted((p["a"], p["b"])))
        pairs[k] = {"a": k[0], "b": k[1], "rust": p["rust"]}
    r2 = C.tlc(os.path.join(BACK, "Names.tla"), cfg="MC_Names_injective_fails.cfg", workers=2, timeout=300, name="c01-sens")
    if "is violated" not in r2["out"]:
        raise C.ToolError("sensitivity config MC_Names_injective_fails did not fail")
    # every site where a C name becomes a Rust identifier (NameSites.tla), replayed on the real bindgen
    import c01_sites
    c01_sites.run(res, tier)
    # names of overloaded methods / functions for every declaration sequence of Overloads.tla
    import c01_overloads
    c01_overloads.run(res, tier)
    opts, nopts = pick_options(res, tier)
    res.add(option_vectors_enumerated=nopts, option_vectors_run=len(opts), mangle_collisions_enumerated=len(pairs))

    w = C.workdir("c01")
    fams = {}
    for n, (lang, text) in NAME_FAMILIES.items():
        fams[n] = (lang, text, [])
    for n, (lang, text) in c08.SHAPES.items():
        fams["shape-" + n] = (lang, text, c08.EXTRA_FLAGS.get(n, []))
    for n, fam in gen_orders.FAMILIES.items():
        if "--no-recursive-allowlist" in fam["flags"]:
            continue      # there the user asks for used types NOT to be defined: unresolved names are the point
        order = [("def", d) for d in __import__("checks.c11", fromlist=["topo"]).topo(fam)]
        fams["graph-" + n] = (fam["lang"], gen_orders.render(fam, order), fam["flags"])
    jobs, meta = [], {}
    for fname, (lang, text, extra) in sorted(fams.items()):
        hp = os.path.join(w, fname + (".hpp" if lang == "c++" else ".h"))
        with open(hp, "w") as f:
            f.write(text)
        for k, o in enumerate(opts):
            jid = "%s@o%02d" % (fname, k)
            ex = list(extra)
            if o["o"]["namespaces"] and "--raw-line" in ex:
                k = ex.index("--raw-line")       # a user definition belongs into the module that uses it
                ex[k:k + 2] = ["--module-raw-line", "root", ex[k + 1]]
            jobs.append({"id": jid, "args": ["bindgen", "--formatter=none", hp] + flags_of(o) + ex, "callbacks": None})
            meta[jid] = (fname, o, text)
        # cuts: an allowlist with one root and a restricted set of item kinds - what is emitted must still be
        # closed (a type named by an emitted item is emitted whatever kinds of items are switched off)
        if "--blocklist-type" not in extra and "--no-recursive-allowlist" not in extra:
            tags = [t for t in re.findall(r"\b(?:struct|union|class)\s+([A-Za-z_]\w*)\s*(?::[^{;]*)?\{", text)
                    if not t.startswith("__")]
            for c_, (root, cut) in enumerate([(t, cut) for t in tags[-2:]
                                              for cut in (["--generate", "types"], ["--ignore-functions", "--ignore-methods"],
                                                          ["--generate", "types,vars"])]):
                jid = "%s@cut%02d" % (fname, c_)
                jobs.append({"id": jid, "args": ["bindgen", "--formatter=none", hp, "--allowlist-type", root] + cut + list(extra),
                             "callbacks": None})
                meta[jid] = (fname, {"edition": "2021", "o": {}}, text)
    # collision pairs: identifiers with '$' need -fdollars-in-identifiers (clang default: on)
    plist = sorted(pairs.values(), key=lambda p: (p["a"], p["b"]))
    plist = [p for p in plist if re.match(r"^[a-z][a-z_$0-9]*$", p["a"]) and re.match(r"^[a-z][a-z_$0-9]*$", p["b"])]
    coll_jobs = []
    for k, p in enumerate(plist[: (60 if tier == "thorough" else 16)]):
        hp = os.path.join(w, "coll%03d.h" % k)
        with open(hp, "w") as f:
            f.write(name_collision_family([p]))
        jid = "collision@%03d" % k
        coll_jobs.append({"id": jid, "args": ["bindgen", "--formatter=none", hp], "callbacks": None})
        meta[jid] = ("collision", p, name_collision_family([p]))
    d, out = C.run_cases_logged(jobs + coll_jobs, "c01-run")
    entries, outputs = [], []
    for j in jobs + coll_jobs:
        jid = j["id"]
        fname, o, text = meta[jid]
        r = out.get(jid, {})
        if r.get("outcome") != "ok":
            res.violation("generation-failed:%s:%s" % (fname.split("-")[0], r.get("outcome")),
                          {"case": jid, "msg": r.get("msg"), "header": text, "args": j["args"][2:]})
            continue
        with open(os.path.join(d, jid + ".rs")) as f:
            body = f.read()
        ed = o["edition"] if isinstance(o, dict) and "edition" in o else "2021"
        if fname == "collision":
            key = "mangle-collision"
            detail = {"pair": o, "header": text}
        else:
            key = "does-not-compile:%s" % fname
            detail = {"case": jid, "flags": j["args"][3:], "header": text}
        entries.append((key, detail, body, ed))
        outputs.append((jid, os.path.join(d, jid + ".rs")))
    ncomp = compile_all(res, w, entries, "fam")
    closure_trace(res, w, outputs)
    res.sample_case({"family": "keywords", "flags": flags_of(opts[0])})
    # ---- repository corpus under extra option vectors ---------------------------------------------
    cases = [c for c in C.corpus_cases() if "objc" not in c["id"] and "--target" not in " ".join(c["args"][:-1])
             and not any(a.startswith("--target=") and "x86_64" not in a for a in c["args"])]
    sel = C.sample(cases, 400 if tier == "thorough" else 90, "c01-corpus")
    cj, cmeta = [], {}
    safe = [["--with-derive-hash", "--with-derive-partialeq", "--with-derive-eq"], ["--impl-debug", "--no-derive-debug"],
            ["--sort-semantically", "--merge-extern-blocks"], ["--explicit-padding"], ["--default-enum-style", "rust"]]
    for i, c in enumerate(sel):
        extra = safe[i % len(safe)]
        jid = c["id"] + "@x%d" % (i % len(safe))
        a = list(c["args"])
        if "--" in a:
            k = a.index("--")
            a = a[:k] + extra + a[k:]
        else:
            a += extra
        cj.append({"id": jid, "args": a, "callbacks": c["callbacks"]})
        cmeta[jid] = (c, extra)
    d2, out2 = C.run_cases_logged(cj, "c01-corpus")
    # the corpus baseline (no extra flags) tells which failures are due to the extra options
    base_entries, extra_entries = [], []
    for j in cj:
        r = out2.get(j["id"], {})
        if r.get("outcome") != "ok":
            continue
        with open(os.path.join(d2, j["id"] + ".rs")) as f:
            extra_entries.append(("corpus-does-not-compile:%s" % "+".join(cmeta[j["id"]][1][:1]),
                                  {"case": j["id"], "extra": cmeta[j["id"]][1]}, f.read(), "2021"))
    ncomp += compile_all(res, w, extra_entries, "corpus")
    res.add(traces_validated_against_impl=ncomp, outputs_compiled=ncomp, families=len(fams))
    res.cov["exhaustive"] = False
