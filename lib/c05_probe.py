"""C05 observation machinery: the C value of an expression (clang-built probe), the value and type of
every constant of a bindings file (rustc-built probe generated from the syn inventory), regions.

Nothing in here decides the property: it produces observations; Trace_Consts.tla judges them."""
import json
import os
import re
import subprocess

import common as C

CLANG = "clang"
RUSTC = "rustc"

# --------------------------------------------------------------------------------------------
# regions of the integers (must agree with spec/back/Consts.tla: region k = [B[k], B[k+1]-1])
# --------------------------------------------------------------------------------------------
BOUNDS = [-(1 << 63), -(1 << 31), -(1 << 15), -(1 << 7), 0, 1 << 7, 1 << 8, 1 << 15, 1 << 16, 1 << 31,
          1 << 32, 1 << 63, 1 << 64]
REGION_NAMES = ["below-i64min", "i64min..i32min-1", "i32min..i16min-1", "i16min..i8min-1", "i8min..-1", "0..i8max",
                "i8max+1..u8max", "u8max+1..i16max", "i16max+1..u16max", "u16max+1..i32max", "i32max+1..u32max",
                "u32max+1..i64max", "i64max+1..u64max", "above-u64max"]


def region(v):
    """0: below i64min, 1..12 the threshold regions, 13: above u64max."""
    r = 0
    for b in BOUNDS:
        if v >= b:
            r += 1
    return r


def kind_name(width_bytes, signed):
    return ("i" if signed else "u") + str(width_bytes * 8)


# --------------------------------------------------------------------------------------------
# C side
# --------------------------------------------------------------------------------------------
C_INT_TYPES = [("char", "c"), ("signed char", "sc"), ("unsigned char", "uc"), ("short", "s"),
               ("unsigned short", "us"), ("int", "i"), ("unsigned int", "u"), ("long", "l"),
               ("unsigned long", "ul"), ("long long", "ll"), ("unsigned long long", "ull"),
               ("__int128", "i128"), ("unsigned __int128", "u128")]

C_COMMON = r"""
#ifdef __cplusplus
extern "C" int printf(const char *, ...);
#else
extern int printf(const char *, ...);
#endif
static void c05__u128(unsigned __int128 u) { char b[48]; int i = 47; b[i] = 0;
  do { b[--i] = (char)('0' + (int)(u % 10)); u /= 10; } while (u); printf("%s", b + i); }
static void c05__i128(__int128 v) { if (v < 0) { printf("-"); c05__u128(-(unsigned __int128)v); } else c05__u128((unsigned __int128)v); }
static void c05__hex(const unsigned char *p, unsigned long n) { unsigned long i; for (i = 0; i < n; i++) printf("%02x", p[i]); }
static void c05__f(const char *id, float v) { unsigned int b; double d = v; unsigned long long db;
  __builtin_memcpy(&b, &v, 4); __builtin_memcpy(&db, &d, 8); printf("V|%s|float|float|4|%u|%llu|1\n", id, b, db); }
static void c05__d(const char *id, double v) { unsigned long long db; __builtin_memcpy(&db, &v, 8);
  printf("V|%s|float|double|8|%llu|%llu|1\n", id, db, db); }
static void c05__ld(const char *id, long double v) { double d = (double)v; unsigned long long db; __builtin_memcpy(&db, &d, 8);
  printf("V|%s|float|long double|16|0|%llu|%d\n", id, db, (long double)d == v || v != v); }
"""

C_PRELUDE_C = C_COMMON + "".join(
    "static void c05__p_%s(const char *id, %s v, unsigned long sz, int arr) { (void)sz; (void)arr; "
    "printf(\"V|%%s|int|%s|%%d|%%d|\", id, (int)sizeof(v), (%s)-1 < (%s)0); "
    "if ((%s)-1 < (%s)0) c05__i128((__int128)v); else c05__u128((unsigned __int128)v); printf(\"\\n\"); }\n"
    % (s, t, t, t, t, t, t) for t, s in C_INT_TYPES) + r"""
static void c05__p_b(const char *id, _Bool v, unsigned long sz, int arr) { (void)sz; (void)arr; printf("V|%s|int|_Bool|1|0|%d\n", id, (int)v); }
static void c05__p_f(const char *id, float v, unsigned long sz, int arr) { (void)sz; (void)arr; c05__f(id, v); }
static void c05__p_d(const char *id, double v, unsigned long sz, int arr) { (void)sz; (void)arr; c05__d(id, v); }
static void c05__p_ld(const char *id, long double v, unsigned long sz, int arr) { (void)sz; (void)arr; c05__ld(id, v); }
static void c05__p_str(const char *id, const char *v, unsigned long sz, int arr) {
  unsigned long n = sz; if (arr != 1) { n = 0; while (v[n]) n++; n++; }
  printf("V|%s|str|char|1|%d|", id, arr == 1); c05__hex((const unsigned char *)v, n); printf("\n"); }
static void c05__p_wstr(const char *id, const void *v, unsigned long sz, int arr) {
  printf("V|%s|wstr|wide|0|%d|", id, arr); if (arr) c05__hex((const unsigned char *)v, sz); printf("\n"); }
static void c05__p_other(const char *id, ...) { printf("V|%s|other\n", id); }
#define C05_ARR(x) (__builtin_types_compatible_p(__typeof__(x), char[sizeof(x)]) ? 1 : \
  (__builtin_types_compatible_p(__typeof__(x), int[sizeof(x) / 4]) || __builtin_types_compatible_p(__typeof__(x), unsigned int[sizeof(x) / 4]) \
   || __builtin_types_compatible_p(__typeof__(x), unsigned short[sizeof(x) / 2])) ? 2 : 0)
#define C05_P(id, x) _Generic((x), """ + ", ".join("%s: c05__p_%s" % (t, s) for t, s in C_INT_TYPES) + r""", \
  _Bool: c05__p_b, float: c05__p_f, double: c05__p_d, long double: c05__p_ld, char *: c05__p_str, const char *: c05__p_str, \
  int *: c05__p_wstr, const int *: c05__p_wstr, unsigned int *: c05__p_wstr, const unsigned int *: c05__p_wstr, \
  unsigned short *: c05__p_wstr, const unsigned short *: c05__p_wstr, default: c05__p_other)(id, (x), sizeof(x), C05_ARR(x))
#define C05_T(id, T) printf("T|%s|%d|%d\n", id, (int)sizeof(T), (T)-1 < (T)0)
"""

CPP_INT_TYPES = C_INT_TYPES + [("wchar_t", "w"), ("char16_t", "c16"), ("char32_t", "c32")]

C_PRELUDE_CPP = C_COMMON + r"""
template<class T> static void c05__int(const char *id, const char *tn, T v) {
  printf("V|%s|int|%s|%d|%d|", id, tn, (int)sizeof(T), (T)-1 < (T)0);
  if ((T)-1 < (T)0) c05__i128((__int128)v); else c05__u128((unsigned __int128)v); printf("\n"); }
template<class T, bool E> struct c05__E { static void p(const char *id, const T &) { printf("V|%s|other\n", id); } };
template<class T> struct c05__E<T, true> { static void p(const char *id, const T &v) {
  typedef __underlying_type(T) U; printf("V|%s|int|enum|%d|%d|", id, (int)sizeof(U), (U)-1 < (U)0);
  if ((U)-1 < (U)0) c05__i128((__int128)(U)v); else c05__u128((unsigned __int128)(U)v); printf("\n"); } };
template<class T> struct c05__S { static void p(const char *id, const T &v) { c05__E<T, __is_enum(T)>::p(id, v); } };
""" + "".join("template<> struct c05__S<%s> { static void p(const char *id, const %s &v) { c05__int<%s>(id, \"%s\", v); } };\n"
              % (t, t, t, t) for t, s in CPP_INT_TYPES) + r"""
template<> struct c05__S<bool> { static void p(const char *id, const bool &v) { printf("V|%s|int|_Bool|1|0|%d\n", id, (int)v); } };
template<> struct c05__S<float> { static void p(const char *id, const float &v) { c05__f(id, v); } };
template<> struct c05__S<double> { static void p(const char *id, const double &v) { c05__d(id, v); } };
template<> struct c05__S<long double> { static void p(const char *id, const long double &v) { c05__ld(id, v); } };
template<unsigned long N> struct c05__S<char[N]> { static void p(const char *id, const char (&v)[N]) {
  printf("V|%s|str|char|1|1|", id); c05__hex((const unsigned char *)v, N); printf("\n"); } };
template<unsigned long N> struct c05__S<wchar_t[N]> { static void p(const char *id, const wchar_t (&v)[N]) {
  printf("V|%s|wstr|wide|0|2|", id); c05__hex((const unsigned char *)v, sizeof(v)); printf("\n"); } };
template<unsigned long N> struct c05__S<char16_t[N]> { static void p(const char *id, const char16_t (&v)[N]) {
  printf("V|%s|wstr|wide|0|2|", id); c05__hex((const unsigned char *)v, sizeof(v)); printf("\n"); } };
template<unsigned long N> struct c05__S<char32_t[N]> { static void p(const char *id, const char32_t (&v)[N]) {
  printf("V|%s|wstr|wide|0|2|", id); c05__hex((const unsigned char *)v, sizeof(v)); printf("\n"); } };
static void c05__cstr(const char *id, const char *v) { unsigned long n = 0; while (v[n]) n++; n++;
  printf("V|%s|str|char|1|0|", id); c05__hex((const unsigned char *)v, n); printf("\n"); }
template<> struct c05__S<const char *> { static void p(const char *id, const char *const &v) { c05__cstr(id, v); } };
template<> struct c05__S<char *> { static void p(const char *id, char *const &v) { c05__cstr(id, v); } };
template<class T> static void c05__P(const char *id, const T &v) { c05__S<T>::p(id, v); }
#define C05_P(id, x) c05__P(id, (x))
template<class T, bool E> struct c05__U { typedef T type; };
template<class T> struct c05__U<T, true> { typedef __underlying_type(T) type; };
#define C05_T(id, T) printf("T|%s|%d|%d\n", id, (int)sizeof(T), (c05__U<T, __is_enum(T)>::type)-1 < (c05__U<T, __is_enum(T)>::type)0)
"""

# diagnostics that mean "this expression has no defined C value" (undefined behaviour folded by clang)
UB_WERROR = ["-Werror=division-by-zero", "-Werror=integer-overflow", "-Werror=shift-count-overflow",
             "-Werror=shift-count-negative", "-Werror=shift-negative-value", "-Werror=shift-overflow",
             "-Werror=shift-sign-overflow", "-Werror=constant-conversion",
             "-Werror=implicitly-unsigned-literal", "-Werror=literal-range"]


def c_probe(d, header, lang, clang_args, subjects, tag="c", ub_strict=True, extra_prelude=""):
    """Compile and run a program that prints every subject of `subjects`
    ({"id":.., "expr": C expression} or {"id":.., "type": C type name}) after including `header`.
    Returns ({id: parsed line}, {id: reason}) - the second dict holds subjects clang rejected."""
    ext = ".cpp" if lang == "c++" else ".c"
    src = os.path.join(d, "probe_%s%s" % (tag, ext))
    exe = os.path.join(d, "probe_%s.bin" % tag)
    live = list(subjects)
    rejected = {}
    base = [CLANG, "-x", lang, "-fno-caret-diagnostics", "-fno-color-diagnostics", "-ferror-limit=0",
            "-fbracket-depth=1024"] + list(clang_args) + ["-Wno-everything"] + (UB_WERROR if ub_strict else [])
    for _round in range(6):
        lines = ['#include "%s"' % header, C_PRELUDE_CPP if lang == "c++" else C_PRELUDE_C, extra_prelude,
                 "int main(void) {"]
        first = sum(l.count("\n") + 1 for l in lines) + 1
        for s in live:
            if "type" in s:
                lines.append('C05_T("%s", %s);' % (s["id"], s["type"]))
            else:
                lines.append('C05_P("%s", %s);' % (s["id"], s["expr"]))
        lines.append("return 0; }")
        with open(src, "w") as f:
            f.write("\n".join(lines) + "\n")
        p = subprocess.run(base + ["-o", exe, src], stdout=subprocess.PIPE, stderr=subprocess.STDOUT, text=True,
                           errors="replace")
        if p.returncode == 0:
            break
        bad = {}
        for m in re.finditer(r"^%s:(\d+):\d+: (?:fatal )?error: (.*)$" % re.escape(src), p.stdout, re.M):
            ln = int(m.group(1)) - first
            if 0 <= ln < len(live):
                bad.setdefault(ln, m.group(2))
        if not bad:
            return None, {"*": p.stdout[-1500:]}
        for ln, why in bad.items():
            rejected[live[ln]["id"]] = why[:160]
        live = [s for i, s in enumerate(live) if i not in bad]
    else:
        return None, {"*": "probe did not converge: " + p.stdout[-800:]}
    try:
        r = subprocess.run([exe], stdout=subprocess.PIPE, stderr=subprocess.PIPE, timeout=120)
    except subprocess.TimeoutExpired:
        return None, {"*": "C probe timed out"}
    finally:
        pass
    out = {}
    for line in r.stdout.decode("latin-1").splitlines():
        f = line.split("|")
        if f[0] == "V" and len(f) >= 3:
            if f[2] == "int":
                out[f[1]] = {"kind": "int", "ctype": f[3], "width": int(f[4]), "signed": f[5] == "1", "value": int(f[6])}
            elif f[2] == "float":
                out[f[1]] = {"kind": "float", "ctype": f[3], "width": int(f[4]), "bits": int(f[5]), "dbits": int(f[6]),
                             "exact": f[7] == "1"}
            elif f[2] == "str":
                out[f[1]] = {"kind": "str", "ctype": "char", "array": f[5] == "1", "bytes": f[6]}
            elif f[2] == "wstr":
                out[f[1]] = {"kind": "wstr", "ctype": "wide", "bytes": f[6] if len(f) > 6 else ""}
            else:
                out[f[1]] = {"kind": "other"}
        elif f[0] == "T" and len(f) >= 4:
            out[f[1]] = {"kind": "type", "width": int(f[2]), "signed": f[3] == "1"}
    if r.returncode != 0 and not out:
        return None, {"*": "C probe crashed rc=%d" % r.returncode}
    for e in (exe,):
        try:
            os.remove(e)
        except OSError:
            pass
    return out, rejected


# --------------------------------------------------------------------------------------------
# Rust side
# --------------------------------------------------------------------------------------------
RUST_PRELUDE = r"""
#[allow(warnings)] trait C05Show { fn c05(&self) -> String; }
#[allow(warnings)] trait C05Ty { const SIGNED: bool; }
macro_rules! c05_int { ($($t:ty),*) => {$(
  impl C05Show for $t { fn c05(&self) -> String { format!("int|{}|{}|{}", ::std::mem::size_of::<$t>(), (<$t>::MIN != 0) as u8, *self as i128) } }
  impl C05Ty for $t { const SIGNED: bool = <$t>::MIN != 0; } )*} }
c05_int!(i8, i16, i32, i64, isize, u8, u16, u32, u64, usize, i128);
impl C05Show for u128 { fn c05(&self) -> String { format!("int|16|0|{}", *self) } }
impl C05Ty for u128 { const SIGNED: bool = false; }
impl C05Show for bool { fn c05(&self) -> String { format!("bool|1|0|{}", *self as u8) } }
impl C05Ty for bool { const SIGNED: bool = false; }
impl C05Show for f32 { fn c05(&self) -> String { format!("float|4|{}|{}", self.to_bits(), (*self as f64).to_bits()) } }
impl C05Show for f64 { fn c05(&self) -> String { format!("float|8|{}|{}", self.to_bits(), self.to_bits()) } }
fn c05_hex(b: &[u8]) -> String { b.iter().map(|x| format!("{:02x}", x)).collect() }
impl<const N: usize> C05Show for [u8; N] { fn c05(&self) -> String { format!("bytes|1|0|{}", c05_hex(&self[..])) } }
impl C05Show for ::std::ffi::CStr { fn c05(&self) -> String { format!("cstr|1|0|{}", c05_hex(self.to_bytes_with_nul())) } }
"""

PRIMS = {"i8", "i16", "i32", "i64", "isize", "u8", "u16", "u32", "u64", "usize", "i128", "u128", "bool", "f32", "f64"}
RAW = re.compile(r"^(::)?(std::os::raw|core::ffi|std::ffi|libc)::(c_\w+)$")
BYTES = re.compile(r"^&('static)?\[u8;\d+(usize)?\]$")
CSTR = re.compile(r"^&('static)?(::)?(std|core)::ffi::CStr$")
IMPL_CONST = re.compile(r"pub const (\w+) : ([^=]+?) = ([^;]+) ;")


class Inv:
    """Lookup structure over a syn inventory of one bindings file."""

    def __init__(self, inv):
        self.items = inv.get("items", [])
        self.by_name = {}
        for it in self.items:
            if it.get("kind") in ("type", "struct", "enum", "union"):
                self.by_name.setdefault(it["name"], []).append(it)

    def path(self, it, name=None):
        m = it.get("mod") or ""
        n = name if name is not None else it["name"]
        return (m + "::" + n) if m else n

    def resolve(self, ty, mod="", depth=0):
        """-> ("prim"|"newtype"|"enum"|"bytes"|"cstr"|None, item)"""
        t = ty.replace(" ", "")
        if t in PRIMS or RAW.match(t):
            if t.endswith("c_void"):
                return None, None
            return "prim", None
        if BYTES.match(t):
            return "bytes", None
        if CSTR.match(t):
            return "cstr", None
        if depth > 8 or not re.match(r"^[\w:]+$", t):
            return None, None
        last = t.split("::")[-1]
        cands = self.by_name.get(last, [])
        if not cands:
            return None, None
        # prefer an item of the same module (module-constified enums: `Type` lives in the enum's module)
        it = None
        for c in cands:
            if (c.get("mod") or "") == mod:
                it = c
        if it is None:
            pre = "::".join(x for x in t.split("::")[:-1] if x not in ("", "self", "super", "crate"))
            for c in cands:
                if pre and (c.get("mod") or "").endswith(pre):
                    it = c
            if it is None:
                it = cands[0]
        if it["kind"] == "type":
            return self.resolve(it["ty"], it.get("mod") or "", depth + 1)
        if it["kind"] == "struct":
            fs = it.get("fields", [])
            if len(fs) == 1 and fs[0][0] == "0":
                k, _ = self.resolve(fs[0][1], it.get("mod") or "", depth + 1)
                if k == "prim":
                    return "newtype", it
            return None, None
        if it["kind"] == "enum":
            return "enum", it
        return None, None


def enum_repr(it):
    for r in it.get("repr", []):
        for x in r.split(","):
            if x in PRIMS:
                return x
    return None


def rust_probe_source(bindings_text, inv):
    """Returns (probe source, number of consts skipped because their type is not a scalar/bytes)."""
    iv = Inv(inv)
    body = []
    impls = {}
    skipped = 0

    def show(path, ty, mod, label="R"):
        nonlocal skipped
        k, it = iv.resolve(ty, mod)
        if k is None:
            if ty.replace(" ", "") != "()":       # `const _: () = {...}` are layout assertions, not constants
                skipped += 1
            return
        if k == "newtype":
            p = iv.path(it)
            impls[p] = "impl C05Show for %s { fn c05(&self) -> String { format!(\"nt:{}\", self.0.c05()) } }" % p
        if k == "enum":
            r = enum_repr(it) or "u32"
            body.append('println!("%s|%s|int|{}|{}|{}", ::std::mem::size_of::<%s>(), <%s as C05Ty>::SIGNED as u8, (%s) as i128);'
                        % (label, path, iv.path(it), r, path))
        else:
            body.append('println!("%s|%s|{}", (%s).c05());' % (label, path, path))

    for it in iv.items:
        k = it.get("kind")
        mod = it.get("mod") or ""
        if k == "const":
            show(iv.path(it), it["ty"], mod)
        elif k == "enum":
            r = enum_repr(it) or "u32"
            p = iv.path(it)
            for v, _disc in it.get("variants", []):
                body.append('println!("R|%s::%s|int|{}|{}|{}", ::std::mem::size_of::<%s>(), <%s as C05Ty>::SIGNED as u8, (%s::%s) as i128);'
                            % (p, v, p, r, p, v))
            body.append('println!("T|%s|enum|{}|{}", ::std::mem::size_of::<%s>(), <%s as C05Ty>::SIGNED as u8);' % (p, p, r))
        elif k == "impl" and not it.get("trait"):
            self_ty = it["name"]
            for m in IMPL_CONST.finditer(it.get("tokens", "")):
                show(((mod + "::") if mod else "") + self_ty + "::" + m.group(1),
                     m.group(2).strip().replace("Self", self_ty), mod)
        elif k == "type":
            kk, _ = iv.resolve(it["ty"], mod)
            if kk == "prim" and not it.get("generics"):
                t = it["ty"].replace(" ", "")
                if not (t in ("f32", "f64") or t.endswith("c_float") or t.endswith("c_double")):
                    p = iv.path(it)
                    body.append('println!("T|%s|alias|{}|{}", ::std::mem::size_of::<%s>(), <%s as C05Ty>::SIGNED as u8);' % (p, p, p))
        elif k == "struct":
            fs = it.get("fields", [])
            if len(fs) == 1 and fs[0][0] == "0" and not it.get("generics"):
                kk, _ = iv.resolve(fs[0][1], mod)
                t = fs[0][1].replace(" ", "")
                if kk == "prim" and not (t in ("f32", "f64") or t.endswith("c_float") or t.endswith("c_double")):
                    p = iv.path(it)
                    fty = fs[0][1]
                    if mod and not fty.strip().startswith("::") and fty.replace(" ", "") not in PRIMS:
                        fty = mod + "::" + fty.replace(" ", "")
                    body.append('println!("T|%s|newtype|{}|{}", ::std::mem::size_of::<%s>(), <%s as C05Ty>::SIGNED as u8);' % (p, p, fty))
    src = bindings_text + "\n" + RUST_PRELUDE + "\n".join(impls.values()) + "\nfn main() {\n" + "\n".join(body) + "\n}\n"
    return src, skipped


CONST_LINE = re.compile(r"^\s*pub const (\w+)\s*:")


def rust_probe(d, bindings_path, inv, tag="r", edition="2021"):
    """Build and run the Rust probe. Returns (values {path: obs}, types {path: obs}, rejected {const name: msg}, skipped, err).
    Constants that rustc itself rejects are removed (they are observations: `rejected`) and the build retried."""
    with open(bindings_path) as f:
        text = f.read()
    rejected = {}
    exe = os.path.join(d, "rprobe_%s.bin" % tag)
    src = os.path.join(d, "rprobe_%s.rs" % tag)
    skipped = 0
    for _round in range(5):
        code, skipped = rust_probe_source(text, inv)
        with open(src, "w") as f:
            f.write(code)
        p = subprocess.run([RUSTC, "--edition", edition, "-A", "warnings", "-C", "debuginfo=0", "-C", "opt-level=0",
                            "--error-format=json", "-o", exe, src], stdout=subprocess.PIPE, stderr=subprocess.PIPE,
                           text=True, errors="replace")
        if p.returncode == 0:
            break
        nlines = text.count("\n") + 1
        tl = text.split("\n")
        bad = {}
        other = []
        for line in p.stderr.splitlines():
            try:
                dg = json.loads(line)
            except Exception:
                continue
            if dg.get("level") != "error":
                continue
            spans = [s for s in dg.get("spans", []) if s.get("is_primary")]
            hit = False
            for s in spans:
                ln = s["line_start"]
                if ln <= nlines:
                    # the enclosing `pub const` item of the bindings text
                    i = ln - 1
                    while i >= 0 and not CONST_LINE.match(tl[i]) and ln - 1 - i < 6:
                        i -= 1
                    if i >= 0 and CONST_LINE.match(tl[i]):
                        j = i
                        while j < len(tl) and not tl[j].rstrip().endswith(";"):
                            j += 1
                        bad[(i, j)] = (CONST_LINE.match(tl[i]).group(1), dg.get("message", "")[:200], "\n".join(tl[i:j + 1])[:300])
                        hit = True
            if not hit:
                other.append(dg.get("message", "")[:200])
        if not bad:
            return None, None, rejected, skipped, "rustc: " + "; ".join(other[:3])
        for (i, j), (name, msg, item) in bad.items():
            rejected[name] = {"msg": msg, "item": item}
            for k in range(i, j + 1):
                tl[k] = ""
        text = "\n".join(tl)
        # the inventory must forget the removed constants
        inv = dict(inv)
        inv["items"] = [it for it in inv.get("items", []) if not (it.get("kind") == "const" and it["name"] in rejected)]
    else:
        return None, None, rejected, skipped, "rust probe did not converge"
    try:
        r = subprocess.run([exe], stdout=subprocess.PIPE, stderr=subprocess.PIPE, timeout=120)
    except subprocess.TimeoutExpired:
        return None, None, rejected, skipped, "rust probe timed out"
    vals, types = {}, {}
    for line in r.stdout.decode("latin-1").splitlines():
        f = line.split("|")
        if f[0] == "R" and len(f) >= 6:
            k = f[2]
            nt = k.startswith("nt:")
            if nt:
                k = k[3:]
            o = {"kind": k, "newtype": nt, "width": int(f[3]), "signed": f[4] == "1"}
            if k in ("int", "bool"):
                o["value"] = int(f[5])
            elif k == "float":
                o["bits"] = int(f[4])
                o["signed"] = True
                o["dbits"] = int(f[5])
            else:
                o["bytes"] = f[5]
            vals[f[1]] = o
        elif f[0] == "T" and len(f) >= 5:
            types[f[1]] = {"how": f[2], "width": int(f[3]), "signed": f[4] == "1"}
    for e in (exe, src):
        try:
            os.remove(e)
        except OSError:
            pass
    if r.returncode != 0:
        return None, None, rejected, skipped, "rust probe crashed rc=%d" % r.returncode
    return vals, types, rejected, skipped, None
