"""Renderers for the TLC-generated behaviours of C05 (Gen_MacroExpr, MC_Consts/Gen_MacroTable, Gen_Enum)
and the (explanatory) i64 evaluator that mimics bindgen's macro evaluator."""
import math
import random

I64MIN, I64MAX, U64MAX = -(1 << 63), (1 << 63) - 1, (1 << 64) - 1

MAGS = {"0": 0, "1": 1, "2": 2, "7": 7, "31": 31, "32": 32, "63": 63, "i8max": 127, "i8max+1": 128, "u8max": 255,
        "u8max+1": 256, "i16max": 32767, "i16max+1": 32768, "u16max": 65535, "u16max+1": 65536,
        "i32max": (1 << 31) - 1, "i32max+1": 1 << 31, "u32max": (1 << 32) - 1, "u32max+1": 1 << 32,
        "i64max": I64MAX, "i64max+1": 1 << 63, "u64max": U64MAX}
CHARS = {"a": ("'a'", 97), "nl": ("'\\n'", 10), "nul": ("'\\0'", 0), "x7f": ("'\\x7f'", 127), "xff": ("'\\xff'", 255),
         "o377": ("'\\377'", 255), "bslash": ("'\\\\'", 92), "quote": ("'\\''", 39), "wide_a": ("L'a'", 97)}
FLOATS = {"1.5": "1.5", "0.1": "0.1", ".5": ".5", "1.": "1.", "1e10": "1e10", "1.5f": "1.5f", "0.1f": "0.1f",
          "2.5L": "2.5L", "0.1L": "0.1L", "1.5e3": "1.5e3", "1e-3": "1e-3", "hex1p3": "0x1p3"}
FLOATV = {"1.5": 1.5, "0.1": 0.1, ".5": 0.5, "1.": 1.0, "1e10": 1e10, "1.5f": 1.5, "0.1f": 0.1, "2.5L": 2.5,
          "0.1L": 0.1, "1.5e3": 1500.0, "1e-3": 1e-3, "hex1p3": 8.0}
STRINGS = {"abc": '"abc"', "esc": '"a\\tb\\n"', "hexesc": '"\\x01\\xff"', "nulmid": '"a\\0b"', "empty": '""',
           "utf8": '"\\u00e9x"', "wide": 'L"wide"', "u8pfx": 'u8"x"'}
PREC = {"*": 10, "/": 10, "%": 10, "+": 9, "-": 9, "<<": 8, ">>": 8, "<": 7, ">": 7, "<=": 7, ">=": 7, "==": 6, "!=": 6,
        "&": 5, "^": 4, "|": 3, "&&": 2, "||": 1}
ARITY = {"int": 0, "chr": 0, "flt": 0, "str": 0, "ref": 0, "sizeofT": 0, "un": 1, "cast": 1, "sizeofE": 1, "par": 1,
         "castif": 1, "unf": 1, "castfi": 1, "tern": 3}


def lit_text(radix, mag, suf):
    v = MAGS[mag]
    if radix == "dec":
        t = str(v)
    elif radix == "hex":
        t = "0x%X" % v
    elif radix == "oct":
        t = "0%o" % v if v else "0"
    else:
        t = "0b" + bin(v)[2:]
    return t + {"": "", "u": "U", "l": "L", "ul": "UL", "ll": "ll", "ull": "ULL"}[suf]


def parse_prefix(seq):
    """prefix symbol list -> tree (sym, [children])"""
    pos = [0]

    def go():
        s = seq[pos[0]]
        pos[0] += 1
        n = ARITY.get(s[0], 2)
        return (s, [go() for _ in range(n)])
    t = go()
    assert pos[0] == len(seq), "prefix sequence not consumed"
    return t


def wrap64(v):
    v &= U64MAX
    return v - (1 << 64) if v > I64MAX else v


class Unsupported(Exception):
    pass


def render(tree, refs):
    """-> (text, precedence, i64-evaluator value or None). refs(type, rt) -> (name, value as the evaluator has it)."""
    s, ch = tree
    k = s[0]
    if k == "int":
        return lit_text(s[1], s[2], s[3]), 12, wrap64(MAGS[s[2]])
    if k == "chr":
        return CHARS[s[1]][0], 12, ("chr", CHARS[s[1]][1])
    if k == "flt":
        return FLOATS[s[1]], 12, FLOATV[s[1]]
    if k == "str":
        return STRINGS[s[1]], 12, ("str",)
    if k == "ref":
        name, val = refs(s[1], s[2])
        return name, 12, val
    if k == "sizeofT":
        return "sizeof(%s)" % s[1], 11, None
    sub = [render(c, refs) for c in ch]

    def par(i, minp):
        t, p, _ = sub[i]
        return "(" + t + ")" if p < minp else t
    vals = [x[2] for x in sub]
    num = all(isinstance(v, (int, float)) and not isinstance(v, bool) for v in vals)
    if k in ("un", "unf"):
        t = par(0, 11)
        op = s[1]
        txt = op + (" " if t[:1] in "+-" else "") + t
        v = None
        if num and op != "!":
            a = vals[0]
            if op == "+":
                v = a
            elif op == "-":
                v = -a if isinstance(a, float) else wrap64(-a)
            elif op == "~" and isinstance(a, int):
                v = wrap64(~a)
        if vals[0] in ("panic", "ub"):
            v = vals[0]
        return txt, 11, v
    if k in ("cast", "castif", "castfi"):
        v = None
        if k == "castif":
            # float -> int conversion out of range is undefined (no C value to compare with) and clang does not
            # diagnose it; the evaluator model cannot vouch for C's operand value (it differs from C exactly where the
            # defects are), so only a float *literal* operand of small magnitude is let through
            t = ch[0]
            while t[0][0] == "par":
                t = t[1][0]
            if t[0][0] != "flt" or abs(FLOATV[t[0][1]]) >= 2147483648.0:
                v = "ub"
        if "ub" in vals or "panic" in vals:
            v = "ub" if "ub" in vals else "panic"
        return "(%s)%s" % (s[1], par(0, 11)), 11, v
    bad = "panic" if "panic" in vals else "ub" if "ub" in vals else None
    if k == "sizeofE":
        return "sizeof(%s)" % sub[0][0], 11, None
    if k == "par":
        return "(" + sub[0][0] + ")", 12, vals[0]
    if k == "tern":
        return "%s ? %s : %s" % (par(0, 1), sub[1][0], par(2, 0)), 0, bad
    if k == "cat":
        return sub[0][0] + " " + sub[1][0], 12, ("str",)
    # binary
    op = s[1]
    p = PREC[op]
    txt = "%s %s %s" % (par(0, p), op, par(1, p + 1))
    v = None
    if num and op in ("+", "-", "*", "/", "%", "<<", ">>", "&", "|", "^"):
        a, b = vals
        try:
            if isinstance(a, float) or isinstance(b, float):
                a, b = float(a), float(b)
                if op == "+":
                    v = a + b
                elif op == "-":
                    v = a - b
                elif op == "*":
                    v = a * b
                elif op == "/":
                    v = a / b if b != 0 else (math.nan if a == 0 or a != a else math.copysign(math.inf, a) * math.copysign(1, b))
                elif op == "%":
                    v = math.fmod(a, b) if b != 0 else math.nan
            elif op == "+":
                v = wrap64(a + b)
            elif op == "-":
                v = wrap64(a - b)
            elif op == "*":
                v = wrap64(a * b)
            elif op in ("/", "%"):
                if b == 0:
                    v = "panic"
                else:
                    q = abs(a) // abs(b)
                    q = q if (a < 0) == (b < 0) else -q
                    v = wrap64(q) if op == "/" else wrap64(a - q * b)
            elif op == "<<":
                v = wrap64(a << (b & 63))
            elif op == ">>":
                v = a >> (b & 63)
            elif op == "&":
                v = a & b
            elif op == "|":
                v = a | b
            elif op == "^":
                v = a ^ b
        except OverflowError:
            v = None
    if bad:
        v = bad
    return txt, p, v


def form_of(tree):
    """A short description of the shape of an expression (goes into violation keys, never a name)."""
    s, ch = tree
    k = s[0]
    if k == "int":
        return "lit-%s%s" % (s[1], ("-" + s[3]) if s[3] else "")
    if k == "chr":
        return "char-" + s[1]
    if k == "flt":
        return "float-" + ("f" if s[1].endswith("f") else "L" if s[1].endswith("L") else "plain")
    if k == "str":
        return "str-" + s[1]
    if k == "ref":
        return "ref"
    if k == "par":
        return form_of(ch[0])
    ops = set()

    def walk(t):
        s, ch = t
        if s[0] in ("un", "bin", "unf", "binf", "binfi", "cmpf"):
            ops.add(s[1])
        elif s[0] not in ("int", "chr", "flt", "str", "ref", "par"):
            ops.add(s[0])
        for c in ch:
            walk(c)
    walk(tree)
    return "expr[" + " ".join(sorted(ops)) + "]"


class ExprHeader:
    """Accumulates generated macros into header text; keeps the referent pools."""

    def __init__(self, seed):
        self.rnd = random.Random(seed)
        self.lines = []
        self.macros = []          # dicts: name, text, pred (record from TLC), form, model (i64-evaluator value)
        self.pool = {"i32": [], "u32": [], "i64": [], "u64": [], "F": [], "S": []}
        for name, text, key, val in (("R_I32", "5", "i32", 5), ("R_U32", "7U", "u32", 7), ("R_I64", "4294967301L", "i64", 4294967301),
                                     ("R_U64", "16ULL", "u64", 16), ("R_F", "2.5", "F", 2.5), ("R_S", '"ref"', "S", ("str",))):
            self.lines.append("#define %s %s" % (name, text))
            self.pool[key].append((name, val))
        self.seen = set()

    def refs(self, t, rt):
        key = rt if t == "I" else t
        return self.rnd.choice(self.pool[key])

    def add(self, rec):
        tree = parse_prefix(rec["seq"])
        text, prec, model = render(tree, self.refs)
        if text in self.seen or model in ("panic", "ub"):
            # "panic": the evaluator model divides by zero - the real bindgen aborts on such a body (witnessed
            # separately); it must not take the whole batch down
            return None
        self.seen.add(text)
        name = "M%05d" % len(self.macros)
        self.lines.append("#define %s %s" % (name, text))
        m = {"name": name, "text": text, "pred": rec, "form": form_of(tree), "model": model}
        self.macros.append(m)
        # a macro the evaluator is predicted to handle can be referenced by later ones
        # (only bodies that are primary expressions: C expands a macro textually, `(int)M` or `M * 2` with an
        # unparenthesised body is a different expression - that hazard is covered by the macro-table model)
        if prec == 12 and rec["supported"] and isinstance(model, (int, float)) and not isinstance(model, bool) \
                and self.rnd.random() < 0.3:
            if rec["rcls"] == "I":
                self.pool[("i" if rec["s"] else "u") + str(rec["w"])].append((name, model)) if rec["w"] in (32, 64) else None
            elif rec["rcls"] == "F":
                self.pool["F"].append((name, model))
        return m

    def text(self):
        return "\n".join(self.lines) + "\n"


# ---------------------------------------------------------------------------------------------
# macro table programs (MC_Consts / Gen_MacroTable)
# ---------------------------------------------------------------------------------------------
def body_text(b):
    t = b["t"]
    if t == "lit":
        return str(b["v"])
    if t == "ref":
        return b["m"]
    if t == "add":
        return "(%s + %d)" % (b["m"], b["v"])
    if t == "rawadd":
        return "%s + %d" % (b["m"], b["v"])
    if t == "mul2":
        return "%s * 2" % b["m"]
    return "(%d ? %d : %d)" % (b["v"], b["v"], b["v"])


def table_header(prog, prefix):
    """prefix makes the names unique so that many programs share one header."""
    lines = []
    for d in prog:
        if d["d"] == "define":
            b = dict(d["b"])
            if b.get("m"):
                b["m"] = prefix + b["m"]
            lines.append("#define %s%s %s" % (prefix, d["n"], body_text(b)))
        else:
            lines.append("#undef %s%s" % (prefix, d["n"]))
    return lines


# ---------------------------------------------------------------------------------------------
# enums (Gen_Enum)
# ---------------------------------------------------------------------------------------------
BVALS = [None, -(1 << 63), -(1 << 31), -(1 << 15), -(1 << 7), 0, 1 << 7, 1 << 8, 1 << 15, 1 << 16, 1 << 31, 1 << 32,
         1 << 63, 1 << 64]


def symval(v):
    return BVALS[v[0]] + v[1]


def c_int_text(v):
    if v == I64MIN:
        return "(-9223372036854775807LL-1)"
    if v < 0:
        return "(-%dLL)" % -v if v < -(1 << 31) else "(-%d)" % -v
    if v > I64MAX:
        return "%dULL" % v
    if v > (1 << 31) - 1:
        return "%dLL" % v if v > (1 << 32) - 1 else "%dU" % v
    return str(v)


FIXED_C = {(8, True): "signed char", (8, False): "unsigned char", (16, True): "short", (16, False): "unsigned short",
           (32, True): "int", (32, False): "unsigned int", (64, True): "long long", (64, False): "unsigned long long"}


def enum_decl(rec, name):
    """-> (declaration text, [variant names], [python values])"""
    vals = [symval(v) for v in rec["vals"]]
    names = ["%s_v%d" % (name, i) for i in range(len(vals))]
    parts = []
    for n, sp, v in zip(names, rec["specs"], vals):
        parts.append(n if sp == [0, 0] else "%s = %s" % (n, c_int_text(v)))
    fixed = rec["fixed"]
    head = "enum class " if rec["form"] == "class" else "enum "
    ty = (" : " + FIXED_C[(fixed["w"], fixed["s"])]) if fixed["w"] else ""
    return "%s%s%s { %s };" % (head, name, ty, ", ".join(parts)), names, vals
