SPECIFICATION SpecD
CONSTANTS
  AN = "derive_copy"
  N = 2
  ShapeSet = {"Int", "Float", "TypeParam", "Ptr", "Fn", "Alias", "Array0", "Array40", "Struct", "Union", "Inst"}
  Sched = "lifo"
  DropEdge = "none"
INVARIANT FixpointIsDirect
CHECK_DEADLOCK FALSE
