---------------------------- MODULE DeriveRules ----------------------------
(***************************************************************************)
(* L1 of trait derivation: derivability by direct structural recursion     *)
(* (no work list, no fix-point machinery) and the decision which traits    *)
(* a generated struct/union gets (`#[derive]`) or gets written by hand.     *)
(*                                                                         *)
(* CanD(G, tr, hv, hd, n): "Yes" | "Manually" | "No" -- follows by-value   *)
(* constituents (members, bases, array elements, alias targets, template   *)
(* definition and arguments); a type met again on the current path is       *)
(* assumed derivable (by-value cycles do not exist in C/C++, recursion      *)
(* through pointers stops at the pointer).                                  *)
(***************************************************************************)
EXTENDS IRRules

RECURSIVE CanD(_, _, _, _, _, _)
CanD(G, tr, hv, hd, n, path) ==
  LET r == G.nodes[n]
      Sub(m) == IF m \in path \cup {n} THEN "Yes" ELSE CanD(G, tr, hv, hd, m, path \cup {n})
      Join(edges) ==
        LET es == {e \in Range(r.edges) : e[1] # n /\ e[2] \in edges}
        IN IF \E e \in es : Sub(e[1]) = "No" THEN "No"
           ELSE IF \E e \in es : Sub(e[1]) = "Manually" THEN "Manually" ELSE "Yes"
      body ==
        IF r.k # "Type" THEN Join(CDEdgesDefault)
        ELSE IF n \notin G.allow THEN Vouched(G, tr, n)
        ELSE IF NotByName(tr, r) THEN "No"
        ELSE IF r.opaque THEN
          IF ~CanDeriveUnion(tr) /\ r.tk = "Comp" /\ r.ckind = "Union" /\ G.opt.untagged_union
          THEN "No" ELSE "Yes"
        ELSE IF r.tk \in {"Void", "NullPtr", "Int", "Complex", "Float", "Enum", "TypeParam",
                          "UnresolvedTypeRef", "Reference", "ObjCInterface", "ObjCId", "ObjCSel"}
             THEN Simple(tr, r.tk)
        ELSE IF r.tk = "Pointer" THEN
          LET c == G.nodes[r.inner].canon IN
          IF TK(G, c) = "Function" THEN FnPtr(tr, FnPtrOk(G.nodes[c]))
          ELSE IF tr = "derive_default" THEN "No" ELSE "Yes"
        ELSE IF r.tk = "Function" THEN FnPtr(tr, FnPtrOk(r))
        ELSE IF r.tk = "Array" THEN
          IF Sub(r.inner) # "Yes" THEN "No"
          ELSE IF r.len = 0 /\ ~CanDeriveIncompleteArray(tr) THEN "No"
          ELSE IF CanDeriveLargeArray(tr) THEN "Yes"
          ELSE IF r.len > ArrayLimit THEN "Manually" ELSE "Yes"
        ELSE IF r.tk = "Vector" THEN
          IF Sub(r.inner) # "Yes" THEN "No" ELSE IF tr = "derive_partialeq" THEN "No" ELSE "Yes"
        ELSE IF r.tk = "Comp" THEN
          IF ~CanDeriveFwdDecl(tr) /\ r.fwd THEN "No"
          ELSE IF ~CanDeriveWithDtor(tr) /\ hd[n] THEN "No"
          ELSE IF r.ckind = "Union" /\ CanDeriveUnion(tr) /\ G.opt.untagged_union
                  /\ (Len(r.self_tparams) > 0 \/ Len(r.all_tparams) > 0) THEN "No"
          ELSE IF r.ckind = "Union" /\ ~CanDeriveUnion(tr) THEN
            IF G.opt.untagged_union THEN "No" ELSE "Yes"
          ELSE IF ~CanDeriveWithVtable(tr) /\ hv[n] # "No" THEN "No"
          ELSE IF ~CanDeriveLargeArray(tr) /\ r.too_large_bfu THEN "No"
          ELSE Join(CompEdges(tr))
        ELSE IF r.tk \in AliasLike \cup {"BlockPointer"} THEN Join(TyperefEdges(tr))
        ELSE IF r.tk = "TemplateInstantiation" THEN Join(InstEdges(tr))
        ELSE "Yes"
  IN IF r.k = "Type" /\ body = "Yes" /\ ~CanDeriveLargeArray(tr) /\ r.align > ArrayLimit
     THEN "Manually" ELSE body

CanDirect(G, tr, hv, hd, n) == CanD(G, tr, hv, hd, n, {})

-----------------------------------------------------------------------------
(* The derive decision of code generation for a composite (derives_of_item *)
(* and the forward-declaration / packed rules of CompInfo::codegen).        *)
(* can : [trait -> "Yes"|"Manually"|"No"] for this item, tpa / flt : the    *)
(* type-parameter-in-array and has-float facts, c : the `comp` record.      *)
TraitOpt(opt, tr) ==
  CASE tr = "derive_copy" -> opt.derive_copy [] tr = "derive_debug" -> opt.derive_debug
    [] tr = "derive_default" -> opt.derive_default [] tr = "derive_hash" -> opt.derive_hash
    [] tr = "derive_partialeq" -> opt.derive_partialeq

DeriveSet(opt, r, can, tpa, flt, fwd, packed) ==
  IF fwd THEN (IF r.ann_nodebug THEN {} ELSE {"Debug"})
  ELSE
    LET copy == opt.derive_copy /\ ~tpa /\ can["derive_copy"] = "Yes" /\ ~r.ann_nocopy
        peq == can["derive_partialeq"] = "Yes"
    IN (IF copy THEN {"Copy", "Clone"} ELSE {})
       \cup (IF ~copy /\ packed THEN {} ELSE
               (IF opt.derive_debug /\ can["derive_debug"] = "Yes" /\ ~r.ann_nodebug THEN {"Debug"} ELSE {})
          \cup (IF opt.derive_default /\ can["derive_default"] = "Yes" /\ ~r.ann_nodefault THEN {"Default"} ELSE {})
          \cup (IF opt.derive_hash /\ can["derive_hash"] = "Yes" THEN {"Hash"} ELSE {})
          \cup (IF opt.derive_partialord /\ peq THEN {"PartialOrd"} ELSE {})
          \cup (IF opt.derive_ord /\ peq /\ ~flt THEN {"Ord"} ELSE {})
          \cup (IF opt.derive_partialeq /\ peq THEN {"PartialEq"} ELSE {})
          \cup (IF opt.derive_eq /\ peq /\ ~flt THEN {"Eq"} ELSE {}))

(* hand-written impls *)
NeedsDebugImpl(opt, r, ds) == "Debug" \notin ds /\ opt.derive_debug /\ opt.impl_debug /\ ~r.no_debug /\ ~r.ann_nodebug
NeedsDefaultImpl(opt, r, ds, fwd) == "Default" \notin ds /\ opt.derive_default /\ ~fwd /\ ~r.no_default /\ ~r.ann_nodefault
NeedsPartialEqImpl(opt, ds, can) == "PartialEq" \notin ds /\ opt.derive_partialeq /\ opt.impl_partialeq
                                    /\ can["derive_partialeq"] = "Manually"

(* L1 safety net, independent of the tiers: what may never carry a derive  *)
Forbidden(G, n, flt, hd) ==
  LET r == G.nodes[n] IN
  (IF flt THEN {"Eq", "Ord"} ELSE {})   \* a float inside an opaque blob is not a Rust float: Hash is decided by the tiers
  \cup (IF hd THEN {"Copy", "Clone"} ELSE {})
  \cup (IF r.no_copy \/ r.ann_nocopy THEN {"Copy", "Clone"} ELSE {})
  \cup (IF r.no_debug \/ r.ann_nodebug THEN {"Debug"} ELSE {})
  \cup (IF r.no_default \/ r.ann_nodefault THEN {"Default"} ELSE {})
  \cup (IF r.no_hash THEN {"Hash"} ELSE {})
  \cup (IF r.no_partialeq THEN {"PartialEq", "PartialOrd", "Eq", "Ord"} ELSE {})
=============================================================================
