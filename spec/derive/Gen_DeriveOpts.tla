--------------------------- MODULE Gen_DeriveOpts ---------------------------
(* Behaviour generator: every combination of the derive-related options.     *)
(* The driver takes a pairwise-covering subset (quick) or a larger seeded     *)
(* sample (thorough) of the 2^11 vectors printed here.                        *)
EXTENDS Naturals, TLC, Json
Names == {"derive_copy", "derive_debug", "derive_default", "derive_hash", "derive_partialeq",
          "derive_partialord", "derive_eq", "derive_ord", "impl_debug", "impl_partialeq", "bindgen_union"}
VARIABLE o
Init == o \in [Names -> BOOLEAN]
Next == UNCHANGED o
Spec == Init /\ [][Next]_o
(* option dependencies that bindgen's CLI enforces or that make no sense otherwise *)
Sensible == /\ (o["derive_eq"] => o["derive_partialeq"])
            /\ (o["derive_ord"] => o["derive_partialord"] /\ o["derive_eq"])
            /\ (o["derive_partialord"] => o["derive_partialeq"])
Emit == Sensible => PrintT(<<"OPTS", ToJson(o)>>)
=============================================================================
