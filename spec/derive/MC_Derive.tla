----------------------------- MODULE MC_Derive -----------------------------
(* L3: on every small graph the fix-point formulation used by the code     *)
(* (IRRules!CDLfp) agrees with derivability by direct recursion             *)
(* (DeriveRules!CanDirect) on every allowlisted node, for every trait.      *)
EXTENDS MC_Analyses, DeriveRules

InitD == \E D \in [Node -> UNION {Descs(n) : n \in Node}], out \in Node \cup {NONE} :
    /\ \A n \in Node : D[n] \in Descs(n)
    /\ \A n \in Node : \A t \in {D[n].r1, D[n].r2} \ {NONE} : D[t].sh # "Var"
    /\ LET g == Build(D, Node \ {out}) IN
       /\ G = g /\ hv = HVLfp(g) /\ hd = HDLfp(g)
    /\ val = [n \in Node |-> "Yes"] /\ wl = <<>> /\ steps = 0
NextD == UNCHANGED vars
SpecD == InitD /\ [][NextD]_vars

FixpointIsDirect ==
  \A tr \in Traits : LET f == CDLfp(G, tr, hv, hd) IN
    \A n \in G.allow : f[n] = CanDirect(G, tr, hv, hd, n)
(* sensitivity: the Default tier for arrays is not the Debug tier *)
DefaultLikeDebug ==
  LET f == CDLfp(G, "derive_default", hv, hd) g == CDLfp(G, "derive_debug", hv, hd) IN
  \A n \in G.allow : f[n] = g[n]
=============================================================================
