----------------------------- MODULE MC_Derive -----------------------------
(* L3: on every small graph the fix-point formulation used by the code     *)
(* (IRRules!CDLfp) agrees with derivability by direct recursion             *)
(* (DeriveRules!CanDirect) on every allowlisted node, for every trait.      *)
EXTENDS MC_Analyses, DeriveRules

InitD == \E D \in [Node -> UNION {Descs(n) : n \in Node}], out \in Node \cup {NONE} :
    /\ \A n \in Node : D[n] \in Descs(n)
    /\ \A n \in Node : \A t \in {D[n].r1, D[n].r2} \ {NONE} : D[t].sh # "Var"
    (* well-formed: what is instantiated is a class template (or an alias / instantiation leading to one) *)
    /\ \A n \in Node : D[n].sh = "Inst" => D[D[n].r1].sh \in {"Struct", "Union", "StructBF", "Alias", "Inst"}
    (* a template argument that refers BACK can only be a named class (struct A { T<A> t; }): an array, pointer or *)
    (* instantiation type cannot contain itself in its own spelling                                              *)
    /\ \A n \in Node : (D[n].sh = "Inst" /\ D[n].r2 # NONE /\ Idx(D[n].r2) <= Idx(n))
                         => D[D[n].r2].sh \in {"Struct", "Union", "StructBF"}
    /\ LET g == Build(D, Node \ {out}) IN
       /\ G = g /\ hv = HVLfp(g) /\ hd = HDLfp(g)
    /\ val = [n \in Node |-> "Yes"] /\ wl = <<>> /\ steps = 0
NextD == UNCHANGED vars
SpecD == InitD /\ [][NextD]_vars

FixpointIsDirect ==
  \A tr \in Traits : LET f == CDLfp(G, tr, hv, hd) IN
    \A n \in G.allow : f[n] = CanDirect(G, tr, hv, hd, n)
(* sensitivity: the Default tier for arrays is not the Debug tier *)
DefaultLikeDebug ==
  LET f == CDLfp(G, "derive_default", hv, hd) g == CDLfp(G, "derive_debug", hv, hd) IN
  \A n \in G.allow : f[n] = g[n]
=============================================================================
