SPECIFICATION Spec
CONSTANTS
  Threads = {1, 2}
  MaxGen = 1
  Inputs = {"a", "b"}
  Reinstall = FALSE
INVARIANTS LibBeforeParse Pure
PROPERTY OnceMonotone
CHECK_DEADLOCK FALSE
