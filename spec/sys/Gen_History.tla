----------------------------- MODULE Gen_History -----------------------------
(* Behaviour generator: histories = begin orders of generations over threads. *)
(* A history is a sequence of thread indices (whose turn it is to begin its   *)
(* next generation) and an input index per generation; TLC enumerates all of  *)
(* them for small bounds and simulates longer ones.                            *)
EXTENDS Naturals, Sequences, TLC, Json
CONSTANTS NThreads, Len_, NInputs
VARIABLES order, inputs
Init == order = <<>> /\ inputs = <<>>
Step == /\ Len(order) < Len_
        /\ \E t \in 0..(NThreads - 1), i \in 0..(NInputs - 1) :
             order' = Append(order, t) /\ inputs' = Append(inputs, i)
Next == Step
Spec == Init /\ [][Next]_<<order, inputs>>
Emit == (Len(order) = Len_) => PrintT(<<"HIST", ToJson([order |-> order, inputs |-> inputs])>>)
=============================================================================
