SPECIFICATION Spec
CONSTANTS
  Threads = {1, 2, 3}
  MaxGen = 2
  Inputs = {"a", "b"}
  Reinstall = TRUE
INVARIANTS LibBeforeParse Pure
PROPERTY OnceMonotone
CHECK_DEADLOCK FALSE
