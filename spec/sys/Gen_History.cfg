SPECIFICATION Spec
CONSTANTS
  NThreads = 3
  Len_ = 4
  NInputs = 2
INVARIANT Emit
CHECK_DEADLOCK FALSE
