------------------------- MODULE Trace_Generations -------------------------
(* Trace validation of the generation / libclang-handle protocol: events of  *)
(* all threads of one process ordered by the logger's sequence number must    *)
(* be a behaviour of Generations.tla: generations do not nest on a thread,    *)
(* the handle is installed on the executing thread before parsing, a thread   *)
(* that already holds the handle does not reload it.                          *)
EXTENDS Naturals, Sequences, FiniteSets, TLC, Json, IOUtils

Rec == ndJsonDeserialize(IOEnv.TRACE)
VARIABLES l, tls, open, once, viol, ngen
vars == <<l, tls, open, once, viol, ngen>>
Init == l = 1 /\ tls = <<>> /\ open = <<>> /\ once = FALSE /\ viol = <<>> /\ ngen = 0
Ev == Rec[l]
Get(f, k, d) == IF k \in DOMAIN f THEN f[k] ELSE d
V(kind) == IF Len(viol) < 50 THEN Append(viol, [kind |-> kind, at |-> l, tid |-> Ev.tid]) ELSE viol

Next ==
  /\ l <= Len(Rec) /\ l' = l + 1
  /\ LET t == Ev.tid IN
     IF Ev.ev = "proc" THEN   \* a new process: all shared state starts afresh
       tls' = <<>> /\ open' = <<>> /\ once' = FALSE /\ UNCHANGED <<viol, ngen>>
     ELSE IF Ev.ev = "gen_begin" THEN
       /\ viol' = IF Get(open, t, 0) # 0 THEN V("generation-nested-on-thread") ELSE viol
       /\ open' = (t :> Ev.gen) @@ open /\ ngen' = ngen + 1 /\ UNCHANGED <<tls, once>>
     ELSE IF Ev.ev = "libclang" THEN
       /\ viol' = IF Ev.tls_loaded # Get(tls, t, FALSE) THEN V("handle-state-differs-from-model") ELSE viol
       /\ UNCHANGED <<tls, open, once, ngen>>
     ELSE IF Ev.ev = "libclang_installed" THEN
       /\ viol' = IF ~Ev.tls_loaded THEN V("install-did-not-install") ELSE viol
       /\ tls' = (t :> TRUE) @@ tls /\ once' = TRUE /\ UNCHANGED <<open, ngen>>
     ELSE IF Ev.ev = "parse" THEN
       /\ viol' = IF ~Ev.tls_loaded \/ ~Get(tls, t, FALSE) THEN V("parse-without-libclang-on-thread")
                  ELSE IF Get(open, t, 0) = 0 THEN V("parse-outside-generation") ELSE viol
       /\ UNCHANGED <<tls, open, once, ngen>>
     ELSE IF Ev.ev = "gen_exit" THEN
       /\ viol' = IF Get(open, t, 0) # Ev.gen THEN V("generation-exit-mismatch") ELSE viol
       /\ open' = (t :> 0) @@ open /\ UNCHANGED <<tls, once, ngen>>
     ELSE UNCHANGED <<tls, open, once, viol, ngen>>
Spec == Init /\ [][Next]_vars
Accepted == LET d == TLCGet("stats").diameter IN
  IF d - 1 = Len(Rec) THEN TRUE ELSE PrintT(<<"REJECTED", ToJson([at |-> d])>>) /\ FALSE
Report == (l = Len(Rec) + 1) => /\ PrintT(<<"VIOL", ToJson(viol)>>)
                                /\ PrintT(<<"COUNTS", ToJson([gens |-> ngen, events |-> Len(Rec)])>>)
=============================================================================
