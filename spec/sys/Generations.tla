---------------------------- MODULE Generations ----------------------------
(***************************************************************************)
(* Process-wide state touched by `Bindings::generate` (lib.rs):            *)
(*   once   - the OnceLock<Arc<SharedLibrary>> (initialised at most once)  *)
(*   tls[t] - clang-sys's per-thread library handle                        *)
(* and per-generation state that must not leak: everything else lives in   *)
(* the BindgenContext owned by the generation.                             *)
(* Threads run sequences of generations; one action per step of            *)
(* ensure_libclang_is_loaded / parse / codegen.  `taint[g]` collects which *)
(* inputs and which shared cells a generation's output depends on.         *)
(***************************************************************************)
EXTENDS Naturals, Sequences, FiniteSets, TLC

CONSTANTS Threads, MaxGen, Inputs, Reinstall   \* Reinstall = FALSE removes `set_library` for threads
                                               \* that did not initialise the once-cell (sensitivity)
VARIABLES once, tls, pc, cur, done, taint, input, failed
vars == <<once, tls, pc, cur, done, taint, input, failed>>

Init == /\ once = FALSE
        /\ tls = [t \in Threads |-> FALSE]
        /\ pc = [t \in Threads |-> "idle"]
        /\ cur = [t \in Threads |-> 0]
        /\ done = [t \in Threads |-> 0]
        /\ taint = <<>>
        /\ input = <<>>
        /\ failed = {}

Gens == DOMAIN taint

Begin(t) == /\ pc[t] = "idle" /\ done[t] < MaxGen
            /\ \E i \in Inputs :
                 LET g == Len(taint) + 1 IN
                 /\ taint' = Append(taint, {i})
                 /\ input' = Append(input, i)
                 /\ cur' = [cur EXCEPT ![t] = g]
            /\ pc' = [pc EXCEPT ![t] = "ensure"]
            /\ UNCHANGED <<once, tls, done, failed>>

(* ensure_libclang_is_loaded *)
Ensure(t) == /\ pc[t] = "ensure"
             /\ IF tls[t] THEN UNCHANGED <<once, tls>>
                ELSE IF ~once THEN once' = TRUE /\ tls' = [tls EXCEPT ![t] = TRUE]   \* load() installs on this thread
                ELSE /\ UNCHANGED once
                     /\ tls' = [tls EXCEPT ![t] = Reinstall]                        \* set_library(clone of the Arc)
             /\ pc' = [pc EXCEPT ![t] = "parse"]
             /\ UNCHANGED <<cur, done, taint, input, failed>>

Parse(t) == /\ pc[t] = "parse"
            /\ IF tls[t] THEN failed' = failed ELSE failed' = failed \cup {cur[t]}
            /\ pc' = [pc EXCEPT ![t] = "codegen"]
            /\ UNCHANGED <<once, tls, cur, done, taint, input>>

End(t) == /\ pc[t] = "codegen"
          /\ pc' = [pc EXCEPT ![t] = "idle"]
          /\ done' = [done EXCEPT ![t] = @ + 1]
          /\ UNCHANGED <<once, tls, cur, taint, input, failed>>

Next == \E t \in Threads : Begin(t) \/ Ensure(t) \/ Parse(t) \/ End(t)
Spec == Init /\ [][Next]_vars

(* libclang is installed on the executing thread before it is used, on every path *)
LibBeforeParse == failed = {}
(* the once-cell is initialised at most once and never reset *)
OnceMonotone == [][once => once']_vars
(* output of a generation depends on its own input only *)
Pure == \A g \in Gens : taint[g] = {input[g]}
=============================================================================
