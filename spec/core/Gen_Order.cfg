SPECIFICATION Spec
INVARIANTS Emitted WellFormed
CHECK_DEADLOCK FALSE
