SPECIFICATION Spec
CONSTANT K = 4
INVARIANT Emit
CHECK_DEADLOCK FALSE
