------------------------------ MODULE Gen_Tmpl ------------------------------
(***************************************************************************)
(* Behaviour generator: families of C++ class templates that instantiate   *)
(* each other.  Template i (1..K) has one parameter A and one member whose *)
(* shape TLC chooses:                                                       *)
(*   "param"   A a;              "int"     int x;                           *)
(*   "ptr"     T_j<A> *p;        (any j # i)                                *)
(*   "val"     T_j<A> v;         (j < i: by-value nesting stays finite)     *)
(*   "nest"    T_j<T_m<A> > n;   (j, m < i)                                 *)
(*   "named"   T_j<Named> c;     (j < i; Named carries a float)             *)
(*   "arr"     A arr[3];                                                    *)
(* plus a user struct per template instantiating it with Named and with     *)
(* int.  The renderer computes the declaration dependencies; Gen_Order.tla  *)
(* then enumerates the valid declaration orders of each program.            *)
(* The facts the analyses must infer (which parameters are used, where a    *)
(* float is contained) are determined by the structure, not by the order.   *)
(***************************************************************************)
EXTENDS Naturals, Sequences, TLC, Json
CONSTANT K
VARIABLES t, i
Kinds == {"param", "int", "ptr", "val", "nest", "named", "arr"}
Opt(n) == {[k |-> "param", j |-> 0, m |-> 0], [k |-> "int", j |-> 0, m |-> 0], [k |-> "arr", j |-> 0, m |-> 0]}
          \cup {[k |-> "ptr", j |-> j, m |-> 0] : j \in (1..K) \ {n}}
          \cup {[k |-> "val", j |-> j, m |-> 0] : j \in 1..(n - 1)}
          \cup {[k |-> "named", j |-> j, m |-> 0] : j \in 1..(n - 1)}
          \cup {[k |-> "nest", j |-> j, m |-> m] : j \in 1..(n - 1), m \in 1..(n - 1)}
Init == t = <<>> /\ i = 1
Next == /\ i <= K
        /\ \E o \in Opt(i) : t' = Append(t, o)
        /\ i' = i + 1
Spec == Init /\ [][Next]_<<t, i>>
Emit == (i = K + 1) => PrintT(<<"TMPL", ToJson(t)>>)
=============================================================================
