---------------------------- MODULE MC_Analyses ----------------------------
(***************************************************************************)
(* Bounded model of `ir/analysis/mod.rs::analyze` instantiated with the    *)
(* rules of IRRules, over every small IR graph TLC can build from a shape  *)
(* alphabet, under EVERY work-list schedule (NextAny) or the code's LIFO.  *)
(*                                                                         *)
(* Checked: values only rise (Monotone), never exceed the least fixed      *)
(* point (Sound), and when the work list is empty every node of the        *)
(* domain is stable and equal to the least fixed point (LeastAtDone).      *)
(* Since the LFP is defined without reference to node numbering or pop     *)
(* order, LeastAtDone under NextAny is the statement that no visiting      *)
(* order (hence no declaration order) can change an inferred fact.         *)
(***************************************************************************)
EXTENDS IRRules, SequencesExt, FiniteSetsExt

CONSTANTS AN,        \* analysis under test
          N,         \* number of nodes
          ShapeSet,  \* node shapes to draw from
          Sched,     \* "any" (every pop order) | "lifo" | "lifoperm" (LIFO over every seeding
                     \* order the code can build: any order of the allowlisted items)
          DropEdge   \* an edge kind removed from the subscription (sensitivity), or "none"

NONE == "-"
Node == {ToString(i) : i \in 1..N}
Idx(n) == CHOOSE i \in 1..N : ToString(i) = n

Leafs == {"Int", "Float", "TypeParam", "Void", "Enum"}
Unary == {"Ptr", "Ref", "Alias", "Array0", "Array3", "Array40", "Var"}

D0(sh) == [sh |-> sh, r1 |-> NONE, r2 |-> NONE, f1 |-> FALSE, f2 |-> FALSE]
DescsOf(n, sh) ==
  LET Later == {m \in Node : Idx(m) > Idx(n)}        \* by-value references are acyclic
      LaterOrNone == Later \cup {NONE}
  IN
  IF sh \in Leafs THEN {D0(sh)}
  ELSE IF sh \in {"Ptr", "Ref"} THEN {[D0(sh) EXCEPT !.r1 = a] : a \in Node}
  ELSE IF sh \in Unary THEN {[D0(sh) EXCEPT !.r1 = a] : a \in Later}
  ELSE IF sh \in {"Struct", "Union"} THEN
    {[sh |-> sh, r1 |-> a, r2 |-> b, f1 |-> x, f2 |-> y] :
       a \in LaterOrNone, b \in LaterOrNone, x \in BOOLEAN, y \in BOOLEAN}
  ELSE IF sh = "StructBF" THEN {[D0(sh) EXCEPT !.r2 = b] : b \in Later}
  ELSE IF sh = "Inst" THEN {[D0(sh) EXCEPT !.r1 = d, !.r2 = a] : d \in Later, a \in Node \cup {NONE}}
  ELSE IF sh = "Fn" THEN {[D0(sh) EXCEPT !.r1 = a, !.f1 = x] : a \in Node, x \in BOOLEAN}
  ELSE {}

Descs(n) == UNION {DescsOf(n, sh) : sh \in ShapeSet}

-----------------------------------------------------------------------------
(* From descriptors to the node records the rules read                      *)
IsT(D, n) == D[n].sh # "Var"
AliasTarget(D, n) ==   \* through Alias only (what the resolver does)
  LET RECURSIVE R(_)
      R(m) == IF D[m].sh = "Alias" THEN R(D[m].r1) ELSE m
  IN R(n)
Canon(D, n) ==
  LET RECURSIVE R(_)
      R(m) == IF D[m].sh = "Alias" THEN R(D[m].r1)
              ELSE IF D[m].sh = "Inst" THEN R(D[m].r1) ELSE m
  IN R(n)

SelfParams(D, n) ==
  IF D[n].sh \in {"Struct", "Union"} /\ D[n].r2 # NONE /\ D[D[n].r2].sh = "TypeParam"
  THEN <<D[n].r2>> ELSE <<>>

TkOf(sh) ==
  CASE sh \in Leafs -> sh
    [] sh = "Ptr" -> "Pointer" [] sh = "Ref" -> "Reference" [] sh = "Alias" -> "Alias"
    [] sh \in {"Array0", "Array3", "Array40"} -> "Array"
    [] sh \in {"Struct", "Union", "StructBF"} -> "Comp"
    [] sh = "Inst" -> "TemplateInstantiation" [] sh = "Fn" -> "Function"
    [] OTHER -> "None"

Base(D, n) ==
  [name |-> n, tname |-> n, blocklisted |-> FALSE, opaque |-> FALSE, stdint |-> FALSE,
   no_copy |-> FALSE, no_debug |-> FALSE, no_default |-> FALSE, no_hash |-> FALSE,
   no_partialeq |-> FALSE, size |-> 4, align |-> 4, canon |-> Canon(D, n), res |-> AliasTarget(D, n),
   all_tparams |-> SelfParams(D, n), self_tparams |-> SelfParams(D, n)]

Rec0(D, n) ==
  LET d == D[n] b == Base(D, n) IN
  IF d.sh = "Var" THEN b @@ [k |-> "Var", ty |-> d.r1]
  ELSE IF d.sh \in Leafs THEN b @@ [k |-> "Type", tk |-> d.sh]
  ELSE IF d.sh \in {"Ptr", "Ref", "Alias"} THEN b @@ [k |-> "Type", tk |-> TkOf(d.sh), inner |-> d.r1]
  ELSE IF d.sh \in {"Array0", "Array3", "Array40"} THEN
    b @@ [k |-> "Type", tk |-> "Array", inner |-> d.r1,
          len |-> CASE d.sh = "Array0" -> 0 [] d.sh = "Array3" -> 3 [] OTHER -> 40]
  ELSE IF d.sh \in {"Struct", "Union", "StructBF"} THEN
    b @@ [k |-> "Type", tk |-> "Comp", ckind |-> IF d.sh = "Union" THEN "Union" ELSE "Struct",
          bases |-> IF d.r1 = NONE THEN <<>> ELSE <<d.r1>>,
          fields |-> IF d.r2 = NONE THEN <<>>
                     ELSE IF d.sh = "StructBF" THEN <<[dm |-> "", bf |-> <<d.r2>>, fname |-> ""]>>
                     ELSE <<[dm |-> d.r2, bf |-> <<>>, fname |-> "f"]>>,
          own_virtual |-> d.f1, own_dtor |-> d.f2, fwd |-> FALSE, non_type_tparams |-> FALSE,
          too_large_bfu |-> FALSE, inner_types |-> <<>>, inner_vars |-> <<>>, methods |-> <<>>,
          ctors |-> <<>>, dtor |-> ""]
  ELSE IF d.sh = "Inst" THEN
    b @@ [k |-> "Type", tk |-> "TemplateInstantiation", def |-> d.r1,
          targs |-> IF d.r2 = NONE THEN <<>> ELSE <<d.r2>>,
          targs_resolved |-> IF d.r2 = NONE THEN <<>> ELSE <<AliasTarget(D, d.r2)>>,
          def_params |-> SelfParams(D, d.r1), def_params_resolved |-> SelfParams(D, d.r1)]
  ELSE (* Fn *)
    b @@ [k |-> "Type", tk |-> "Function", ret |-> d.r1, args |-> <<>>, fnptr_derivable |-> d.f1]

(* edges exactly as the Trace implementation yields them                    *)
WithEdges(nodes) ==
  [n \in DOMAIN nodes |->
     nodes[n] @@ [edges |-> SetToSeq(ExpectedEdges([nodes |-> nodes], n))]]

Opt == [allowlist_recursively |-> TRUE, untagged_union |-> TRUE, has_callbacks |-> FALSE,
        size_t_is_usize |-> TRUE]

Build(D, allow) ==
  [nodes |-> WithEdges([n \in Node |-> Rec0(D, n)]), allow |-> allow, opt |-> Opt,
   vouch |-> [t \in Traits |-> <<>>]]

-----------------------------------------------------------------------------
VARIABLES G, hv, hd, val, wl, steps
vars == <<G, hv, hd, val, wl, steps>>

Bot == CASE AN = "has_vtable" -> HVBot [] AN = "sizedness" -> SZBot
         [] AN = "used_template_params" -> {} [] AN \in Traits -> CDBot [] OTHER -> FALSE

Leq(a, b) == CASE AN = "has_vtable" -> HVLeq(a, b) [] AN = "sizedness" -> SZLeq(a, b)
               [] AN = "used_template_params" -> UTLeq(a, b) [] AN \in Traits -> CDLeq(a, b)
               [] OTHER -> BLeq(a, b)

Constrain(v, n) ==
  CASE AN = "has_vtable" -> HVConstrain(G, v, n)
    [] AN = "sizedness" -> SZConstrain(G, hv, v, n)
    [] AN = "has_destructor" -> HDConstrain(G, v, n)
    [] AN = "has_float" -> HFConstrain(G, v, n)
    [] AN = "type_param_in_array" -> TPAConstrain(G, v, n)
    [] AN = "used_template_params" -> UTConstrain(G, v, n)
    [] AN \in Traits -> CDConstrain(G, AN, hv, hd, v, n)

Dom == CASE AN = "sizedness" -> SZDom(G) [] AN = "used_template_params" -> UTDom(G)
         [] AN \in Traits -> CDDom(G) [] OTHER -> G.allow

Subscribed == (CASE AN = "has_vtable" -> HVEdges [] AN = "sizedness" -> SZEdges
                 [] AN = "has_destructor" -> HDEdges [] AN = "has_float" -> HFEdges
                 [] AN = "type_param_in_array" -> HFEdges
                 [] AN \in Traits -> CDEdgesDefault
                 [] OTHER -> {}) \ {DropEdge}

(* nodes to re-examine when m changed: generate_dependencies (reverse of    *)
(* the traced edges the analysis subscribes to, between allowlisted items); *)
(* template-usage subscribes to every edge from its seed set and adds the   *)
(* argument -> parameter dependency.                                        *)
Deps(m) ==
  IF AN = "used_template_params" THEN
    SetToSeq({n \in UTDom(G) : \E e \in Range(G.nodes[n].edges) : e[1] = m /\ e[2] # DropEdge})
    \o SetToSeq({p \in Ids(G) : \E n \in UTDom(G) :
                   /\ TK(G, n) = "TemplateInstantiation"
                   /\ \E i \in 1..Min2(Len(G.nodes[n].targs_resolved), Len(G.nodes[n].def_params_resolved)) :
                        G.nodes[n].targs_resolved[i] = m /\ G.nodes[n].def_params_resolved[i] = p})
  ELSE
    SetToSeq({n \in G.allow : m \in G.allow /\
                \E e \in Range(G.nodes[n].edges) : e[1] = m /\ e[2] \in Subscribed})

Seeds == SetToSeq(Dom)

LfpNow ==
  CASE AN = "has_vtable" -> HVLfp(G) [] AN = "sizedness" -> SZLfp(G, hv)
    [] AN = "has_destructor" -> HDLfp(G) [] AN = "has_float" -> HFLfp(G)
    [] AN = "type_param_in_array" -> TPALfp(G) [] AN = "used_template_params" -> UTLfp(G)
    [] AN \in Traits -> CDLfp(G, AN, hv, hd)

Perms(S) ==
  LET RECURSIVE P(_)
      P(T) == IF T = {} THEN {<<>>}
              ELSE UNION {{<<x>> \o q : q \in P(T \ {x})} : x \in T}
  IN P(S)

FlattenSegs(segs) ==
  LET RECURSIVE F(_)
      F(i) == IF i > Len(segs) THEN <<>> ELSE segs[i] \o F(i + 1)
  IN F(1)

Init ==
  \E D \in [Node -> UNION {Descs(n) : n \in Node}], out \in Node \cup {NONE} :
    /\ \A n \in Node : D[n] \in Descs(n)
    /\ \A n \in Node : \A t \in {D[n].r1, D[n].r2} \ {NONE} : D[t].sh # "Var"   \* only types are referenced
    /\ LET g == Build(D, Node \ {out}) IN
       /\ G = g
       /\ hv = HVLfp(g)
       /\ hd = HDLfp(g)
    /\ val = [n \in Node |-> Bot]
    /\ LET g == Build(D, Node \ {out})
           dom == CASE AN = "sizedness" -> SZDom(g) [] AN = "used_template_params" -> UTDom(g)
                    [] AN \in Traits -> CDDom(g) [] OTHER -> g.allow
       IN IF Sched = "lifoperm"
          THEN (* what the code builds: for every allowlisted item (in any order, ids follow
                  declaration order) the item followed by everything it traces *)
               \E p \in Perms(g.allow) :
                 wl = FlattenSegs([i \in 1..Len(p) |->
                        <<p[i]>> \o [j \in 1..Len(g.nodes[p[i]].edges) |-> g.nodes[p[i]].edges[j][1]]])
          ELSE wl = SetToSeq(dom)
    /\ steps = 0

RemoveIdx(s, i) == SubSeq(s, 1, i - 1) \o SubSeq(s, i + 1, Len(s))

Pop(i) ==
  /\ wl # <<>>
  /\ LET n == wl[i]
         new == Constrain(val, n)
     IN IF new # val[n]
        THEN /\ val' = [val EXCEPT ![n] = new]
             /\ wl' = RemoveIdx(wl, i) \o Deps(n)
        ELSE /\ wl' = RemoveIdx(wl, i)
             /\ UNCHANGED val
  /\ steps' = steps + 1
  /\ UNCHANGED <<G, hv, hd>>

Next == IF Sched \in {"lifo", "lifoperm"} THEN Pop(Len(wl)) ELSE \E i \in 1..Len(wl) : Pop(i)

Spec == Init /\ [][Next]_vars /\ WF_vars(Next)

-----------------------------------------------------------------------------
Monotone == [][\A n \in Node : Leq(val[n], val'[n])]_vars
Sound == \A n \in Node : Leq(val[n], LfpNow[n])
Done == wl = <<>>
(* judged on the items code generation can consult: the allowlisted ones    *)
StableAtDone == Done => \A n \in Dom \cap G.allow : Constrain(val, n) = val[n]
LeastAtDone == Done => \A n \in G.allow : val[n] = LfpNow[n]
Terminates == <>Done
(* the rules themselves are monotone: larger inputs never give smaller outputs *)
Bounded == steps <= 200
=============================================================================
