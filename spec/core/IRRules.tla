------------------------------ MODULE IRRules ------------------------------
(***************************************************************************)
(* L1/L2 rules of bindgen's fix-point analyses over a frozen IR graph.     *)
(*                                                                         *)
(* A graph G is a record                                                   *)
(*   nodes : [Id -> node record]   (fields as written by the `ir` hook)    *)
(*   allow : SUBSET Id             (allowlisted items)                     *)
(*   opt   : option record                                                 *)
(*   vouch : [trait -> [Id -> "Yes"|"Manually"|"No"]] answers recorded for *)
(*           blocklisted types (partial; missing = rule of the code)       *)
(* The same operators are used by the bounded model (MC_Analyses, graphs   *)
(* enumerated by TLC) and by trace validation (graphs dumped by the real   *)
(* code), so what TLC proves about the rules is about the rules that the   *)
(* implementation is compared with.                                        *)
(***************************************************************************)
EXTENDS Naturals, Sequences, FiniteSets, TLC

Range(s) == {s[i] : i \in DOMAIN s}
Min2(a, b) == IF a <= b THEN a ELSE b

Ids(G) == DOMAIN G.nodes
IsType(G, n) == G.nodes[n].k = "Type"
TK(G, n) == IF IsType(G, n) THEN G.nodes[n].tk ELSE "None"

(* Kleene iteration of a monotone, inflationary step from `bot`.           *)
Lfp(F(_), bot) ==
  LET RECURSIVE It(_)
      It(v) == LET w == F(v) IN IF w = v THEN v ELSE It(w)
  IN It(bot)

(* One-step-beyond seeding used by CannotDerive and UsedTemplateParameters *)
OneStep(G) == G.allow \cup
  UNION {{e[1] : e \in Range(G.nodes[n].edges)} : n \in G.allow}

AliasLike == {"TemplateAlias", "Alias", "ResolvedTypeRef"}

-----------------------------------------------------------------------------
(* has_vtable: No < SelfHasVtable < BaseHasVtable                          *)
HVRank(x) == CASE x = "No" -> 0 [] x = "SelfHasVtable" -> 1 [] x = "BaseHasVtable" -> 2
HVMax(a, b) == IF HVRank(a) >= HVRank(b) THEN a ELSE b
HVLeq(a, b) == HVRank(a) <= HVRank(b)
HVBot == "No"
HVDom(G) == G.allow
HVEdges == {"TypeReference", "BaseMember", "TemplateDeclaration"}

HVConstrain(G, v, n) ==
  LET r == G.nodes[n] IN
  IF r.k # "Type" THEN v[n]
  ELSE IF r.tk \in AliasLike \cup {"Reference"} THEN HVMax(v[n], v[r.inner])
  ELSE IF r.tk = "Comp" THEN
    LET own  == IF r.own_virtual THEN "SelfHasVtable" ELSE "No"
        base == IF \E i \in DOMAIN r.bases : v[r.bases[i]] # "No"
                THEN "BaseHasVtable" ELSE "No"
    IN HVMax(v[n], HVMax(own, base))
  ELSE IF r.tk = "TemplateInstantiation" THEN HVMax(v[n], v[r.def])
  ELSE v[n]

-----------------------------------------------------------------------------
(* sizedness: ZeroSized < DependsOnTypeParam < NonZeroSized                *)
SZRank(x) == CASE x = "ZeroSized" -> 0 [] x = "DependsOnTypeParam" -> 1 [] x = "NonZeroSized" -> 2
SZMax(a, b) == IF SZRank(a) >= SZRank(b) THEN a ELSE b
SZLeq(a, b) == SZRank(a) <= SZRank(b)
SZBot == "ZeroSized"
SZDom(G) == {n \in G.allow : IsType(G, n)}
SZEdges == {"TemplateArgument", "TemplateParameterDefinition", "TemplateDeclaration",
            "TypeReference", "BaseMember", "Field"}

SZJoinSeq(v, s) ==
  LET RECURSIVE J(_)
      J(i) == IF i > Len(s) THEN "ZeroSized" ELSE SZMax(v[s[i]], J(i + 1))
  IN J(1)

(* hv is the has_vtable answer (sizedness consults has_vtable_ptr)         *)
SZConstrain(G, hv, v, n) ==
  LET r == G.nodes[n] IN
  IF r.k # "Type" THEN v[n]
  ELSE IF v[n] = "NonZeroSized" THEN v[n]
  ELSE IF hv[n] = "SelfHasVtable" THEN "NonZeroSized"
  ELSE IF r.opaque THEN
    SZMax(v[n], IF r.size > 0 THEN "NonZeroSized" ELSE "ZeroSized")
  ELSE IF r.tk = "Void" THEN v[n]
  ELSE IF r.tk = "TypeParam" THEN SZMax(v[n], "DependsOnTypeParam")
  ELSE IF r.tk \in {"Int", "Float", "Complex", "Function", "Enum", "Reference", "NullPtr",
                    "ObjCId", "ObjCSel", "Pointer", "ObjCInterface", "Vector"}
       THEN "NonZeroSized"
  ELSE IF r.tk \in AliasLike \cup {"BlockPointer"} THEN SZMax(v[n], v[r.inner])
  ELSE IF r.tk = "TemplateInstantiation" THEN SZMax(v[n], v[r.def])
  ELSE IF r.tk = "Array" THEN IF r.len = 0 THEN v[n] ELSE "NonZeroSized"
  ELSE IF r.tk = "Comp" THEN
    IF Len(r.fields) > 0 THEN "NonZeroSized" ELSE SZMax(v[n], SZJoinSeq(v, r.bases))
  ELSE v[n]

-----------------------------------------------------------------------------
(* boolean set analyses: FALSE < TRUE                                      *)
BLeq(a, b) == a => b

HDDom(G) == G.allow
HDEdges == {"TypeReference", "BaseMember", "Field", "TemplateArgument", "TemplateDeclaration"}
HDConstrain(G, v, n) ==
  LET r == G.nodes[n] IN
  IF v[n] \/ r.k # "Type" THEN v[n]
  ELSE IF r.tk \in AliasLike THEN v[r.inner]
  ELSE IF r.tk = "Comp" THEN
    IF r.own_dtor THEN TRUE
    ELSE IF r.ckind = "Union" THEN FALSE
    ELSE (\E i \in DOMAIN r.bases : v[r.bases[i]])
         \/ (\E i \in DOMAIN r.fields : r.fields[i].dm # "" /\ v[r.fields[i].dm])
  ELSE IF r.tk = "TemplateInstantiation" THEN
    v[r.def] \/ (\E i \in DOMAIN r.targs : v[r.targs[i]])
  ELSE FALSE

HFDom(G) == G.allow
HFEdges == {"BaseMember", "Field", "TypeReference", "VarType", "TemplateArgument",
            "TemplateDeclaration", "TemplateParameterDefinition"}
HFConstrain(G, v, n) ==
  LET r == G.nodes[n] IN
  IF v[n] \/ r.k # "Type" THEN v[n]
  ELSE IF r.tk \in {"Float", "Complex"} THEN TRUE
  ELSE IF r.tk \in {"Array", "Vector"} THEN v[r.inner]
  ELSE IF r.tk \in AliasLike \cup {"BlockPointer"} THEN v[r.inner]
  ELSE IF r.tk = "Comp" THEN
    (\E i \in DOMAIN r.bases : v[r.bases[i]])
    \/ (\E i \in DOMAIN r.fields :
          IF r.fields[i].dm # "" THEN v[r.fields[i].dm]
          ELSE \E j \in DOMAIN r.fields[i].bf : v[r.fields[i].bf[j]])
  ELSE IF r.tk = "TemplateInstantiation" THEN
    (\E i \in DOMAIN r.targs : v[r.targs[i]]) \/ v[r.def]
  ELSE FALSE

TPADom(G) == G.allow
TPAConstrain(G, v, n) ==
  LET r == G.nodes[n] IN
  IF v[n] \/ r.k # "Type" THEN v[n]
  ELSE IF r.tk = "Array" THEN TK(G, G.nodes[r.inner].canon) = "TypeParam"
  ELSE IF r.tk \in AliasLike \cup {"BlockPointer"} THEN v[r.inner]
  ELSE IF r.tk = "Comp" THEN
    (\E i \in DOMAIN r.bases : v[r.bases[i]])
    \/ (\E i \in DOMAIN r.fields : r.fields[i].dm # "" /\ v[r.fields[i].dm])
  ELSE IF r.tk = "TemplateInstantiation" THEN
    (\E i \in DOMAIN r.targs : v[r.targs[i]]) \/ v[r.def]
  ELSE FALSE

-----------------------------------------------------------------------------
(* used template parameters: sets of ids ordered by inclusion              *)
UTDom(G) == OneStep(G)
UTEdges == {"TemplateArgument", "BaseMember", "Field", "Constructor", "Destructor",
            "VarType", "FunctionReturn", "FunctionParameter", "TypeReference"}
UTLeq(a, b) == a \subseteq b

UTConstrain(G, v, n) ==
  LET r == G.nodes[n] IN
  IF r.k = "Type" /\ r.tk = "TypeParam" THEN v[n] \cup {n}
  ELSE IF r.k = "Type" /\ r.tk = "TemplateInstantiation" THEN
    IF r.def \in G.allow THEN
      v[n] \cup UNION {
        IF r.def_params[i] \in v[r.def] /\ r.targs_resolved[i] # n
        THEN v[r.targs_resolved[i]] ELSE {}
        : i \in 1..Min2(Len(r.targs_resolved), Len(r.def_params))}
    ELSE v[n] \cup UNION {v[a] : a \in Range(r.targs_resolved) \ {n}}
  ELSE v[n] \cup UNION {v[e[1]] : e \in {e \in Range(r.edges) : e[1] # n /\ e[2] \in UTEdges}}

-----------------------------------------------------------------------------
(* derivability: Yes < Manually < No, one analysis per trait               *)
CDRank(x) == CASE x = "Yes" -> 0 [] x = "Manually" -> 1 [] x = "No" -> 2
CDMax(a, b) == IF CDRank(a) >= CDRank(b) THEN a ELSE b
CDLeq(a, b) == CDRank(a) <= CDRank(b)
CDBot == "Yes"
CDDom(G) == OneStep(G)
Traits == {"derive_copy", "derive_debug", "derive_default", "derive_hash", "derive_partialeq"}
CDEdgesDefault == {"BaseMember", "Field", "TypeReference", "VarType", "TemplateArgument",
                   "TemplateDeclaration", "TemplateParameterDefinition"}
ArrayLimit == 32

CanDeriveLargeArray(tr) == tr # "derive_default"
CanDeriveUnion(tr) == tr = "derive_copy"
CanDeriveWithDtor(tr) == tr # "derive_copy"
CanDeriveWithVtable(tr) == tr # "derive_default"
CanDeriveFwdDecl(tr) == tr = "derive_debug"
CanDeriveIncompleteArray(tr) == tr \notin {"derive_copy", "derive_hash", "derive_partialeq"}

NotByName(tr, r) ==
  CASE tr = "derive_copy" -> r.no_copy
    [] tr = "derive_debug" -> r.no_debug
    [] tr = "derive_default" -> r.no_default
    [] tr = "derive_hash" -> r.no_hash
    [] tr = "derive_partialeq" -> r.no_partialeq

(* FunctionSig::function_pointers_can_derive, from the facts of the signature (not from the code's own   *)
(* answer): Rust implements the traits for function pointers of up to 12 parameters - a variadic tail is    *)
(* not a parameter - and bindgen derives through them for the C ABI only.  (Graphs built by the models     *)
(* carry the answer directly and no `abi`.)                                                                  *)
FnPtrLimit == 12
FnPtrOk(n) == IF "abi" \in DOMAIN n THEN Len(n.args) <= FnPtrLimit /\ n.abi \in {"C", "unknown"}
              ELSE n.fnptr_derivable

FnPtr(tr, derivable) ==
  IF tr \in {"derive_copy", "derive_default"} \/ derivable THEN "Yes"
  ELSE IF tr = "derive_debug" THEN "Manually" ELSE "No"

Simple(tr, tk) ==
  IF tr = "derive_default" /\ tk \in {"Void", "NullPtr", "Enum", "Reference", "TypeParam",
                                       "ObjCInterface", "ObjCId", "ObjCSel"} THEN "No"
  ELSE IF tr = "derive_hash" /\ tk \in {"Float", "Complex"} THEN "No"
  ELSE "Yes"

StdintNames == {"int8_t", "uint8_t", "int16_t", "uint16_t", "int32_t", "uint32_t", "int64_t",
                "uint64_t", "uintptr_t", "intptr_t", "ptrdiff_t"}

Vouched(G, tr, n) ==
  IF tr \in DOMAIN G.vouch /\ n \in DOMAIN G.vouch[tr] THEN G.vouch[tr][n]
  ELSE LET r == G.nodes[n] IN
       IF G.opt.has_callbacks THEN "No"
       ELSE IF r.tname \in StdintNames
               \/ (r.tname \in {"size_t", "ssize_t"} /\ G.opt.size_t_is_usize) THEN "Yes"
       ELSE "No"

CDJoin(G, v, n, edges) ==
  LET es == {e \in Range(G.nodes[n].edges) : e[1] # n /\ e[2] \in edges}
      RECURSIVE J(_)
      J(S) == IF S = {} THEN "Yes" ELSE LET e == CHOOSE e \in S : TRUE IN CDMax(v[e[1]], J(S \ {e}))
  IN IF \E e \in es : v[e[1]] = "No" THEN "No"
     ELSE IF \E e \in es : v[e[1]] = "Manually" THEN "Manually" ELSE "Yes"

CompEdges(tr) == IF tr = "derive_partialeq" THEN CDEdgesDefault ELSE {"BaseMember", "Field"}
TyperefEdges(tr) == IF tr = "derive_partialeq" THEN CDEdgesDefault ELSE {"TypeReference"}
InstEdges(tr) == IF tr = "derive_partialeq" THEN CDEdgesDefault
                 ELSE {"TemplateArgument", "TemplateDeclaration"}

(* hv, hd: answers of has_vtable / has_destructor that the rule consults   *)
CDType(G, tr, hv, hd, v, n) ==
  LET r == G.nodes[n] IN
  IF n \notin G.allow THEN Vouched(G, tr, n)
  ELSE IF NotByName(tr, r) THEN "No"
  ELSE IF r.opaque THEN
    IF ~CanDeriveUnion(tr) /\ r.tk = "Comp" /\ r.ckind = "Union" /\ G.opt.untagged_union
    THEN "No" ELSE "Yes"
  ELSE IF r.tk \in {"Void", "NullPtr", "Int", "Complex", "Float", "Enum", "TypeParam",
                    "UnresolvedTypeRef", "Reference", "ObjCInterface", "ObjCId", "ObjCSel"}
       THEN Simple(tr, r.tk)
  ELSE IF r.tk = "Pointer" THEN
    LET c == G.nodes[r.inner].canon IN
    IF TK(G, c) = "Function" THEN FnPtr(tr, FnPtrOk(G.nodes[c]))
    ELSE IF tr = "derive_default" THEN "No" ELSE "Yes"
  ELSE IF r.tk = "Function" THEN FnPtr(tr, FnPtrOk(r))
  ELSE IF r.tk = "Array" THEN
    IF v[r.inner] # "Yes" THEN "No"
    ELSE IF r.len = 0 /\ ~CanDeriveIncompleteArray(tr) THEN "No"
    ELSE IF CanDeriveLargeArray(tr) THEN "Yes"
    ELSE IF r.len > ArrayLimit THEN "Manually" ELSE "Yes"
  ELSE IF r.tk = "Vector" THEN
    IF v[r.inner] # "Yes" THEN "No"
    ELSE IF tr = "derive_partialeq" THEN "No" ELSE "Yes"
  ELSE IF r.tk = "Comp" THEN
    IF ~CanDeriveFwdDecl(tr) /\ r.fwd THEN "No"
    ELSE IF ~CanDeriveWithDtor(tr) /\ hd[n] THEN "No"
    ELSE IF r.ckind = "Union" /\ CanDeriveUnion(tr) /\ G.opt.untagged_union
            /\ (Len(r.self_tparams) > 0 \/ Len(r.all_tparams) > 0) THEN "No"
    ELSE IF r.ckind = "Union" /\ ~CanDeriveUnion(tr) THEN
      IF G.opt.untagged_union THEN "No" ELSE "Yes"
    ELSE IF ~CanDeriveWithVtable(tr) /\ hv[n] # "No" THEN "No"
    ELSE IF ~CanDeriveLargeArray(tr) /\ r.too_large_bfu THEN "No"
    ELSE CDJoin(G, v, n, CompEdges(tr))
  ELSE IF r.tk \in AliasLike \cup {"BlockPointer"} THEN CDJoin(G, v, n, TyperefEdges(tr))
  ELSE IF r.tk = "TemplateInstantiation" THEN CDJoin(G, v, n, InstEdges(tr))
  ELSE "Yes"

CDConstrain(G, tr, hv, hd, v, n) ==
  LET r == G.nodes[n] IN
  IF v[n] = "No" THEN "No"
  ELSE IF r.k = "Type" THEN
    LET c == CDType(G, tr, hv, hd, v, n) IN
    CDMax(v[n], IF c = "Yes" /\ ~CanDeriveLargeArray(tr) /\ r.align > ArrayLimit
                THEN "Manually" ELSE c)
  ELSE CDMax(v[n], CDJoin(G, v, n, CDEdgesDefault))

-----------------------------------------------------------------------------
(* Simultaneous steps and least fixed points                                *)
Step(G, Dom, C(_, _), v) == [n \in Ids(G) |-> IF n \in Dom THEN C(v, n) ELSE v[n]]

HVLfp(G) == LET C(v, n) == HVConstrain(G, v, n)
                F(v) == Step(G, HVDom(G), C, v)
            IN Lfp(F, [n \in Ids(G) |-> HVBot])
SZLfp(G, hv) == LET C(v, n) == SZConstrain(G, hv, v, n)
                    F(v) == Step(G, SZDom(G), C, v)
                IN Lfp(F, [n \in Ids(G) |-> SZBot])
HDLfp(G) == LET C(v, n) == HDConstrain(G, v, n)
                F(v) == Step(G, HDDom(G), C, v)
            IN Lfp(F, [n \in Ids(G) |-> FALSE])
HFLfp(G) == LET C(v, n) == HFConstrain(G, v, n)
                F(v) == Step(G, HFDom(G), C, v)
            IN Lfp(F, [n \in Ids(G) |-> FALSE])
TPALfp(G) == LET C(v, n) == TPAConstrain(G, v, n)
                 F(v) == Step(G, TPADom(G), C, v)
             IN Lfp(F, [n \in Ids(G) |-> FALSE])
UTLfp(G) == LET C(v, n) == UTConstrain(G, v, n)
                F(v) == Step(G, UTDom(G), C, v)
            IN Lfp(F, [n \in Ids(G) |-> {}])
CDLfp(G, tr, hv, hd) == LET C(v, n) == CDConstrain(G, tr, hv, hd, v, n)
                            F(v) == Step(G, CDDom(G), C, v)
                        IN Lfp(F, [n \in Ids(G) |-> CDBot])

(* Every structural reference of a node must be an edge that Trace yields  *)
(* (with the kind the analyses subscribe to).                              *)
ExpectedEdges(G, n) ==
  LET r == G.nodes[n] IN
  IF r.k = "Var" THEN {<<r.ty, "VarType">>}
  ELSE IF r.k # "Type" THEN {}
  ELSE IF r.stdint THEN {}
  ELSE IF r.tk \in {"Pointer", "Reference", "Array", "Vector", "BlockPointer", "Alias",
                    "ResolvedTypeRef"}
       /\ (~r.opaque \/ r.tk \in {"Pointer", "Array", "Reference", "ResolvedTypeRef"})
       THEN {<<r.inner, "TypeReference">>}
  ELSE IF r.tk = "TemplateAlias" /\ ~r.opaque THEN
       {<<r.inner, "TypeReference">>} \cup {<<p, "TemplateParameterDefinition">> : p \in Range(r.tparams)}
  ELSE IF r.tk = "TemplateInstantiation" THEN
       {<<r.def, "TemplateDeclaration">>} \cup {<<a, "TemplateArgument">> : a \in Range(r.targs)}
  ELSE IF r.tk = "Function" THEN
       {<<r.ret, "FunctionReturn">>} \cup {<<a, "FunctionParameter">> : a \in Range(r.args)}
  ELSE IF r.tk = "Comp" THEN
       {<<p, "TemplateParameterDefinition">> : p \in Range(r.all_tparams)}
       \cup {<<t, "InnerType">> : t \in Range(r.inner_types)}
       \cup {<<t, "InnerVar">> : t \in Range(r.inner_vars)}
       \cup {<<t, "Method">> : t \in Range(r.methods)}
       \cup {<<t, "Constructor">> : t \in Range(r.ctors)}
       \cup (IF r.dtor = "" THEN {} ELSE {<<r.dtor, "Destructor">>})
       \cup (IF r.opaque THEN {} ELSE
              {<<b, "BaseMember">> : b \in Range(r.bases)}
              \cup UNION {IF f.dm # "" THEN {<<f.dm, "Field">>}
                          ELSE {<<b, "Field">> : b \in Range(f.bf)} : f \in Range(r.fields)})
  ELSE {}

TraceComplete(G, n) == ExpectedEdges(G, n) \subseteq Range(G.nodes[n].edges)
=============================================================================
