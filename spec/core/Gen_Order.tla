----------------------------- MODULE Gen_Order -----------------------------
(***************************************************************************)
(* Behaviour generator (spec -> impl): every valid top-level ordering of a *)
(* family of C/C++ declarations.                                           *)
(*                                                                         *)
(* The family (read from the JSON file named by $FAMILY) gives, per        *)
(* declaration d: needs[d] - declarations that must be *complete* before d *)
(* (by-value members, bases, typedef targets that are instantiated...),    *)
(* uses[d] - declarations that must at least be *declared* before d        *)
(* (pointees, template names), fwdable - declarations for which a forward  *)
(* declaration can be written.  An ordering is a sequence of steps         *)
(* <<"def", d>> / <<"fwd", d>>.  Every complete behaviour is printed once  *)
(* as JSON; the renderer turns it into a header and the real bindgen is    *)
(* run on it.                                                              *)
(***************************************************************************)
EXTENDS Naturals, Sequences, FiniteSets, TLC, Json, IOUtils

Fam == JsonDeserialize(IOEnv.FAMILY)
Decls == {Fam.decls[i] : i \in DOMAIN Fam.decls}
Set(s) == {s[i] : i \in DOMAIN s}
Needs(d) == Set(Fam.needs[d])
Uses(d) == Set(Fam.uses[d])
Fwdable == Set(Fam.fwdable)
MaxFwd == Fam.maxfwd

VARIABLES order, defined, fwd
vars == <<order, defined, fwd>>

Init == order = <<>> /\ defined = {} /\ fwd = {}

Emit(d) == /\ d \notin defined
           /\ Needs(d) \subseteq defined
           /\ Uses(d) \subseteq (defined \cup fwd \cup {d})
           /\ order' = Append(order, <<"def", d>>)
           /\ defined' = defined \cup {d}
           /\ UNCHANGED fwd

(* hoist a forward declaration, only when something not yet emitted uses it *)
Forward(d) == /\ d \in Fwdable /\ d \notin defined /\ d \notin fwd
              /\ Cardinality(fwd) < MaxFwd
              /\ \E u \in Decls \ defined : d \in Uses(u) /\ u # d
              /\ order' = Append(order, <<"fwd", d>>)
              /\ fwd' = fwd \cup {d}
              /\ UNCHANGED defined

Next == \E d \in Decls : Emit(d) \/ Forward(d)
Spec == Init /\ [][Next]_vars

Done == defined = Decls
Emitted == Done => PrintT(<<"ORDER", ToJson(order)>>)
(* well-formedness of what is generated: nothing is used before it is declared *)
WellFormed == \A i \in DOMAIN order :
  order[i][1] = "def" =>
    LET before == {order[j][2] : j \in 1..(i - 1)} IN
    /\ Needs(order[i][2]) \subseteq {order[j][2] : j \in {k \in 1..(i - 1) : order[k][1] = "def"}}
    /\ Uses(order[i][2]) \subseteq before \cup {order[i][2]}
=============================================================================
