SPECIFICATION Spec
INVARIANT Emitted
CHECK_DEADLOCK FALSE
