--------------------------- MODULE Trace_Analyses ---------------------------
(***************************************************************************)
(* Trace validation (impl -> spec) of the fix-point analyses.              *)
(*                                                                         *)
(* Input: NDJSON written by the hooks of the real bindgen (events `reset`, *)
(* `ir`, `vouch`, `an_done`, `lookup`, `gen_end`), many runs concatenated. *)
(* One state per consumed event.  For every analysis that ran, the least   *)
(* fixed point of the rules of IRRules is recomputed on the *real* graph;  *)
(* every value that a consumer looked up must equal it and must not have   *)
(* been flagged unstable by the post-convergence sweep.                    *)
(* Property failures are collected in `viol` and printed by the            *)
(* post-condition; differences on nodes nobody consulted go to `drift`.    *)
(***************************************************************************)
EXTENDS DeriveRules, Json, IOUtils, SequencesExt

Rec == ndJsonDeserialize(IOEnv.TRACE)

VARIABLES l, irAt, case, vouch, lfp, ran, viol, drift, nlook, ncase,
          aux,    \* has_float / has_destructor facts recomputed by the spec at the start of codegen
          dviol,  \* derive-decision failures (property C08)
          ncomp
vars == <<l, irAt, case, vouch, lfp, ran, viol, drift, nlook, ncase, aux, dviol, ncomp>>

NoVouch == [t \in Traits |-> <<>>]

G == [nodes |-> Rec[irAt].nodes, allow |-> Range(Rec[irAt].allowlisted),
      opt |-> Rec[irAt].opt, vouch |-> vouch]

Init == /\ l = 1 /\ irAt = 0 /\ case = "" /\ vouch = NoVouch /\ lfp = <<>>
        /\ ran = {} /\ viol = <<>> /\ drift = <<>> /\ nlook = 0 /\ ncase = 0
        /\ aux = <<>> /\ dviol = <<>> /\ ncomp = 0

Ev == Rec[l]
Is(e) == l <= Len(Rec) /\ Ev.ev = e
Cap(s, x) == IF Len(s) < 200 THEN Append(s, x) ELSE s

B2S(b) == IF b THEN "true" ELSE "false"

Reset == /\ Is("reset")
         /\ case' = Ev.case /\ irAt' = 0 /\ vouch' = NoVouch /\ lfp' = <<>> /\ ran' = {}
         /\ ncase' = ncase + 1 /\ aux' = <<>>
         /\ UNCHANGED <<viol, drift, nlook, dviol, ncomp>>

LoadIR == /\ Is("ir") /\ irAt' = l
          /\ UNCHANGED <<case, vouch, lfp, ran, viol, drift, nlook, ncase, aux, dviol, ncomp>>

Vouch == /\ Is("vouch")
         /\ vouch' = [vouch EXCEPT ![Ev.trait] = (Ev.item :> Ev.val) @@ @]
         /\ UNCHANGED <<irAt, case, lfp, ran, viol, drift, nlook, ncase, aux, dviol, ncomp>>

Has(name) == name \in DOMAIN lfp

(* least fixed point of analysis `name` on the current graph               *)
Compute(name) ==
  CASE name = "has_vtable" -> HVLfp(G)
    [] name = "sizedness" -> SZLfp(G, IF Has("has_vtable") THEN lfp["has_vtable"] ELSE HVLfp(G))
    [] name = "has_destructor" -> HDLfp(G)
    [] name = "has_float" -> HFLfp(G)
    [] name = "type_param_in_array" -> TPALfp(G)
    [] name = "used_template_params" -> UTLfp(G)
    [] name \in Traits ->
         CDLfp(G, name, IF Has("has_vtable") THEN lfp["has_vtable"] ELSE HVLfp(G),
                        IF Has("has_destructor") THEN lfp["has_destructor"] ELSE HDLfp(G))

(* recorded result of an analysis, as a string, at node n                  *)
Recorded(name, res, n) ==
  IF n \in DOMAIN res THEN res[n]
  ELSE CASE name = "has_vtable" -> "No"
         [] name = "sizedness" -> "ZeroSized"
         [] name \in Traits -> "Yes"
         [] name = "used_template_params" -> ""
         [] OTHER -> "false"

Num(s) == CHOOSE k \in 0..100000 : ToString(k) = s

SetStr(S) ==
  LET RECURSIVE Go(_, _)
      Go(T, acc) == IF T = {} THEN acc
                    ELSE LET m == CHOOSE x \in T : \A y \in T : x <= y
                         IN Go(T \ {m}, IF acc = "" THEN ToString(m) ELSE acc \o " " \o ToString(m))
  IN Go(S, "")

Expected(name, f, n) ==
  CASE name \in {"has_vtable", "sizedness"} \cup Traits -> f[n]
    [] name = "used_template_params" -> f[n]
    [] OTHER -> B2S(f[n])

AnDone ==
  /\ Is("an_done") /\ irAt # 0
  /\ LET name == Ev.name
         f == Compute(name)
         (* drift: recorded map differs from the LFP somewhere (any node) *)
         diffs == IF name = "used_template_params" THEN {}
                  ELSE {n \in Ids(G) : Recorded(name, Ev.result, n) # Expected(name, f, n)}
     IN /\ lfp' = (name :> f) @@ lfp
        /\ ran' = ran \cup {name}
        /\ drift' = IF diffs = {} THEN drift
                    ELSE Cap(drift, [case |-> case, analysis |-> name,
                                     node |-> CHOOSE n \in diffs : TRUE, count |-> Cardinality(diffs)])
  /\ UNCHANGED <<irAt, case, vouch, viol, nlook, ncase, aux, dviol, ncomp>>

(* the value a consumer must have seen                                      *)
LookupExpected(name, item, param) ==
  CASE name = "has_vtable" -> lfp["has_vtable"][item]
    [] name = "sizedness" -> lfp["sizedness"][item]
    [] name = "has_destructor" -> B2S(lfp["has_destructor"][item])
    [] name = "has_float" -> B2S(lfp["has_float"][item])
    [] name = "type_param_in_array" -> B2S(lfp["type_param_in_array"][item])
    [] name = "derive_copy" ->
         B2S(~lfp["type_param_in_array"][item] /\ lfp["derive_copy"][item] = "Yes")
    [] name \in {"derive_debug", "derive_default", "derive_hash"} -> B2S(lfp[name][item] = "Yes")
    [] name = "derive_partialeq" -> lfp[name][item]
    [] name = "uses_any_template_params" -> B2S(lfp["used_template_params"][item] # {})
    [] name = "used_template_params" ->
         B2S(G.nodes[item].blocklisted
             \/ G.nodes[param].res \in lfp["used_template_params"][item])

Needs(name) ==
  CASE name = "derive_copy" -> {"type_param_in_array", "derive_copy"}
    [] name = "uses_any_template_params" -> {"used_template_params"}
    [] OTHER -> {name}

Lookup ==
  /\ Is("lookup") /\ irAt # 0
  /\ nlook' = nlook + 1
  /\ IF ~(Needs(Ev.name) \subseteq DOMAIN lfp)
     THEN (* analysis did not run through `analyze` (e.g. no-recursive template usage) *)
          viol' = viol
     ELSE LET exp == LookupExpected(Ev.name, Ev.item, Ev.param) IN
          viol' =
            IF Ev.unstable THEN
              Cap(viol, [kind |-> "unstable-consulted", case |-> case, analysis |-> Ev.name,
                         item |-> Ev.item, got |-> Ev.val, want |-> exp])
            ELSE IF exp # Ev.val THEN
              Cap(viol, [kind |-> "not-least-fixed-point", case |-> case, analysis |-> Ev.name,
                         item |-> Ev.item, got |-> Ev.val, want |-> exp])
            ELSE viol
  /\ UNCHANGED <<irAt, case, vouch, lfp, ran, drift, ncase, aux, dviol, ncomp>>

(* start of code generation: the facts the derive decision may not contradict *)
Phase ==
  /\ Is("phase") /\ irAt # 0
  /\ aux' = [hf |-> IF Has("has_float") THEN lfp["has_float"] ELSE HFLfp(G),
             hd |-> IF Has("has_destructor") THEN lfp["has_destructor"] ELSE HDLfp(G)]
  /\ UNCHANGED <<irAt, case, vouch, lfp, ran, viol, drift, nlook, ncase, dviol, ncomp>>

DCap(s, x) == IF Len(s) < 200 THEN Append(s, x) ELSE s
Pick(S) == IF S = {} THEN "" ELSE CHOOSE x \in S : TRUE

(* one composite emitted by CompInfo::codegen *)
CompEv ==
  /\ Is("comp") /\ irAt # 0 /\ aux # <<>>
  /\ ncomp' = ncomp + 1
  /\ LET c == Ev
         n == c.id
         r == G.nodes[n]
         can == [tr \in Traits |-> IF Has(tr) THEN lfp[tr][n] ELSE "No"]
         tpa == IF Has("type_param_in_array") THEN lfp["type_param_in_array"][n] ELSE FALSE
         flt == IF Has("has_float") THEN lfp["has_float"][n] ELSE FALSE
         want == DeriveSet(G.opt, r, can, tpa, flt, c.fwd, c.packed)
         got == Range(c.derives)
         bad == got \cap Forbidden(G, n, aux.hf[n], aux.hd[n])
         v1 == IF bad # {} THEN
                 <<[kind |-> "forbidden-derive", case |-> case, item |-> c.name, trait |-> Pick(bad),
                    want |-> "", got |-> ""]>> ELSE <<>>
         v2 == IF got # want THEN
                 <<[kind |-> IF want \ got # {} THEN "derive-withheld" ELSE "derive-not-allowed",
                    case |-> case, item |-> c.name,
                    trait |-> Pick((want \ got) \cup (got \ want)), want |-> ToJson(want), got |-> ToJson(got)]>>
               ELSE <<>>
         v3 == IF c.needs_debug_impl # NeedsDebugImpl(G.opt, r, got)
                  \/ c.needs_default_impl # NeedsDefaultImpl(G.opt, r, got, c.fwd)
                  \/ c.needs_partialeq_impl # NeedsPartialEqImpl(G.opt, got, can)
                  \/ c.needs_clone_impl # ("Copy" \in got /\ "Clone" \notin got)
               THEN <<[kind |-> "manual-impl-decision", case |-> case, item |-> c.name, trait |-> "",
                       want |-> "", got |-> ""]>> ELSE <<>>
     IN dviol' = IF Len(dviol) < 200 THEN dviol \o v1 \o v2 \o v3 ELSE dviol
  /\ UNCHANGED <<irAt, case, vouch, lfp, ran, viol, drift, nlook, ncase, aux>>

Other == /\ l <= Len(Rec)
         /\ \/ Ev.ev \notin {"reset", "ir", "vouch", "an_done", "lookup", "phase", "comp"}
            \/ (Ev.ev \in {"phase", "comp"} /\ irAt = 0)
            \/ (Ev.ev = "comp" /\ aux = <<>>)
         /\ UNCHANGED <<irAt, case, vouch, lfp, ran, viol, drift, nlook, ncase, aux, dviol, ncomp>>

Next == /\ (Reset \/ LoadIR \/ Vouch \/ AnDone \/ Lookup \/ Phase \/ CompEv \/ Other)
        /\ l' = l + 1

Spec == Init /\ [][Next]_vars

(* Trace acceptance: every line was consumed (one state per line + Init).  *)
Accepted ==
  LET d == TLCGet("stats").diameter IN
  IF d - 1 = Len(Rec) THEN TRUE
  ELSE /\ PrintT(<<"REJECTED", ToJson([at |-> d, line |-> Rec[d]])>>)
       /\ FALSE

Done == l = Len(Rec) + 1
Report == Done => /\ PrintT(<<"VIOL", ToJson(viol)>>)
                  /\ PrintT(<<"DRIFT", ToJson(drift)>>)
                  /\ PrintT(<<"DVIOL", ToJson(dviol)>>)
                  /\ PrintT(<<"COUNTS", ToJson([lookups |-> nlook, cases |-> ncase, events |-> Len(Rec), comps |-> ncomp])>>)
=============================================================================
