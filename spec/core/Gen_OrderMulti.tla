--------------------------- MODULE Gen_OrderMulti ---------------------------
(* Gen_Order over a list of families at once (the family is chosen in Init), *)
(* meant for TLC's simulation mode: every simulated behaviour is one random   *)
(* valid declaration order of one of the programs.                            *)
EXTENDS Naturals, Sequences, FiniteSets, TLC, Json, IOUtils
Fams == JsonDeserialize(IOEnv.FAMILY)
Set(s) == {s[i] : i \in DOMAIN s}
VARIABLES f, order, defined, fwd
vars == <<f, order, defined, fwd>>
Decls == Set(Fams[f].decls)
Needs(d) == Set(Fams[f].needs[d])
Uses(d) == Set(Fams[f].uses[d])
Fwdable == Set(Fams[f].fwdable)
Init == f \in 1..Len(Fams) /\ order = <<>> /\ defined = {} /\ fwd = {}
Emit(d) == /\ d \notin defined /\ Needs(d) \subseteq defined /\ Uses(d) \subseteq (defined \cup fwd \cup {d})
           /\ order' = Append(order, <<"def", d>>) /\ defined' = defined \cup {d} /\ UNCHANGED <<f, fwd>>
Forward(d) == /\ d \in Fwdable /\ d \notin defined /\ d \notin fwd /\ Cardinality(fwd) < Fams[f].maxfwd
              /\ \E u \in Decls \ defined : d \in Uses(u) /\ u # d
              /\ order' = Append(order, <<"fwd", d>>) /\ fwd' = fwd \cup {d} /\ UNCHANGED <<f, defined>>
Next == \E d \in Decls : Emit(d) \/ Forward(d)
Spec == Init /\ [][Next]_vars
Done == defined = Decls
Emitted == Done => PrintT(<<"ORDER", ToJson([f |-> f, order |-> order])>>)
=============================================================================
